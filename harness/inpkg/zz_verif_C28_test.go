//go:build verif

package absnfs

import (
	"fmt"
	"io"
	"strings"
	"sync"
	"testing"
	"time"

	"verif.local/lib/evid"
	"verif.local/lib/refs"
	"verif.local/lib/rfc"
	"verif.local/lib/xdrw"
)

// C28: every documented way of starting a server speaks standard ONC RPC over TCP.
// Oracle: the harness's own record-marking client. A server that does not
// frame records closes the connection on the first header, so the verdict is
// an observed EOF, never a timeout.
func TestVerif_C28(t *testing.T) {
	rec := evid.New("C28")
	rec.Rule = "start paths {AbsfsNFS.Export with port 0 / explicit port, Server.Listen with UseRecordMarking, StartWithPortmapper} x debug {off,on} (+ squash root/all/none); a conformant record-marking client performs NULL (AUTH_NONE), MNT / and GETATTR of the mounted handle, then keeps talking on the same connection (replies of every length in every order; every credential shape a conformant client may present; calls cut into record fragments; one backend call that takes 7 s of the 30 s default timeout); then Unexport/Stop; distinct = (start path, option combination, step, outcome) tuples"
	defer rec.Write()
	for _, debug := range []bool{false, true} {
		for _, pathName := range []string{"Export(port 0)", "Export(explicit port)", "Server.Listen+UseRecordMarking", "StartWithPortmapper"} {
			vfC28One(rec, pathName, debug, "", !debug && (pathName == "Export(port 0)" || pathName == "Server.Listen+UseRecordMarking"))
		}
	}
	// the same with identity squashing configured (the NULL ping carries AUTH_NONE)
	for _, sq := range []string{"root", "all", "none"} {
		for _, pathName := range []string{"Export(port 0)", "Server.Listen+UseRecordMarking"} {
			vfC28One(rec, pathName, sq == "all", sq, false)
		}
	}
}

func vfC28One(rec *evid.Rec, pathName string, debug bool, squash string, slowOnce bool) {
	fs := refs.New()
	fs.PlantFile("/f", []byte("x"), 0644, 0, 0)
	n, err := New(fs, ExportOptions{Squash: squash})
	if err != nil {
		rec.Infra(err.Error())
		return
	}
	vfQuiet(n)
	desc := fmt.Sprintf("%s debug=%v", pathName, debug)
	if squash != "" {
		desc += " squash=" + squash
	}
	evid.Journal(desc)
	var port int
	var stop func()
	switch pathName {
	case "Export(port 0)", "Export(explicit port)":
		p := 0
		if pathName == "Export(explicit port)" {
			p = 45200
			for ; p < 45220; p++ {
				if err = n.Export("/", p); err == nil {
					break
				}
			}
		} else {
			err = n.Export("/", 0)
		}
		if err != nil {
			rec.Inconclusive(1)
			return
		}
		n.exportServer.logger.SetOutput(io.Discard)
		port = n.exportServer.GetPort()
		stop = func() { n.Unexport(); n.Close() }
	default:
		s, err := NewServer(ServerOptions{Hostname: "127.0.0.1", Debug: debug, UseRecordMarking: pathName != "StartWithPortmapper"})
		if err != nil {
			rec.Infra(err.Error())
			return
		}
		s.logger.SetOutput(io.Discard)
		s.SetHandler(n)
		if pathName == "StartWithPortmapper" {
			if err := s.StartWithPortmapper(); err != nil {
				// port 111 not bindable here: this path is inconclusive, the others still decide
				rec.Inconclusive(1)
				rec.Distinct(desc + "|bind-111-failed")
				n.Close()
				return
			}
		} else if err := s.Listen(); err != nil {
			rec.Infra(err.Error())
			return
		}
		port = s.GetPort()
		stop = func() { s.Stop(); n.Close() }
	}
	defer stop()
	conn, err := vfDialRM(port)
	if err != nil {
		rec.Inconclusive(1)
		return
	}
	defer conn.c.Close()
	step := func(name string, prog, proc uint32, args []byte) *rfc.Reply {
		rec.Eval(1)
		raw, closed, err := conn.call(prog, proc, args)
		switch {
		case err != nil:
			rec.Inconclusive(1)
			rec.Distinct(desc + "|" + name + "|timeout")
			return nil
		case closed:
			rec.Violate("C28/record-marked-call-not-answered/start="+pathName+"/step="+name, fmt.Sprintf("the server closed the connection instead of answering a record-marked %s call [%s]", name, desc), nil)
			rec.Distinct(desc + "|" + name + "|connection-closed")
			return nil
		}
		rep, derr := rfc.DecodeReply(raw)
		if derr != nil || rep.XID != conn.xid || rep.Denied || rep.AcceptStat != 0 {
			rec.Violate("C28/malformed-or-rejected-reply/start="+pathName+"/step="+name, fmt.Sprintf("%v %+v [%s]", derr, rep, desc), nil)
			return nil
		}
		rec.Distinct(desc + "|" + name + "|answered")
		return rep
	}
	conn.none = true // the standard NULL ping carries AUTH_NONE
	if step("NULL", vfProgNFS, 0, nil) == nil {
		return
	}
	conn.none = false
	rep := step("MNT", vfProgMount, 1, (&xdrw.W{}).Str("/").B)
	if rep == nil {
		return
	}
	m, derr := rfc.DecodeMount(1, rep.Body)
	if derr != nil || m.Status != 0 {
		rec.Violate("C28/mnt-failed/start="+pathName, fmt.Sprintf("%v %+v", derr, m), nil)
		return
	}
	rep = step("GETATTR", vfProgNFS, 1, xdrw.ArgFH(vfFH(m.FH)))
	if rep == nil {
		return
	}
	if g, derr := rfc.DecodeNFS(1, rep.Body); derr != nil || g.Status != 0 || g.Attr.Type != 2 {
		rec.Violate("C28/getattr-of-mounted-handle-failed/start="+pathName, fmt.Sprintf("%v %+v", derr, g), nil)
	}
	// the conversation goes on on the same connection: replies of every length in every order
	// (a long reply followed by shorter ones, and back)
	conn.none = true
	if step("NULL-again", vfProgNFS, 0, nil) == nil {
		return
	}
	conn.none = false
	for _, st := range []string{"GETATTR-again", "MNT-again", "NULL-3", "GETATTR-3", "READDIRPLUS", "NULL-4", "GETATTR-4"} {
		var rp *rfc.Reply
		switch {
		case strings.HasPrefix(st, "GETATTR"):
			rp = step(st, vfProgNFS, 1, xdrw.ArgFH(vfFH(m.FH)))
			if rp != nil {
				if g, derr := rfc.DecodeNFS(1, rp.Body); derr != nil || g.Status != 0 || g.Attr.Type != 2 {
					rec.Violate("C28/getattr-of-mounted-handle-failed/start="+pathName+"/later-in-the-conversation", fmt.Sprintf("%s: %v %+v", st, derr, g), nil)
				}
			}
		case strings.HasPrefix(st, "MNT"):
			rp = step(st, vfProgMount, 1, (&xdrw.W{}).Str("/").B)
		case st == "READDIRPLUS":
			rp = step(st, vfProgNFS, 17, xdrw.ArgReaddirplus(vfFH(m.FH), 0, [8]byte{}, 4096, 8192))
		default:
			conn.none = true
			rp = step(st, vfProgNFS, 0, nil)
			conn.none = false
		}
		if rp == nil {
			return
		}
	}
	// the credentials a conformant client may present (RFC 5531 appendix A: up to 16 supplementary
	// groups, a machine name of up to 255 bytes), each on MNT and GETATTR
	gids16 := make([]uint32, 16)
	for i := range gids16 {
		gids16[i] = uint32(100 + i)
	}
	for _, cc := range []struct {
		name string
		cred xdrw.Cred
	}{
		{"no-groups", xdrw.AuthSys(7, "client", 0, 0, nil)},
		{"one-group", xdrw.AuthSys(7, "client", 0, 0, []uint32{5})},
		{"sixteen-groups", xdrw.AuthSys(7, "client", 0, 0, gids16)},
		{"machine-name-255", xdrw.AuthSys(7, strings.Repeat("m", 255), 0, 0, []uint32{5})},
		{"empty-machine-name", xdrw.AuthSys(0, "", 0, 0, nil)},
	} {
		cred := cc.cred
		conn.cred = &cred
		if step("MNT/cred="+cc.name, vfProgMount, 1, (&xdrw.W{}).Str("/").B) == nil {
			return
		}
		rp := step("GETATTR/cred="+cc.name, vfProgNFS, 1, xdrw.ArgFH(vfFH(m.FH)))
		if rp == nil {
			return
		}
		if g, derr := rfc.DecodeNFS(1, rp.Body); derr != nil || g.Status != 0 || g.Attr.Type != 2 {
			rec.Violate("C28/getattr-of-mounted-handle-failed/start="+pathName+"/cred="+cc.name, fmt.Sprintf("%v %+v", derr, g), nil)
		}
	}
	conn.cred = nil
	// a client may cut any call into several record fragments (RFC 5531 section 11): header and
	// credential in one, arguments in the next, or many small ones
	for _, fr := range []int{40, 16, 4} {
		conn.frag = fr
		if step(fmt.Sprintf("MNT/fragments-of-%d", fr), vfProgMount, 1, (&xdrw.W{}).Str("/").B) == nil {
			return
		}
		rp := step(fmt.Sprintf("GETATTR/fragments-of-%d", fr), vfProgNFS, 1, xdrw.ArgFH(vfFH(m.FH)))
		if rp == nil {
			return
		}
		if g, derr := rfc.DecodeNFS(1, rp.Body); derr != nil || g.Status != 0 || g.Attr.Type != 2 {
			rec.Violate("C28/getattr-of-mounted-handle-failed/start="+pathName+"/fragmented-call", fmt.Sprintf("%v %+v", derr, g), nil)
		}
	}
	conn.frag = 0
	// a backend that is slow but well inside the default request timeout (30 s): one lstat takes 7 s.
	// The verdict is the connection being closed instead of the call being answered; a client-side
	// timeout is inconclusive.
	if slowOnce {
		var once sync.Once
		fs.SetHook(func(op *refs.Op, ph refs.Phase) error {
			if ph == refs.Before && op.Name == "Lstat" {
				once.Do(func() { time.Sleep(7 * time.Second) })
			}
			return nil
		})
		rp := step("GETATTR/one-backend-call-takes-7s", vfProgNFS, 1, xdrw.ArgFH(vfFH(m.FH)))
		fs.SetHook(nil)
		if rp == nil {
			return
		}
		if g, derr := rfc.DecodeNFS(1, rp.Body); derr != nil || g.Status != 0 || g.Attr.Type != 2 {
			rec.Violate("C28/getattr-of-mounted-handle-failed/start="+pathName+"/slow-backend-within-the-default-timeout", fmt.Sprintf("%v %+v", derr, g), nil)
		}
		if step("NULL/after-the-slow-call", vfProgNFS, 0, nil) == nil {
			return
		}
	}
	rec.Sample(map[string]any{"start": desc, "port": port})
}
