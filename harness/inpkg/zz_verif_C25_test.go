//go:build verif

package absnfs

import (
	"bytes"
	"fmt"
	"os"
	"strings"
	"syscall"
	"testing"

	"verif.local/lib/evid"
	"verif.local/lib/refs"
	"verif.local/lib/xdrw"
)

// C25: MaxFileSize is enforced.
// Oracle: byte model with a limit + differential against an unlimited server
// fed the same operations (for the requests that stay within the limit).
func TestVerif_C25(t *testing.T) {
	rec := evid.New("C25")
	rec.Rule = "MaxFileSize m in {1,100,4096,65537} set at construction or at runtime (UpdatePolicyOptions / UpdateExportOptions); WRITE and SETATTR(size) with offsets/counts/sizes at m-1, m, m+1 and random; distinct = (m, how set, op, relation to limit, outcome) tuples"
	defer rec.Write()
	eps := evid.Pick(48, 2000)
	for ep := 0; ep < eps && rec.Violations() < 20; ep++ {
		vfC25Episode(rec, ep)
	}
	for ep := 0; ep < evid.Pick(12, 200) && rec.Violations() < 20; ep++ {
		vfC25OverLimitFile(rec, ep)
	}
}

// vfC25OverLimitFile: the file is ALREADY larger than the limit (the limit was introduced or lowered
// at runtime, or the file was there before the export). A SETATTR(size) to a size above the limit
// still fails with FBIG and leaves the file unchanged - also when it would shrink the file; a size
// within the limit is accepted as without a limit.
func vfC25OverLimitFile(rec *evid.Rec, ep int) {
	vfC25Path = vfC25Names[ep%len(vfC25Names)]
	rng := evid.Rng(2525, int64(ep))
	m := []int64{100, 4096, 65537}[ep%3]
	how := []string{"file-older-than-export", "UpdatePolicyOptions", "UpdateExportOptions"}[(ep/3)%3]
	big := int(m)*3 + rng.Intn(50)
	data := bytes.Repeat([]byte{7}, big)
	fs := refs.New()
	fs.PlantFile(vfC25Path, data, 0666, 0, 0)
	o := ExportOptions{AttrCacheTimeout: 1}
	if how == "file-older-than-export" {
		o.MaxFileSize = m
	}
	srv, err := vfNewSrv(fs, o)
	if err != nil {
		rec.Infra(err.Error())
		return
	}
	defer srv.Close()
	switch how {
	case "UpdatePolicyOptions":
		p := *srv.nfs.policy.Load()
		p.MaxFileSize = m
		srv.nfs.UpdatePolicyOptions(p)
	case "UpdateExportOptions":
		eo := srv.nfs.GetExportOptions()
		eo.MaxFileSize = m
		srv.nfs.UpdateExportOptions(eo)
	}
	c := srv.client()
	root, _ := c.mnt("/")
	l, _ := c.lookup(root, vfC25Path[1:])
	if l == nil || l.Status != 0 {
		rec.Infra("lookup")
		return
	}
	fh := vfFH(l.FH)
	cur := big
	for i := 0; i < 6; i++ {
		var ns int64
		switch rng.Intn(4) {
		case 0:
			ns = m + 1
		case 1:
			ns = m + 1 + int64(rng.Intn(cur-int(m))) // above the limit, not above the current size
		case 2:
			ns = int64(cur) + 1 + int64(rng.Intn(100))
		default:
			ns = int64(cur) - 1
		}
		if ns <= m {
			ns = m + 1
		}
		rec.Eval(1)
		r, _ := c.setattr(fh, xdrw.Sattr3{Size: xdrw.U64p(uint64(ns))})
		if r == nil {
			rec.Violate("C25/no-reply", "SETATTR", nil)
			return
		}
		desc := fmt.Sprintf("file of %d bytes, MaxFileSize=%d (%s): SETATTR size=%d", cur, m, how, ns)
		rel := "shrink-to-over-limit"
		if ns > int64(cur) {
			rel = "grow"
		}
		if r.Status != 27 {
			rec.Violate("C25/over-limit-not-FBIG/op=SETATTR/file-already-over-limit/"+rel, fmt.Sprintf("%s answered status %d, want NFS3ERR_FBIG", desc, r.Status), nil)
		}
		if b, _ := fs.Bytes(vfC25Path); len(b) != cur {
			rec.Violate("C25/refused-request-changed-file/file-already-over-limit", fmt.Sprintf("%s: the file is %d bytes now", desc, len(b)), nil)
			cur = len(b)
			if cur <= int(m) {
				break
			}
		}
		rec.Distinct(fmt.Sprintf("over-limit-file|m=%d|%s|%s|st=%d", m, how, rel, r.Status))
	}
	// bringing it within the limit is an ordinary request
	if r, _ := c.setattr(fh, xdrw.Sattr3{Size: xdrw.U64p(uint64(m))}); r == nil || r.Status != 0 {
		rec.Violate("C25/within-limit-behaves-differently/op=SETATTR/file-already-over-limit", fmt.Sprintf("SETATTR size=%d (the limit itself) on an over-limit file answered %d", m, vfSt(r)), nil)
	}
}

// the file's name is nothing special to the limit: names that read like error messages included
var vfC25Names = []string{"/f", "/resource limits", "/quota exceeded.bin", "/too many open files", "/no space left on device", "/file too large"}
var vfC25Path = "/f"

func vfC25Episode(rec *evid.Rec, ep int) {
	vfC25Path = vfC25Names[(ep/2)%len(vfC25Names)]
	rng := evid.Rng(25, int64(ep))
	ms := []int64{1, 100, 4096, 65537}
	m := ms[ep%4]
	how := []string{"construction", "UpdatePolicyOptions", "UpdateExportOptions"}[(ep/4)%3]
	mk := func(limit int64) (*vfSrv, *vfClient, uint64) {
		fs := refs.New()
		fs.MaxSize = 1 << 20
		fs.PlantFile(vfC25Path, nil, 0666, 0, 0)
		o := ExportOptions{AttrCacheTimeout: 1, TransferSize: 131072}
		if how == "construction" {
			o.MaxFileSize = limit
		}
		s, err := vfNewSrv(fs, o)
		if err != nil {
			return nil, nil, 0
		}
		if how == "UpdatePolicyOptions" {
			p := *s.nfs.policy.Load()
			p.MaxFileSize = limit
			s.nfs.UpdatePolicyOptions(p)
		} else if how == "UpdateExportOptions" {
			eo := s.nfs.GetExportOptions()
			eo.MaxFileSize = limit
			s.nfs.UpdateExportOptions(eo)
		}
		c := s.client()
		root, _ := c.mnt("/")
		l, _ := c.lookup(root, vfC25Path[1:])
		if l == nil || l.Status != 0 {
			return nil, nil, 0
		}
		return s, c, vfFH(l.FH)
	}
	lim, lc, lh := mk(m)
	unl, uc, uh := mk(0)
	if lim == nil || unl == nil {
		rec.Infra("setup")
		return
	}
	defer lim.Close()
	defer unl.Close()
	if got := lim.nfs.GetExportOptions().MaxFileSize; got != m {
		rec.Violate("C25/limit-not-reported/how="+how, fmt.Sprintf("GetExportOptions().MaxFileSize=%d want %d", got, m), nil)
	}
	var model []byte
	var ops []string
	fail := func(sig, what string) {
		rec.Violate(sig, fmt.Sprintf("%s [m=%d via %s]", what, m, how), map[string]any{"m": m, "how": how, "ops": append([]string(nil), ops...)})
	}
	// A backend that can hold huge sparse files would let an unchecked request through, refs
	// cannot (1 MiB cap, and it must not allocate 2^63 bytes): so the monitor watches the
	// backend boundary instead. A size-changing call beyond the limit that REACHES the backend
	// is the witness that nothing in the server refused it; the hook fails it like a full disk.
	var reached string
	lim.fs.SetHook(func(op *refs.Op, ph refs.Phase) error {
		if ph != refs.Before {
			return nil
		}
		switch op.Name {
		case "File.WriteAt":
			if op.Len > 0 && (op.Off < 0 || op.Off > m || int64(op.Len) > m-op.Off) {
				reached = fmt.Sprintf("%s(off=%d,len=%d)", op.Name, op.Off, op.Len)
				return &os.PathError{Op: "write", Path: op.Path, Err: syscall.EFBIG}
			}
		case "Truncate", "File.Truncate":
			if op.Off > m || op.Off < 0 {
				reached = fmt.Sprintf("%s(size=%d)", op.Name, op.Off)
				return &os.PathError{Op: "truncate", Path: op.Path, Err: syscall.EFBIG}
			}
		}
		return nil
	})
	defer lim.fs.SetHook(nil)
	huge := []uint64{1 << 31, 1<<32 - 1, 1 << 32, 1 << 40, 1 << 62, 1<<63 - 70000, 1<<63 - 64, 1<<63 - 8, 1<<63 - 2, 1<<63 - 1, 1 << 63, 1<<63 + 1, 1<<64 - 70000, 1<<64 - 2, 1<<64 - 1}
	around := func() int64 {
		switch rng.Intn(6) {
		case 0:
			return m - 1
		case 1:
			return m
		case 2:
			return m + 1
		case 3:
			return m + int64(rng.Intn(1000)) + 2
		default:
			return int64(rng.Intn(int(m) + 1))
		}
	}
	for i := 0; i < 30; i++ {
		size := int64(len(model))
		if i%5 == 4 { // offsets and sizes near 2^31, 2^32, 2^63 and 2^64: the sum offset+count must not wrap
			hv := huge[rng.Intn(len(huge))]
			reached = ""
			var st uint32
			var what string
			rec.Eval(1)
			if rng.Intn(3) == 0 {
				what = fmt.Sprintf("SETATTR size=%d", hv)
				ops = append(ops, what)
				r, _ := lc.setattr(lh, xdrw.Sattr3{Size: xdrw.U64p(hv)})
				if r == nil {
					fail("C25/no-reply", what)
					return
				}
				st = r.Status
			} else {
				n := []int{1, 7, 8, 64, 4096, 65536}[rng.Intn(6)]
				what = fmt.Sprintf("WRITE off=%d len=%d", hv, n)
				ops = append(ops, what)
				r, _ := lc.write(lh, hv, 2, bytes.Repeat([]byte{0xEE}, n))
				if r == nil {
					fail("C25/no-reply", what)
					return
				}
				st = r.Status
			}
			cls := "below-2^63"
			if hv >= 1<<63 {
				cls = "2^63-and-above" // not representable as a file offset: any refusal will do, FBIG is not demanded
			}
			kind := strings.Fields(what)[0]
			if reached != "" {
				fail("C25/over-limit-request-reached-backend/op="+kind+"/"+cls, fmt.Sprintf("%s: the backend was asked for %s", what, reached))
				reached = ""
			}
			if st == 0 {
				fail("C25/over-limit-not-refused/op="+kind+"/"+cls, what+" answered NFS3_OK")
			} else if st != 27 && hv < 1<<63 {
				fail("C25/over-limit-not-FBIG/op="+kind+"/huge", fmt.Sprintf("%s answered status %d, want NFS3ERR_FBIG", what, st))
			}
			rec.Distinct(fmt.Sprintf("m=%d|%s|%s|huge|%s|st=%d", m, how, kind, cls, st))
		} else if rng.Intn(3) == 0 {
			ns := around()
			if ns < 0 {
				ns = 0
			}
			ops = append(ops, fmt.Sprintf("SETATTR size=%d", ns))
			rec.Eval(1)
			r, _ := lc.setattr(lh, xdrw.Sattr3{Size: xdrw.U64p(uint64(ns))})
			if r == nil {
				fail("C25/no-reply", "SETATTR")
				return
			}
			rel := "within"
			if ns > m {
				rel = "over"
			}
			if ns > m {
				if r.Status != 27 {
					fail("C25/over-limit-not-FBIG/op=SETATTR", fmt.Sprintf("SETATTR size=%d answered status %d, want NFS3ERR_FBIG", ns, r.Status))
				}
			} else {
				ur, _ := uc.setattr(uh, xdrw.Sattr3{Size: xdrw.U64p(uint64(ns))})
				if ur != nil && ur.Status != r.Status {
					fail("C25/within-limit-behaves-differently/op=SETATTR", fmt.Sprintf("size=%d: status %d with limit, %d without", ns, r.Status, ur.Status))
				}
				if r.Status == 0 {
					nd := make([]byte, ns)
					copy(nd, model)
					model = nd
				}
			}
			rec.Distinct(fmt.Sprintf("m=%d|%s|SETATTR|%s|st=%d", m, how, rel, r.Status))
		} else {
			end := around()
			n := int64(1 + rng.Intn(64))
			if rng.Intn(4) == 0 {
				n = int64(rng.Intn(70000))
			}
			off := end - n
			if off < 0 {
				off = 0
				n = end
			}
			if n <= 0 {
				n, off = 1, end
			}
			payload := bytes.Repeat([]byte{byte(i + 1)}, int(n))
			ops = append(ops, fmt.Sprintf("WRITE off=%d len=%d (size %d)", off, n, size))
			rec.Eval(1)
			r, _ := lc.write(lh, uint64(off), 2, payload)
			if r == nil {
				fail("C25/no-reply", "WRITE")
				return
			}
			over := off+n > m
			rel := "within"
			if over {
				rel = "over"
			}
			if over {
				if r.Status != 27 {
					fail("C25/over-limit-not-FBIG/op=WRITE", fmt.Sprintf("WRITE off=%d len=%d answered status %d, want NFS3ERR_FBIG", off, n, r.Status))
				}
			} else {
				ur, _ := uc.write(uh, uint64(off), 2, payload)
				if ur != nil && (ur.Status != r.Status || ur.Count != r.Count) {
					fail("C25/within-limit-behaves-differently/op=WRITE", fmt.Sprintf("off=%d len=%d: status/count %d/%d with limit, %d/%d without", off, n, r.Status, r.Count, ur.Status, ur.Count))
				}
				if r.Status == 0 {
					e := off + int64(r.Count)
					if e > int64(len(model)) {
						nd := make([]byte, e)
						copy(nd, model)
						model = nd
					}
					copy(model[off:], payload[:r.Count])
				}
			}
			rec.Distinct(fmt.Sprintf("m=%d|%s|WRITE|%s|st=%d", m, how, rel, r.Status))
		}
		if reached != "" {
			fail("C25/over-limit-request-reached-backend/op=any/around-limit", "the backend was asked for "+reached)
			reached = ""
		}
		b, _ := lim.fs.Bytes(vfC25Path)
		if int64(len(b)) > m {
			fail("C25/file-larger-than-limit", fmt.Sprintf("backend file is %d bytes", len(b)))
			// resync both sides and continue
			lim.fs.PlantFile(vfC25Path, model, 0666, 0, 0)
		} else if !bytes.Equal(b, model) {
			fail("C25/refused-request-changed-file", fmt.Sprintf("backend %d bytes, model %d bytes", len(b), len(model)))
			model = b
		}
		unl.fs.PlantFile(vfC25Path, model, 0666, 0, 0)
	}
	if ep < 2 {
		rec.Sample(map[string]any{"m": m, "how": how, "ops": ops})
	}
}
