//go:build verif

package absnfs

import (
	"io"
	"bytes"
	"fmt"
	"math/rand"
	"sync"
	"testing"
	"time"

	"verif.local/lib/evid"
	"verif.local/lib/refs"
	"verif.local/lib/rfc"
	"verif.local/lib/xdrw"
)

// C01: file data read back through the server equals the data written.
// Oracle: per-file byte-array model; every READ/WRITE/SETATTR(size)/GETATTR
// reply and the backend bytes are compared with it after every request.

type vfC01File struct {
	name string
	fh   uint64
	data []byte
}

func vfOffClass(off uint64, size int, ts int) string {
	switch {
	case off == 0:
		return "0"
	case off >= 1<<63:
		return ">=2^63"
	case off > 1<<40:
		return "huge"
	case int(off) == size:
		return "eof"
	case int(off) > size:
		return "beyond"
	}
	return "interior"
}

func vfCountClass(n int, ts int) string {
	switch {
	case n == 0:
		return "0"
	case n < ts:
		return "<ts"
	case n == ts:
		return "=ts"
	}
	return ">ts"
}

func TestVerif_C01(t *testing.T) {
	rec := evid.New("C01")
	rec.Rule = "seeded episodes of WRITE/READ/SETATTR(size)/GETATTR/CREATE on 1-3 files; a case is one request; distinct = (op, offset class, count class, outcome, cache TTL, transfer size) tuples"
	defer rec.Write()
	vfC01ShortWrites(rec)
	episodes := evid.Pick(120, 4000)
	for ep := 0; ep < episodes && rec.Violations() < 20; ep++ {
		vfC01Episode(rec, ep)
	}
}

func vfC01Episode(rec *evid.Rec, ep int) {
	rng := evid.Rng(1, int64(ep))
	ttls := []time.Duration{time.Nanosecond, 5 * time.Second, time.Hour}
	tss := []int{512, 4096, 65536}
	ttl := ttls[rng.Intn(3)]
	ts := tss[rng.Intn(3)]
	const L = 256 << 10
	fs := refs.New()
	fs.MaxSize = L
	srv, err := vfNewSrv(fs, ExportOptions{AttrCacheTimeout: ttl, TransferSize: ts})
	if err != nil {
		rec.Violate("C01/harness/new", err.Error(), nil)
		return
	}
	defer srv.Close()
	c := srv.client()
	root, err := c.mnt("/")
	if err != nil {
		rec.Violate("C01/harness/mnt", err.Error(), nil)
		return
	}
	var ops []string
	cfg := fmt.Sprintf("ttl=%v ts=%d", ttl, ts)
	fail := func(sig, what string) {
		rec.Violate(sig, what+" ["+cfg+"]", map[string]any{"episode": ep, "config": cfg, "ops": append([]string(nil), ops...)})
	}
	var files []*vfC01File
	mk := func() bool {
		name := fmt.Sprintf("f%d", len(files))
		ops = append(ops, "CREATE "+name)
		r, err := c.create(root, name, 0, xdrw.Sattr3{}, [8]byte{})
		if err != nil || r == nil || r.Status != 0 || !r.FHPresent {
			fail("C01/create-fresh-failed", fmt.Sprintf("CREATE of fresh name failed: %v %+v", err, r))
			return false
		}
		files = append(files, &vfC01File{name: name, fh: vfFH(r.FH)})
		return true
	}
	if !mk() {
		return
	}
	checkBackend := func(f *vfC01File, proc string) bool {
		b, ok := fs.Bytes("/" + f.name)
		if !ok || !bytes.Equal(b, f.data) {
			fail("C01/backend-bytes-differ/after="+proc, fmt.Sprintf("backend bytes of %s differ from model after %s (len %d vs %d)", f.name, proc, len(b), len(f.data)))
			f.data = b // resync
			return false
		}
		return true
	}
	nops := 30 + rng.Intn(50)
	for i := 0; i < nops; i++ {
		f := files[rng.Intn(len(files))]
		size := len(f.data)
		switch k := rng.Intn(100); {
		case k < 38: // WRITE
			off := vfPickOff(rng, size, ts)
			n := vfPickCount(rng, ts)
			payload := make([]byte, n)
			for j := range payload {
				payload[j] = byte(i*31 + j*7 + 1)
			}
			stable := uint32(rng.Intn(3))
			// now and then the transfer size is lowered WHILE the request is being served (at its
			// first backend call): whatever the server then stores, the count it reports is what it stored
			shrinkTo := 0
			if n > 2 && rng.Intn(8) == 0 {
				shrinkTo = 1 + rng.Intn(n-1)
				var once sync.Once
				fs.SetHook(func(op *refs.Op, ph refs.Phase) error {
					if ph == refs.Before {
						once.Do(func() { srv.nfs.UpdateTuningOptions(func(t *TuningOptions) { t.TransferSize = shrinkTo }) })
					}
					return nil
				})
			}
			ops = append(ops, fmt.Sprintf("WRITE %s off=%d len=%d stable=%d (transfer size lowered to %d in mid-request)", f.name, off, n, stable, shrinkTo))
			rec.Eval(1)
			r, err := c.write(f.fh, off, stable, payload)
			if shrinkTo > 0 {
				fs.SetHook(nil)
				srv.nfs.UpdateTuningOptions(func(t *TuningOptions) { t.TransferSize = ts })
				rec.Add("writes_with_transfer_size_change_in_flight", 1)
			}
			if err != nil || r == nil {
				fail("C01/write-no-reply", fmt.Sprintf("%v", err))
				return
			}
			outcome := "err"
			if r.Status == 0 {
				outcome = "ok"
				cnt := int(r.Count)
				if cnt > n {
					fail("C01/write-count-exceeds-payload", fmt.Sprintf("count %d > payload %d", cnt, n))
					cnt = n
				}
				if off >= 1<<62 {
					fail("C01/write-ok-at-unrepresentable-offset", fmt.Sprintf("off=%d", off))
					return
				}
				end := int(off) + cnt
				if cnt > 0 {
					if end > len(f.data) {
						nd := make([]byte, end)
						copy(nd, f.data)
						f.data = nd
					}
					copy(f.data[off:], payload[:cnt])
				}
				if r.Wcc.Post.Present && r.Wcc.Post.A.Size != uint64(len(f.data)) {
					fail("C01/size-attr-mismatch/WRITE", fmt.Sprintf("post-op size %d, model %d", r.Wcc.Post.A.Size, len(f.data)))
				}
				if n > 0 && cnt == 0 {
					outcome = "ok-zero"
				}
			}
			checkBackend(f, "WRITE-"+outcome)
			rec.Distinct(fmt.Sprintf("WRITE|%s|%s|%s|%s", vfOffClass(off, size, ts), vfCountClass(n, ts), outcome, cfg))
		case k < 76: // READ
			off := vfPickOff(rng, size, ts)
			n := uint32(vfPickCount(rng, ts))
			if rng.Intn(20) == 0 {
				n = 0xffffffff
			}
			ops = append(ops, fmt.Sprintf("READ %s off=%d count=%d", f.name, off, n))
			rec.Eval(1)
			r, err := c.read(f.fh, off, n)
			if err != nil || r == nil {
				fail("C01/read-no-reply", fmt.Sprintf("%v", err))
				return
			}
			outcome := "err"
			if r.Status == 0 {
				outcome = "ok"
				rem := 0
				if off < uint64(size) {
					rem = size - int(off)
				}
				want := int(n)
				if n > uint32(ts) {
					want = ts
				}
				if want > rem {
					want = rem
				}
				if int(r.Count) != want {
					fail("C01/read-count", fmt.Sprintf("READ off=%d count=%d size=%d returned count %d, want %d", off, n, size, r.Count, want))
				} else if !bytes.Equal(r.Data, f.data[min64i(int(off), size):min64i(int(off), size)+want]) {
					fail("C01/read-data", fmt.Sprintf("READ off=%d count=%d returned wrong bytes", off, n))
				}
				wantEOF := off+uint64(r.Count) >= uint64(size)
				if r.EOF != wantEOF {
					fail("C01/read-eof", fmt.Sprintf("READ off=%d count=%d size=%d eof=%v want %v", off, r.Count, size, r.EOF, wantEOF))
				}
				if r.Obj.Present && r.Obj.A.Size != uint64(size) {
					fail("C01/size-attr-mismatch/READ", fmt.Sprintf("post-op size %d, model %d", r.Obj.A.Size, size))
				}
			} else if off <= 1<<62 {
				fail("C01/read-refused", fmt.Sprintf("READ off=%d count=%d size=%d status %d", off, n, size, r.Status))
			}
			rec.Distinct(fmt.Sprintf("READ|%s|%s|%s|%s", vfOffClass(off, size, ts), vfCountClass(int(n), ts), outcome, cfg))
		case k < 90: // SETATTR size
			var ns uint64
			switch rng.Intn(8) {
			case 0:
				ns = 0
			case 1:
				ns = uint64(size)
			case 2:
				ns = uint64(rng.Intn(size + 1))
			case 3:
				ns = uint64(size + 1 + rng.Intn(3*ts))
			case 4:
				ns = L + 1 + uint64(rng.Intn(100))
			case 5:
				ns = 1<<63 + uint64(rng.Intn(5))
			case 6:
				ns = L
			default:
				ns = uint64(rng.Intn(2*ts + 1))
			}
			// a quarter of them carry a guard (sattrguard3): the object's current ctime, or a stale one
			guard := "none"
			var gs, gn uint32
			if rng.Intn(4) == 0 {
				if g, _ := c.getattr(f.fh); g != nil && g.Status == 0 {
					gs, gn = g.Attr.Ctime[0], g.Attr.Ctime[1]
					guard = "current"
					if rng.Intn(2) == 0 {
						gs, guard = gs-1000, "stale"
					}
				}
			}
			ops = append(ops, fmt.Sprintf("SETATTR %s size=%d guard=%s", f.name, ns, guard))
			rec.Eval(1)
			var r *rfc.Res
			var err error
			if guard == "none" {
				r, err = c.setattr(f.fh, xdrw.Sattr3{Size: xdrw.U64p(ns)})
			} else {
				_, r, err = c.nfs(2, xdrw.ArgSetattr(f.fh, xdrw.Sattr3{Size: xdrw.U64p(ns)}, true, gs, gn))
			}
			if err != nil || r == nil {
				fail("C01/setattr-no-reply", fmt.Sprintf("%v", err))
				return
			}
			outcome := "err"
			if guard == "stale" {
				// the guard does not match: nothing may change, whatever the status says
				if r.Status == 0 {
					fail("C01/guarded-setattr-with-stale-ctime-succeeded", fmt.Sprintf("SETATTR size=%d with a guard ctime 1000 s in the past answered OK", ns))
				}
				outcome = "guard-refused"
			} else if r.Status == 0 {
				outcome = "ok"
				if ns > L {
					fail("C01/setattr-ok-beyond-backend-limit", fmt.Sprintf("size=%d", ns))
					return
				}
				nd := make([]byte, ns)
				copy(nd, f.data)
				f.data = nd
				if r.Wcc.Post.Present && r.Wcc.Post.A.Size != ns {
					fail("C01/size-attr-mismatch/SETATTR", fmt.Sprintf("post-op size %d, want %d", r.Wcc.Post.A.Size, ns))
				}
			} else if ns <= L && guard != "stale" {
				fail("C01/setattr-size-refused", fmt.Sprintf("SETATTR size=%d (limit %d) guard=%s status %d", ns, L, guard, r.Status))
			}
			checkBackend(f, "SETATTR-"+outcome)
			cls := "shrink"
			if ns > uint64(size) {
				cls = "grow"
			}
			if ns > L {
				cls = "over-limit"
			}
			rec.Distinct(fmt.Sprintf("SETATTR|%s|%s|guard=%s|%s", cls, outcome, guard, cfg))
		case k < 96: // GETATTR
			ops = append(ops, "GETATTR "+f.name)
			rec.Eval(1)
			r, err := c.getattr(f.fh)
			if err != nil || r == nil || r.Status != 0 {
				fail("C01/getattr-failed", fmt.Sprintf("%v %+v", err, r))
				return
			}
			if r.Attr.Size != uint64(size) {
				fail("C01/size-attr-mismatch/GETATTR", fmt.Sprintf("size %d, model %d", r.Attr.Size, size))
			}
			rec.Distinct("GETATTR|" + cfg)
		case k < 98: // CREATE again over the existing file: its data must survive unless a size is given
			how := uint32(rng.Intn(3))
			var sa xdrw.Sattr3
			// an explicit size in the initial attributes of an UNCHECKED CREATE sets the size of
			// the existing file: to zero, smaller, the same or larger (zero-filled)
			trunc := how != 2 && rng.Intn(2) == 0
			newSize := 0
			if trunc {
				switch rng.Intn(4) {
				case 1:
					newSize = len(f.data) / 2
				case 2:
					newSize = len(f.data)
				case 3:
					newSize = len(f.data) + 1 + rng.Intn(40)
				}
				sa.Size = xdrw.U64p(uint64(newSize))
			}
			ops = append(ops, fmt.Sprintf("CREATE %s again how=%d size=%v(%d)", f.name, how, trunc, newSize))
			rec.Eval(1)
			r, err := c.create(root, f.name, how, sa, [8]byte{byte(i)})
			if err != nil || r == nil {
				fail("C01/create-no-reply", fmt.Sprintf("%v", err))
				return
			}
			if r.Status == 0 && trunc && how == 0 {
				nd := make([]byte, newSize)
				copy(nd, f.data)
				f.data = nd
			}
			if r.Status == 0 && r.FHPresent {
				f.fh = vfFH(r.FH)
			}
			checkBackend(f, fmt.Sprintf("CREATE-again-how=%d", how))
			rec.Distinct(fmt.Sprintf("CREATE-again|how=%d|size=%v|st=%d|%s", how, trunc, r.Status, cfg))
		default: // CREATE another file, or re-look-up the handle
			if len(files) < 3 {
				rec.Eval(1)
				if !mk() {
					return
				}
				rec.Distinct("CREATE|fresh|" + cfg)
			} else {
				ops = append(ops, "LOOKUP "+f.name)
				rec.Eval(1)
				r, err := c.lookup(root, f.name)
				if err != nil || r == nil || r.Status != 0 {
					fail("C01/lookup-failed", fmt.Sprintf("%v %+v", err, r))
					return
				}
				f.fh = vfFH(r.FH)
				if r.Obj.Present && r.Obj.A.Size != uint64(size) {
					fail("C01/size-attr-mismatch/LOOKUP", fmt.Sprintf("size %d, model %d", r.Obj.A.Size, size))
				}
				rec.Distinct("LOOKUP|" + cfg)
			}
		}
	}
	if ep == 0 {
		rec.Sample(map[string]any{"config": cfg, "ops": ops})
	}
}

func min64i(a, b int) int {
	if a < b {
		return a
	}
	return b
}

func vfPickOff(rng *rand.Rand, size, ts int) uint64 {
	switch rng.Intn(12) {
	case 0, 1:
		return 0
	case 2, 3:
		if size > 0 {
			return uint64(rng.Intn(size))
		}
		return 0
	case 4:
		return uint64(size)
	case 5:
		return uint64(size + 1 + rng.Intn(ts+1))
	case 6:
		if size > ts {
			return uint64(size - ts + rng.Intn(3) - 1)
		}
		return uint64(rng.Intn(ts + 1))
	case 7:
		return 1<<63 - 1 - uint64(rng.Intn(4))
	case 8:
		return 1<<63 + uint64(rng.Intn(4))
	case 9:
		return ^uint64(0) - uint64(rng.Intn(4))
	default:
		return uint64(rng.Intn(size + ts + 1))
	}
}

func vfPickCount(rng *rand.Rand, ts int) int {
	switch rng.Intn(10) {
	case 0:
		return 0
	case 1:
		return 1
	case 2:
		return ts - 1
	case 3:
		return ts
	case 4:
		return ts + 1
	case 5:
		return ts + 1 + rng.Intn(ts)
	default:
		return 1 + rng.Intn(ts)
	}
}

// vfC01ShortWrites: a backend that takes only part of the buffer on one WriteAt (with and without an
// error of its own). Whatever the server does about it - report the short count, retry, or fail the
// request - an NFS3_OK reply with count n means exactly payload[:n] is in the file at the offset, and
// a READ afterwards returns the backend's bytes.
func vfC01ShortWrites(rec *evid.Rec) {
	for _, withErr := range []bool{false, true} {
		for _, taken := range []int{0, 1, 24, 63} {
			for _, ttl := range []time.Duration{1, time.Hour} {
				fs := refs.New()
				orig := bytes.Repeat([]byte("o"), 100)
				fs.PlantFile("/w", orig, 0666, 0, 0)
				srv, err := vfNewSrv(fs, ExportOptions{AttrCacheTimeout: ttl})
				if err != nil {
					rec.Infra(err.Error())
					return
				}
				c := srv.client()
				root, _ := c.mnt("/")
				l, _ := c.lookup(root, "w")
				if l == nil || l.Status != 0 {
					rec.Infra("lookup w")
					srv.Close()
					return
				}
				fh := vfFH(l.FH)
				payload := make([]byte, 64)
				for i := range payload {
					payload[i] = byte('A' + i%26)
				}
				var once sync.Once
				fs.SetHook(func(op *refs.Op, ph refs.Phase) error {
					var e error
					if ph == refs.Before && op.Name == "File.WriteAt" && op.Path == "/w" {
						once.Do(func() {
							sw := &refs.ShortWrite{N: taken}
							if withErr {
								sw.Err = io.ErrShortWrite
							}
							e = sw
						})
					}
					return e
				})
				w, _ := c.write(fh, 10, 2, payload)
				fs.SetHook(nil)
				rec.Eval(1)
				desc := map[string]any{"backend_took": taken, "backend_error": withErr, "ttl": ttl.String()}
				outcome := "no-reply"
				if w != nil {
					outcome = fmt.Sprintf("status=%d", w.Status)
					got, _ := fs.Bytes("/w")
					if w.Status == 0 {
						outcome = fmt.Sprintf("ok-count=%d", w.Count)
						model := append([]byte(nil), orig...)
						if int(w.Count) > len(payload) {
							rec.Violate("C01/write-count-exceeds-request/short-backend-write", fmt.Sprintf("count %d for a %d-byte WRITE", w.Count, len(payload)), desc)
						} else {
							copy(model[10:], payload[:w.Count])
							if !bytes.Equal(got, model) {
								rec.Violate("C01/backend-bytes-differ/after=WRITE-ok/backend-took-part-of-the-buffer", fmt.Sprintf("the backend's WriteAt took %d of 64 bytes (error from the backend: %v); the server answered NFS3_OK count=%d; bytes 10..74 of the file are %q, payload[:count] at the offset would be %q", taken, withErr, w.Count, got[10:74], model[10:74]), desc)
							}
						}
					}
					if r, _ := c.read(fh, 0, 200); r != nil && r.Status == 0 && !bytes.Equal(r.Data, got) {
						rec.Violate("C01/read-differs-from-backend/after-a-short-backend-write", fmt.Sprintf("READ returns %q, the backend holds %q", r.Data, got), desc)
					}
				}
				rec.Distinct(fmt.Sprintf("short-write|took=%d|err=%v|ttl=%v|%s", taken, withErr, ttl, outcome))
				srv.Close()
			}
		}
	}
}
