//go:build verif

package absnfs

import (
	"fmt"
	"io"
	"net"
	"runtime"
	"strings"
	"sync"
	"sync/atomic"
	"testing"
	"time"

	"verif.local/lib/evid"
	"verif.local/lib/refs"
	"verif.local/lib/rfc"
	"verif.local/lib/xdrw"
)

// C17: connections are bounded, accounted, reaped when idle, fully shut down.
// Oracle: client-side reply counting behind a barrier; the counters read under
// the server's own lock; goroutine dump filtered on absnfs frames; idle
// reaping decided without timers (lastActivity back-dated, cleanup pass
// invoked directly).

type vfTCPClient struct {
	c net.Conn
}

func vfDial(port int) (*vfTCPClient, error) {
	c, err := net.DialTimeout("tcp", fmt.Sprintf("127.0.0.1:%d", port), 10*time.Second)
	if err != nil {
		return nil, err
	}
	return &vfTCPClient{c: c}, nil
}

// null sends a NULL call and reports (answered, closedByServer, timedOut).
func (t *vfTCPClient) null(xid uint32, wait time.Duration) (bool, bool, bool) {
	t.c.SetDeadline(time.Now().Add(wait))
	if _, err := t.c.Write(xdrw.Record(xdrw.CallHeader(xid, vfProgNFS, 3, 0, xdrw.Cred{}))); err != nil {
		return false, true, false
	}
	var h [4]byte
	if _, err := io.ReadFull(t.c, h[:]); err != nil {
		if ne, ok := err.(net.Error); ok && ne.Timeout() {
			return false, false, true
		}
		return false, true, false
	}
	n := (uint32(h[0])<<24 | uint32(h[1])<<16 | uint32(h[2])<<8 | uint32(h[3])) & 0x7fffffff
	b := make([]byte, n)
	if _, err := io.ReadFull(t.c, b); err != nil {
		return false, true, false
	}
	rep, err := rfc.DecodeReply(b)
	return err == nil && rep.XID == xid, false, false
}

// nullDenied is null, reporting whether the reply was MSG_DENIED (what a refused request gets).
func (t *vfTCPClient) nullDenied(xid uint32, wait time.Duration) (denied, closed, timeout bool) {
	t.c.SetDeadline(time.Now().Add(wait))
	if _, err := t.c.Write(xdrw.Record(xdrw.CallHeader(xid, vfProgNFS, 3, 0, xdrw.Cred{}))); err != nil {
		return false, true, false
	}
	var h [4]byte
	if _, err := io.ReadFull(t.c, h[:]); err != nil {
		if ne, ok := err.(net.Error); ok && ne.Timeout() {
			return false, false, true
		}
		return false, true, false
	}
	n := (uint32(h[0])<<24 | uint32(h[1])<<16 | uint32(h[2])<<8 | uint32(h[3])) & 0x7fffffff
	b := make([]byte, n)
	if _, err := io.ReadFull(t.c, b); err != nil {
		return false, true, false
	}
	rep, err := rfc.DecodeReply(b)
	return err == nil && rep.Denied, false, false
}

func vfAbsnfsGoroutines(frames ...string) map[string]int {
	buf := make([]byte, 4<<20)
	buf = buf[:runtime.Stack(buf, true)]
	out := map[string]int{}
	for _, g := range strings.Split(string(buf), "\n\n") {
		for _, f := range frames {
			if strings.Contains(g, "absnfs.(*Server)."+f+"(") {
				out[f]++
			}
		}
	}
	return out
}

func TestVerif_C17(t *testing.T) {
	rec := evid.New("C17")
	rec.Rule = "loopback TCP servers with MaxConnections in {1,2,5,16}: storms of up to 4x max clients opening, sending, idling and closing in seeded orders (barriered), concurrent cleanup passes; idle reaping with back-dated activity; Stop (twice) with goroutine dump and port probe; Close/Unexport in all orders and repeated with live handles and populated caches; distinct = (scenario, max, outcome) tuples"
	defer rec.Write()
	eps := evid.Pick(24, 1200)
	for ep := 0; ep < eps && rec.Violations() < 20; ep++ {
		vfC17Storm(rec, ep)
	}
	for ep := 0; ep < evid.Pick(6, 200) && rec.Violations() < 25; ep++ {
		vfC17Idle(rec, ep)
		vfC17IdleThrottled(rec, ep)
	}
	for ep := 0; ep < evid.Pick(12, 300) && rec.Violations() < 30; ep++ {
		vfC17Lifecycle(rec, ep)
	}
	vfC17UnexportOwnServer(rec)
	for ep := 0; ep < evid.Pick(4, 100) && rec.Violations() < 30; ep++ {
		vfC17Refused(rec, ep)
		vfC17CloseInFlight(rec, ep)
	}
	for ep := 0; ep < evid.Pick(10, 300) && rec.Violations() < 30; ep++ {
		vfC17CloseUnderLoad(rec, ep)
	}
	for ep := 0; ep < evid.Pick(1, 6) && rec.Violations() < 30; ep++ {
		vfC17OverlappingStops(rec, ep)
	}
	for ep := 0; ep < evid.Pick(6, 42) && rec.Violations() < 30; ep++ {
		vfC17ApiCallAcrossShutdown(rec, ep)
	}
	for ep := 0; ep < evid.Pick(1, 6) && rec.Violations() < 30; ep++ {
		vfC17IdleAfterReconfiguration(rec, ep)
	}
	// every server of this run has been stopped: no accept / connection / cleanup goroutine may remain
	left := vfAbsnfsGoroutines("acceptLoop", "handleConnectionLoop", "idleConnectionCleanupLoop")
	if len(left) > 0 {
		rec.Violate("C17/goroutines-remain-after-all-servers-stopped", fmt.Sprint(left), nil)
	}
}

func vfC17Server(rec *evid.Rec, max int, idle time.Duration) (*vfSrv, int) {
	fs := refs.New()
	fs.PlantFile("/f", []byte("x"), 0644, 0, 0)
	srv, err := vfNewSrv(fs, ExportOptions{AttrCacheTimeout: 5 * time.Second, EnableDirCache: true, MaxConnections: max, IdleTimeout: idle})
	if err != nil {
		rec.Infra(err.Error())
		return nil, 0
	}
	if err := srv.srv.Listen(); err != nil {
		rec.Infra(err.Error())
		return nil, 0
	}
	return srv, srv.srv.GetPort()
}

func vfCheckCounters(rec *evid.Rec, srv *vfSrv, max int, where string) {
	cnt, tracked := vfConnCounts(srv.srv)
	if cnt != tracked || cnt < 0 {
		rec.Violate("C17/connection-counter-disagrees-with-tracked-set", fmt.Sprintf("%s: connCount=%d len(activeConns)=%d", where, cnt, tracked), nil)
	}
	if cnt > max {
		rec.Violate("C17/more-connections-counted-than-allowed", fmt.Sprintf("%s: connCount=%d MaxConnections=%d", where, cnt, max), nil)
	}
}

func vfC17Storm(rec *evid.Rec, ep int) {
	rng := evid.Rng(17, int64(ep))
	max := []int{1, 2, 5, 16}[ep%4]
	srv, port := vfC17Server(rec, max, time.Hour)
	if srv == nil {
		return
	}
	evid.Journal(fmt.Sprintf("storm ep=%d max=%d", ep, max))
	n := max + 1 + rng.Intn(3*max)
	res := make([]atomic.Int32, n) // 0 pending, 1 answered, 2 closed, 3 timed out
	clients := make([]*vfTCPClient, n)
	var wg sync.WaitGroup
	var cmu sync.Mutex
	barrier := make(chan struct{})
	stopSampler := make(chan struct{})
	go func() { // concurrent counter sampling and cleanup passes
		for {
			select {
			case <-stopSampler:
				return
			default:
				vfCheckCounters(rec, srv, max, "during storm")
				srv.srv.cleanupIdleConnections()
				runtime.Gosched()
			}
		}
	}()
	for i := 0; i < n; i++ {
		wg.Add(1)
		go func(i int) {
			defer wg.Done()
			c, err := vfDial(port)
			if err != nil {
				res[i].Store(2)
				return
			}
			cmu.Lock()
			clients[i] = c
			cmu.Unlock()
			a, _, to := c.null(uint32(100+i), 20*time.Second)
			switch {
			case a:
				res[i].Store(1)
			case to:
				res[i].Store(3)
			default:
				res[i].Store(2)
			}
			<-barrier // hold the connection open until everybody has an answer
		}(i)
	}
	// wait until every client has either an answer or a close
	deadline := time.Now().Add(40 * time.Second)
	for time.Now().Before(deadline) {
		done := 0
		for i := range res {
			if res[i].Load() != 0 {
				done++
			}
		}
		if done == n {
			break
		}
		time.Sleep(time.Millisecond)
	}
	answered, timeouts := 0, 0
	for i := range res {
		if res[i].Load() == 1 {
			answered++
		}
		if res[i].Load() == 3 {
			timeouts++
		}
	}
	vfCheckCounters(rec, srv, max, "all clients holding")
	if answered > max {
		rec.Violate("C17/more-connections-served-than-MaxConnections", fmt.Sprintf("%d connections answered while all were held open, MaxConnections=%d", answered, max), nil)
	}
	if timeouts > 0 {
		rec.Inconclusive(1)
	} else if answered < max {
		rec.Violate("C17/fewer-connections-served-than-MaxConnections", fmt.Sprintf("%d of %d clients answered, MaxConnections=%d", answered, n, max), nil)
	}
	close(barrier)
	wg.Wait()
	// clients leave in a seeded order
	for _, i := range rng.Perm(n) {
		if clients[i] != nil {
			clients[i].c.Close()
		}
	}
	for d := time.Now().Add(20 * time.Second); time.Now().Before(d); {
		if c, _ := vfConnCounts(srv.srv); c == 0 {
			break
		}
		time.Sleep(time.Millisecond)
	}
	close(stopSampler)
	if c, tr := vfConnCounts(srv.srv); c != 0 || tr != 0 {
		rec.Violate("C17/connections-still-counted-after-all-clients-left", fmt.Sprintf("connCount=%d tracked=%d", c, tr), nil)
	}
	// a new client is served again
	if c, err := vfDial(port); err == nil {
		if a, _, to := c.null(999, 20*time.Second); !a && !to {
			rec.Violate("C17/server-refuses-connections-after-storm", "", nil)
		}
		c.c.Close()
	}
	if err := srv.srv.Stop(); err != nil {
		rec.Violate("C17/stop-returned-error", err.Error(), nil)
	}
	srv.Close()
	rec.Eval(n)
	rec.Distinct(fmt.Sprintf("storm|max=%d|clients/max=%d|answered=max:%v", max, n/max, answered == max))
	if ep == 0 {
		rec.Sample(map[string]any{"scenario": "storm", "max": max, "clients": n, "answered": answered})
	}
}

func vfC17Idle(rec *evid.Rec, ep int) {
	rng := evid.Rng(1717, int64(ep))
	srv, port := vfC17Server(rec, 16, time.Hour)
	if srv == nil {
		return
	}
	defer func() { srv.srv.Stop(); srv.Close() }()
	n := 3 + rng.Intn(6)
	cls := make([]*vfTCPClient, n)
	local := map[string]int{}
	for i := range cls {
		c, err := vfDial(port)
		if err != nil {
			rec.Inconclusive(1)
			return
		}
		if a, _, _ := c.null(uint32(i+1), 20*time.Second); !a {
			rec.Inconclusive(1)
			return
		}
		cls[i] = c
		local[c.c.LocalAddr().String()] = i
	}
	old := map[int]bool{}
	for i := range cls {
		if rng.Intn(2) == 0 {
			old[i] = true
		}
	}
	vfBackdateConns(srv.srv, 2*time.Hour, func(c net.Conn) bool {
		i, ok := local[c.RemoteAddr().String()]
		return ok && old[i]
	})
	srv.srv.cleanupIdleConnections()
	// The server notes a connection's activity after it has written the reply, so the note for the
	// NULL above may land after the back-dating: such a connection is not idle by the server's own
	// record and proves nothing. Only connections still tracked with a record older than the idle
	// timeout right after the pass are survivors.
	stillIdle := vfIdleByRecord(srv.srv, time.Hour)
	for i, c := range cls {
		a, closed, to := c.null(uint32(100+i), 20*time.Second)
		if to {
			rec.Inconclusive(1)
			continue
		}
		if old[i] && a && !stillIdle[c.c.LocalAddr().String()] {
			rec.Add("idle_backdating_overtaken_by_a_late_activity_note", 1)
		}
		if old[i] && a && stillIdle[c.c.LocalAddr().String()] {
			rec.Violate("C17/idle-connection-survived-cleanup", "a connection idle for 2h by the server's own record (IdleTimeout 1h) is still tracked and still answers after a cleanup pass", nil)
		}
		if !old[i] && closed {
			rec.Violate("C17/active-connection-closed-by-cleanup", "a connection active just now (IdleTimeout 1h) was closed by a cleanup pass", nil)
		}
		c.c.Close()
	}
	vfCheckCounters(rec, srv, 16, "after idle cleanup")
	rec.Eval(n)
	rec.Distinct(fmt.Sprintf("idle|conns=%d|old=%d", n, len(old)))
}

func vfC17Lifecycle(rec *evid.Rec, ep int) {
	rng := evid.Rng(171717, int64(ep))
	fs := refs.New()
	for i := 0; i < 5; i++ {
		fs.PlantFile(fmt.Sprintf("/f%d", i), []byte("x"), 0644, 0, 0)
	}
	fs.PlantDir("/d", 0755, 0, 0)
	n, err := New(fs, ExportOptions{AttrCacheTimeout: time.Hour, EnableDirCache: true, CacheNegativeLookups: true})
	if err != nil {
		rec.Infra(err.Error())
		return
	}
	vfQuiet(n)
	if err := n.Export("/", 0); err != nil {
		rec.Infra(err.Error())
		return
	}
	n.exportServer.logger.SetOutput(io.Discard)
	port := n.exportServer.GetPort()
	// populate handles and caches through the handler
	s := &vfSrv{fs: fs, bfs: fs, nfs: n, srv: n.exportServer, ph: &NFSProcedureHandler{server: n.exportServer}}
	c := s.client()
	root, err := c.mnt("/")
	if err != nil {
		rec.Infra(err.Error())
		return
	}
	for i := 0; i < 5; i++ {
		c.lookup(root, fmt.Sprintf("f%d", i))
	}
	c.lookup(root, "absent")
	c.readdirplus(root, 0, 8192, 32768)
	// a raw-mode connection held open during the shutdown
	held, _ := net.DialTimeout("tcp", fmt.Sprintf("127.0.0.1:%d", port), 10*time.Second)
	if n.fileMap.Count() == 0 || n.attrCache.Size() == 0 {
		rec.Infra("lifecycle setup did not populate handles/caches")
		return
	}
	seqs := [][]string{{"Close"}, {"Unexport"}, {"Close", "Close"}, {"Unexport", "Unexport"}, {"Close", "Unexport"}, {"Unexport", "Close"}, {"Unexport", "Close", "Close", "Unexport"}}
	seq := seqs[ep%len(seqs)]
	srvRef := n.exportServer
	evid.Journal(fmt.Sprintf("lifecycle %v", seq))
	for i, step := range seq {
		func() {
			defer func() {
				if r := recover(); r != nil {
					rec.Violate("C17/panic-on-repeated-shutdown/"+strings.Join(seq[:i+1], "-"), fmt.Sprint(r), nil)
				}
			}()
			var err error
			if step == "Close" {
				err = n.Close()
			} else {
				err = n.Unexport()
			}
			if err != nil {
				rec.Violate("C17/error-from-shutdown-call/"+strings.Join(seq[:i+1], "-"), err.Error(), nil)
			}
		}()
		if h, a, d := n.fileMap.Count(), n.attrCache.Size(), n.dirCache.Size(); h != 0 || a != 0 || d != 0 {
			rec.Violate("C17/state-left-after-"+step, fmt.Sprintf("handles=%d attr-cache=%d dir-cache=%d after %v", h, a, d, seq[:i+1]), nil)
		}
	}
	// the exported server is gone: counters zero, port closed, no reply
	if cnt, tr := vfConnCounts(srvRef); cnt != 0 || tr != 0 {
		rec.Violate("C17/connections-counted-after-shutdown", fmt.Sprintf("connCount=%d tracked=%d", cnt, tr), nil)
	}
	if conn, err := net.DialTimeout("tcp", fmt.Sprintf("127.0.0.1:%d", port), 2*time.Second); err == nil {
		conn.SetDeadline(time.Now().Add(5 * time.Second))
		conn.Write(xdrw.CallHeader(5, vfProgNFS, 3, 0, xdrw.Cred{}))
		var b [4]byte
		if _, err := io.ReadFull(conn, b[:]); err == nil {
			rec.Violate("C17/request-answered-after-shutdown", fmt.Sprintf("%v", seq), nil)
		}
		conn.Close()
	}
	if held != nil {
		held.SetDeadline(time.Now().Add(5 * time.Second))
		held.Write(xdrw.CallHeader(6, vfProgNFS, 3, 0, xdrw.Cred{}))
		var b [4]byte
		if _, err := io.ReadFull(held, b[:]); err == nil {
			rec.Violate("C17/held-connection-answered-after-shutdown", fmt.Sprintf("%v", seq), nil)
		}
		held.Close()
	}
	_ = rng
	rec.Eval(len(seq))
	rec.Distinct("lifecycle|" + strings.Join(seq, "-"))
}

// vfC17Refused: connections turned away by the address filter are not served and must
// not stay counted; allowed clients still get every slot.
func vfC17Refused(rec *evid.Rec, ep int) {
	max := 2 + ep%3
	fs := refs.New()
	srv, err := vfNewSrv(fs, ExportOptions{MaxConnections: max, IdleTimeout: time.Hour, AllowedIPs: []string{"127.0.0.2"}})
	if err != nil {
		rec.Infra(err.Error())
		return
	}
	if err := srv.srv.Listen(); err != nil {
		rec.Infra(err.Error())
		return
	}
	defer func() { srv.srv.Stop(); srv.Close() }()
	port := srv.srv.GetPort()
	dial := func(src string) *vfTCPClient {
		d := net.Dialer{LocalAddr: &net.TCPAddr{IP: net.ParseIP(src)}, Timeout: 10 * time.Second}
		c, err := d.Dial("tcp", fmt.Sprintf("127.0.0.1:%d", port))
		if err != nil {
			return nil
		}
		return &vfTCPClient{c: c}
	}
	// more refused connections than there are slots
	for i := 0; i < max+2; i++ {
		if c := dial("127.0.0.1"); c != nil {
			if a, _, to := c.null(uint32(i+1), 10*time.Second); a && !to {
				rec.Violate("C17/refused-address-was-served", "", nil)
			}
			c.c.Close()
		}
	}
	for d := time.Now().Add(10 * time.Second); time.Now().Before(d); {
		if c, _ := vfConnCounts(srv.srv); c == 0 {
			break
		}
		time.Sleep(time.Millisecond)
	}
	if c, tr := vfConnCounts(srv.srv); c != 0 || tr != 0 {
		rec.Violate("C17/refused-connections-stay-counted", fmt.Sprintf("after %d connections refused by AllowedIPs and closed: connCount=%d tracked=%d", max+2, c, tr), nil)
	}
	// every slot is still available to allowed clients
	var held []*vfTCPClient
	answered := 0
	for i := 0; i < max; i++ {
		if c := dial("127.0.0.2"); c != nil {
			held = append(held, c)
			if a, _, _ := c.null(uint32(100+i), 20*time.Second); a {
				answered++
			}
		}
	}
	if answered < max {
		rec.Violate("C17/allowed-clients-refused-after-refused-connections", fmt.Sprintf("%d of %d allowed clients served (MaxConnections=%d)", answered, max, max), nil)
	}
	for _, c := range held {
		c.c.Close()
	}
	rec.Eval(2*max + 2)
	rec.Distinct(fmt.Sprintf("refused-by-address|max=%d|allowed-served=%d", max, answered))
}

// vfC17CloseInFlight: Close()/Unexport() while a request is still being served. After the
// call returns nothing may be left: no handle, no cache entry.
func vfC17CloseInFlight(rec *evid.Rec, ep int) {
	how := []string{"Close", "Unexport"}[ep%2]
	fs := refs.New()
	fs.PlantFile("/target", []byte("x"), 0644, 0, 0)
	n, err := New(fs, ExportOptions{AttrCacheTimeout: time.Hour, EnableDirCache: true})
	if err != nil {
		rec.Infra(err.Error())
		return
	}
	vfQuiet(n)
	if err := n.Export("/", 0); err != nil {
		rec.Infra(err.Error())
		return
	}
	n.exportServer.logger.SetOutput(io.Discard)
	exp := n.exportServer
	port := exp.GetPort()
	conn, err := vfDialRM(port)
	if err != nil {
		rec.Inconclusive(1)
		n.Close()
		return
	}
	defer conn.c.Close()
	raw, closed, err := conn.call(vfProgMount, 1, (&xdrw.W{}).Str("/").B)
	if err != nil || closed {
		rec.Inconclusive(1)
		n.Close()
		return
	}
	rep, _ := rfc.DecodeReply(raw)
	m, _ := rfc.DecodeMount(1, rep.Body)
	root := vfFH(m.FH)
	parked, open := make(chan struct{}), make(chan struct{})
	var once sync.Once
	fs.SetHook(func(op *refs.Op, ph refs.Phase) error {
		if ph == refs.Before && op.Name == "Lstat" && op.Path == "/target" {
			first := false
			once.Do(func() { first = true })
			if first {
				close(parked)
				<-open
			}
		}
		return nil
	})
	go conn.call(vfProgNFS, 3, xdrw.ArgDirop(root, "target")) // LOOKUP, parked inside the backend
	select {
	case <-parked:
	case <-time.After(20 * time.Second):
		rec.Inconclusive(1)
		close(open)
		n.Close()
		return
	}
	done := make(chan struct{})
	go func() {
		defer close(done)
		if how == "Close" {
			n.Close()
		} else {
			n.Unexport()
		}
	}()
	// release the request once the shutdown is under way
	select {
	case <-exp.ctx.Done():
	case <-time.After(10 * time.Second):
	}
	for y := 0; y < 100; y++ {
		runtime.Gosched()
	}
	close(open)
	select {
	case <-done:
	case <-time.After(30 * time.Second):
		rec.Inconclusive(1)
		return
	}
	// let a request goroutine that outlives the shutdown call finish its bookkeeping
	for d := time.Now().Add(3 * time.Second); time.Now().Before(d); {
		if n.policyRWMu.TryLock() {
			n.policyRWMu.Unlock()
			break
		}
		runtime.Gosched()
	}
	rec.Eval(1)
	if h, a, d := n.fileMap.Count(), n.attrCache.Size(), n.dirCache.Size(); h != 0 || a != 0 || d != 0 {
		rec.Violate("C17/state-left-after-"+how+"-with-request-in-flight", fmt.Sprintf("a LOOKUP was being served when %s() was called; after it returned: handles=%d attr-cache=%d dir-cache=%d", how, h, a, d), nil)
	}
	rec.Distinct("shutdown-with-request-in-flight|" + how)
	if how == "Unexport" {
		n.Close()
	}
}

// vfC17CloseUnderLoad: several connections keep looking up fresh names (each reply allocates a
// handle and fills the attribute cache; the backend is slowed a little so that requests are in
// flight at any moment) while Close / Unexport runs. Whatever the interleaving, once the call has
// returned and every client has been hung up on, no handle and no cache entry may be left: a
// request may not be served after the handles were released.
func vfC17CloseUnderLoad(rec *evid.Rec, ep int) {
	how := []string{"Close", "Unexport"}[ep%2]
	rng := evid.Rng(1717, int64(ep))
	fs := refs.New()
	const nfiles = 240
	for i := 0; i < nfiles; i++ {
		fs.PlantFile(fmt.Sprintf("/h%03d", i), []byte("x"), 0644, 0, 0)
	}
	n, err := New(fs, ExportOptions{AttrCacheTimeout: time.Hour, EnableDirCache: true, MaxWorkers: 1 + rng.Intn(4)})
	if err != nil {
		rec.Infra(err.Error())
		return
	}
	vfQuiet(n)
	if err := n.Export("/", 0); err != nil {
		rec.Infra(err.Error())
		return
	}
	n.exportServer.logger.SetOutput(io.Discard)
	port := n.exportServer.GetPort()
	var hc atomic.Int64
	slow := time.Duration(50+rng.Intn(400)) * time.Microsecond
	fs.SetHook(func(op *refs.Op, ph refs.Phase) error {
		if ph == refs.Before && op.Name == "Lstat" && strings.HasPrefix(op.Path, "/h") {
			if hc.Add(1)%3 != 0 {
				time.Sleep(slow)
			} else {
				runtime.Gosched()
			}
		}
		return nil
	})
	nclients := 3 + rng.Intn(6)
	var replies atomic.Int64
	var maxLatency atomic.Int64
	var wg sync.WaitGroup
	setup := make(chan bool, nclients)
	for k := 0; k < nclients; k++ {
		wg.Add(1)
		go func(k int) {
			defer wg.Done()
			conn, err := vfDialRM(port)
			if err != nil {
				setup <- false
				return
			}
			defer conn.c.Close()
			raw, closed, err := conn.call(vfProgMount, 1, (&xdrw.W{}).Str("/").B)
			if err != nil || closed {
				setup <- false
				return
			}
			rep, derr := rfc.DecodeReply(raw)
			if derr != nil {
				setup <- false
				return
			}
			m, _ := rfc.DecodeMount(1, rep.Body)
			if m == nil {
				setup <- false
				return
			}
			root := vfFH(m.FH)
			setup <- true
			for i := 0; ; i++ {
				t0 := time.Now()
				_, closed, err := conn.call(vfProgNFS, 3, xdrw.ArgDirop(root, fmt.Sprintf("h%03d", (k*40+i)%nfiles)))
				if d := int64(time.Since(t0)); d > maxLatency.Load() {
					maxLatency.Store(d)
				}
				if err != nil || closed {
					return
				}
				replies.Add(1)
			}
		}(k)
	}
	okc := 0
	for k := 0; k < nclients; k++ {
		if <-setup {
			okc++
		}
	}
	// wait (bounded) until the load is really running
	for d := time.Now().Add(20 * time.Second); replies.Load() < int64(10*okc) && time.Now().Before(d); {
		runtime.Gosched()
	}
	if okc == 0 || replies.Load() < int64(10*okc) {
		rec.Inconclusive(1)
		n.Close()
		wg.Wait()
		return
	}
	for y := rng.Intn(200); y > 0; y-- {
		runtime.Gosched()
	}
	done := make(chan struct{})
	go func() {
		defer close(done)
		if how == "Close" {
			n.Close()
		} else {
			n.Unexport()
		}
	}()
	select {
	case <-done:
	case <-time.After(40 * time.Second):
		rec.Inconclusive(1)
		return
	}
	cdone := make(chan struct{})
	go func() { wg.Wait(); close(cdone) }()
	select {
	case <-cdone:
	case <-time.After(40 * time.Second):
		rec.Violate("C17/connection-still-served-after-"+how, fmt.Sprintf("%d s after %s() returned a client connection is still open and answered", 40, how), nil)
		return
	}
	// let a request goroutine that outlives the shutdown call finish its bookkeeping
	for d := time.Now().Add(3 * time.Second); time.Now().Before(d); {
		if n.policyRWMu.TryLock() {
			n.policyRWMu.Unlock()
			break
		}
		runtime.Gosched()
	}
	rec.Eval(int(replies.Load()))
	if time.Duration(maxLatency.Load()) > 2*time.Second {
		// Stop gives connection goroutines 5 s: on a machine this slow the outcome says nothing
		rec.Inconclusive(1)
	} else if h, a, d := n.fileMap.Count(), n.attrCache.Size(), n.dirCache.Size(); h != 0 || a != 0 || d != 0 {
		rec.Violate("C17/state-left-after-"+how+"-under-load", fmt.Sprintf("%d connections were looking up fresh names while %s() ran (%d replies in all); after it returned and every connection was closed: handles=%d attr-cache=%d dir-cache=%d", okc, how, replies.Load(), h, a, d), map[string]any{"episode": ep, "clients": okc})
	}
	rec.Distinct(fmt.Sprintf("shutdown-under-load|%s|clients=%d", how, okc))
	if how == "Unexport" {
		n.Close()
	}
}

// vfC17OverlappingStops: "after Server.Stop returns, no connection is served and no connection
// goroutine remains" holds for EVERY call of Stop that reports success - also for a second call that
// overlaps the first, or follows one that gave up. A request is parked inside the backend, so its
// connection goroutine provably still exists while the gate is closed: a Stop that returns nil
// during that time has returned too early. (A Stop that reports an error claims nothing.)
func vfC17OverlappingStops(rec *evid.Rec, ep int) {
	fs := refs.New()
	fs.PlantFile("/slow", []byte("x"), 0644, 0, 0)
	srv, err := vfNewSrv(fs, ExportOptions{AttrCacheTimeout: 1})
	if err != nil {
		rec.Infra(err.Error())
		return
	}
	defer srv.Close()
	if err := srv.srv.Listen(); err != nil {
		rec.Inconclusive(1)
		return
	}
	port := srv.srv.GetPort()
	conn, err := vfDialRM(port)
	if err != nil {
		rec.Inconclusive(1)
		srv.srv.Stop()
		return
	}
	defer conn.c.Close()
	raw, closed, err := conn.call(vfProgMount, 1, (&xdrw.W{}).Str("/").B)
	if err != nil || closed {
		rec.Inconclusive(1)
		srv.srv.Stop()
		return
	}
	rep, _ := rfc.DecodeReply(raw)
	m, _ := rfc.DecodeMount(1, rep.Body)
	root := vfFH(m.FH)
	parked, open := make(chan struct{}), make(chan struct{})
	var gateOpen atomic.Bool
	var once sync.Once
	fs.SetHook(func(op *refs.Op, ph refs.Phase) error {
		if ph == refs.Before && op.Name == "Lstat" && op.Path == "/slow" {
			first := false
			once.Do(func() { first = true })
			if first {
				close(parked)
				<-open
			}
		}
		return nil
	})
	go conn.call(vfProgNFS, 3, xdrw.ArgDirop(root, "slow")) // LOOKUP, parked inside the backend
	select {
	case <-parked:
	case <-time.After(20 * time.Second):
		rec.Inconclusive(1)
		gateOpen.Store(true)
		close(open)
		srv.srv.Stop()
		return
	}
	type res struct {
		which     string
		err       error
		whileOpen bool
	}
	out := make(chan res, 3)
	stop := func(which string) {
		err := srv.srv.Stop()
		out <- res{which, err, gateOpen.Load()}
	}
	go stop("first")
	// the second call starts once the first is under way (the server's context is cancelled)
	select {
	case <-srv.srv.ctx.Done():
	case <-time.After(10 * time.Second):
	}
	go stop("second-overlapping")
	var got []res
	for len(got) < 2 {
		select {
		case r := <-out:
			got = append(got, r)
		case <-time.After(30 * time.Second):
			rec.Inconclusive(1)
			gateOpen.Store(true)
			close(open)
			return
		}
	}
	// a third call after the first two have given up or returned, the request still parked
	go stop("third-after-the-others")
	select {
	case r := <-out:
		got = append(got, r)
	case <-time.After(30 * time.Second):
		rec.Inconclusive(1)
	}
	for _, r := range got {
		rec.Eval(1)
		if r.err == nil && !r.whileOpen {
			rec.Violate("C17/stop-returned-success-while-a-connection-goroutine-remains/call="+r.which, fmt.Sprintf("Stop (%s call) returned nil while a request of an accepted connection was still inside the backend: its connection goroutine still exists", r.which), nil)
		}
		rec.Distinct(fmt.Sprintf("overlapping-stops|%s|nil=%v", r.which, r.err == nil))
	}
	gateOpen.Store(true)
	close(open)
	// now everything can finish; a final Stop must succeed
	if err := srv.srv.Stop(); err != nil {
		time.Sleep(200 * time.Millisecond)
		if err := srv.srv.Stop(); err != nil {
			rec.Inconclusive(1)
		}
	}
}

// vfC17ApiCallAcrossShutdown: the library's own exported operations (Lookup, GetAttr, ReadDir) may be
// in progress - inside a slow backend call - when Close / Unexport runs; they are not connections, so
// nothing waits for them. Whatever they bring back afterwards, the caches the shutdown emptied stay
// empty: a result obtained before the shutdown is not stored after it.
func vfC17ApiCallAcrossShutdown(rec *evid.Rec, ep int) {
	how := []string{"Close", "Unexport"}[ep%2]
	op := []string{"Lookup", "GetAttr", "ReadDir"}[(ep/2)%3]
	fs := refs.New()
	fs.PlantDir("/d", 0755, 0, 0)
	fs.PlantFile("/d/slow", []byte("x"), 0644, 0, 0)
	n, err := New(fs, ExportOptions{AttrCacheTimeout: time.Hour, EnableDirCache: true, DirCacheTimeout: time.Hour})
	if err != nil {
		rec.Infra(err.Error())
		return
	}
	vfQuiet(n)
	if err := n.Export("/", 0); err != nil {
		rec.Infra(err.Error())
		return
	}
	n.exportServer.logger.SetOutput(io.Discard)
	dnode, derr := n.Lookup("/d")
	fnode, ferr := n.Lookup("/d/slow")
	if derr != nil || ferr != nil {
		rec.Infra("lookup")
		n.Close()
		return
	}
	n.attrCache.Clear()
	n.dirCache.Clear()
	parked, open := make(chan struct{}), make(chan struct{})
	var once sync.Once
	fs.SetHook(func(o *refs.Op, ph refs.Phase) error {
		if ph == refs.After && (o.Name == "Lstat" && o.Path == "/d/slow" || o.Name == "File.Readdir" && o.Path == "/d") {
			first := false
			once.Do(func() { first = true })
			if first {
				close(parked)
				<-open
			}
		}
		return nil
	})
	apiDone := make(chan struct{})
	go func() {
		defer close(apiDone)
		defer func() { recover() }()
		switch op {
		case "Lookup":
			n.Lookup("/d/slow")
		case "GetAttr":
			n.GetAttr(fnode)
		default:
			n.ReadDir(dnode)
		}
	}()
	select {
	case <-parked:
	case <-time.After(20 * time.Second):
		rec.Inconclusive(1)
		close(open)
		n.Close()
		return
	}
	if how == "Close" {
		n.Close()
	} else {
		n.Unexport()
	}
	close(open) // the backend answers only now, after the shutdown call has returned
	select {
	case <-apiDone:
	case <-time.After(30 * time.Second):
		rec.Inconclusive(1)
		return
	}
	fs.SetHook(nil)
	rec.Eval(1)
	a, d := n.attrCache.Size(), n.dirCache.Size()
	if op == "ReadDir" {
		// ReadDir goes on to look every entry up AFTER its (parked) directory read: those are new
		// backend reads made after the shutdown call, which any call made after Close would cache as
		// well. What was read BEFORE the shutdown is the listing: it is the directory cache that
		// must not receive it. (Judging the attribute cache here was a false alarm, see DESIGN 6.)
		a = 0
	}
	if a != 0 || d != 0 {
		rec.Violate("C17/caches-refilled-after-"+how+"-by-a-call-that-started-before-it/op="+op, fmt.Sprintf("%s(...) had read the backend before %s() and finished after it: attr-cache=%d dir-cache=%d entries afterwards", op, how, a, d), nil)
	}
	rec.Distinct(fmt.Sprintf("api-call-across-shutdown|%s|%s", how, op))
	if how == "Unexport" {
		n.Close()
	}
}

// vfC17IdleAfterReconfiguration: idle reaping through the server's own timer loop after IdleTimeout
// was raised and lowered again at runtime. Timers are involved, so the verdict is RELATIVE: a control
// server with the same final IdleTimeout that was never reconfigured runs in the same process under
// the same load. Both get an idle connection at the same moment. If the control's connection is
// reaped after tc, the reconfigured server's connection must be reaped too by 3 x tc + 15 s (its
// reaper was seen working at the short interval before the detour); if the control itself is not
// reaped within 60 s, or the bound would reach the connection loop's own 30 s read deadline, the
// episode is inconclusive.
func vfC17IdleAfterReconfiguration(rec *evid.Rec, ep int) {
	final := []time.Duration{200 * time.Millisecond, 400 * time.Millisecond}[ep%2]
	detour := []time.Duration{time.Hour, 10 * time.Minute, 3 * time.Minute}[ep%3]
	mk := func() (*vfSrv, int) {
		fs := refs.New()
		srv, err := vfNewSrv(fs, ExportOptions{AttrCacheTimeout: 1, IdleTimeout: final})
		if err != nil {
			return nil, 0
		}
		if err := srv.srv.Listen(); err != nil {
			srv.Close()
			return nil, 0
		}
		return srv, srv.srv.GetPort()
	}
	control, cport := mk()
	recon, rport := mk()
	if control == nil || recon == nil {
		rec.Inconclusive(1)
		return
	}
	defer func() { control.srv.Stop(); control.Close(); recon.srv.Stop(); recon.Close() }()
	// First see the reconfigured server's reaper at work with the initial setting: a throw-away idle
	// connection must be reaped (a loop that only starts after the raise would legitimately begin
	// with its longest interval, one minute - that is not what is being examined here).
	if pre, err := vfDialRM(rport); err == nil {
		pre.call(vfProgNFS, 0, nil)
		t0 := time.Now()
		gone := false
		buf := make([]byte, 1)
		for time.Since(t0) < 20*time.Second {
			pre.c.SetReadDeadline(time.Now().Add(50 * time.Millisecond))
			if _, err := pre.c.Read(buf); err != nil {
				if ne, ok := err.(net.Error); !ok || !ne.Timeout() {
					gone = true
					break
				}
			}
		}
		pre.c.Close()
		if !gone {
			rec.Inconclusive(1)
			return
		}
	} else {
		rec.Inconclusive(1)
		return
	}
	// the detour: raise, let the loop tick a few times, lower again
	recon.nfs.UpdateTuningOptions(func(t *TuningOptions) { t.IdleTimeout = detour })
	time.Sleep(3 * final)
	recon.nfs.UpdateTuningOptions(func(t *TuningOptions) { t.IdleTimeout = final })
	time.Sleep(2 * final)
	cc, err1 := vfDialRM(cport)
	rc, err2 := vfDialRM(rport)
	if err1 != nil || err2 != nil {
		rec.Inconclusive(1)
		return
	}
	defer cc.c.Close()
	defer rc.c.Close()
	// one request each, then silence
	cc.call(vfProgNFS, 0, nil)
	rc.call(vfProgNFS, 0, nil)
	t0 := time.Now()
	closedAt := func(c net.Conn, limit time.Duration) (time.Duration, bool) {
		buf := make([]byte, 1)
		for time.Since(t0) < limit {
			c.SetReadDeadline(time.Now().Add(50 * time.Millisecond))
			_, err := c.Read(buf)
			if err == nil {
				continue
			}
			if ne, ok := err.(net.Error); ok && ne.Timeout() {
				continue
			}
			return time.Since(t0), true
		}
		return 0, false
	}
	tc, ok := closedAt(cc.c, 60*time.Second)
	if !ok {
		rec.Inconclusive(1) // this machine does not even reap the control in a minute
		return
	}
	rec.Eval(1)
	// the reaper was seen ticking at the short interval before the detour and never lengthens its
	// interval beyond a minute, so it still ticks at the short interval: the connection goes about
	// as fast as the control's. (The bound stays below the connection loop's own 30 s read
	// deadline, which would close an idle connection whatever the reaper does.)
	bound := 3*tc + 15*time.Second
	if bound > 25*time.Second {
		rec.Inconclusive(1)
		return
	}
	if _, ok := closedAt(rc.c, bound); !ok {
		recon.srv.connMutex.Lock()
		diag := fmt.Sprintf("tuning.IdleTimeout=%v activeConns=%d", recon.nfs.tuning.Load().IdleTimeout, len(recon.srv.activeConns))
		for _, st := range recon.srv.activeConns {
			diag += fmt.Sprintf(" idle-for=%v", time.Since(st.lastActivity))
		}
		recon.srv.connMutex.Unlock()
		diag += fmt.Sprintf(" loop-goroutines=%v", vfAbsnfsGoroutines("idleConnectionCleanupLoop"))
		rec.Set("idle_after_reconfiguration_diagnosis", diag)
		rec.Violate("C17/idle-connection-not-reaped-after-idle-timeout-was-raised-and-lowered", diag+" "+fmt.Sprintf("IdleTimeout %v -> %v -> %v at runtime: an idle connection is still open after %v; a server with IdleTimeout %v that was never reconfigured reaped its idle connection after %v", final, detour, final, bound, final, tc), nil)
	}
	rec.Distinct(fmt.Sprintf("idle-after-reconfiguration|final=%v|detour=%v", final, detour))
}

// vfC17UnexportOwnServer: the export is served by a Server the application built itself (NewServer +
// SetHandler), not by Export(). Unexport must still release every handle and empty the caches - the
// first time, and again after new state has accumulated.
func vfC17UnexportOwnServer(rec *evid.Rec) {
	for _, listening := range []bool{false, true} {
		fs := refs.New()
		fs.PlantDir("/d", 0777, 0, 0)
		fs.PlantFile("/d/f", []byte("x"), 0666, 0, 0)
		srv, err := vfNewSrv(fs, ExportOptions{AttrCacheTimeout: time.Hour, EnableDirCache: true, CacheNegativeLookups: true})
		if err != nil {
			rec.Infra(err.Error())
			return
		}
		if listening {
			if err := srv.srv.Listen(); err != nil {
				rec.Inconclusive(1)
				srv.Close()
				continue
			}
		}
		populate := func() bool {
			c := srv.client()
			root, err := c.mnt("/")
			if err != nil {
				return false
			}
			dl, _ := c.lookup(root, "d")
			if dl == nil || dl.Status != 0 {
				return false
			}
			c.lookup(vfFH(dl.FH), "f")
			c.lookup(vfFH(dl.FH), "absent")
			c.readdirplus(vfFH(dl.FH), 0, 8192, 32768)
			c.readdir(root, 0, 8192)
			return srv.nfs.fileMap.Count() > 0 && srv.nfs.attrCache.Size() > 0
		}
		for round := 1; round <= 2; round++ {
			if !populate() {
				rec.Inconclusive(1)
				break
			}
			if listening && round == 1 {
				srv.srv.Stop()
			}
			rec.Eval(1)
			if err := srv.nfs.Unexport(); err != nil {
				rec.Violate("C17/error-from-shutdown-call/Unexport/own-server", err.Error(), nil)
			}
			if h, a, d := srv.nfs.fileMap.Count(), srv.nfs.attrCache.Size(), srv.nfs.dirCache.Size(); h != 0 || a != 0 || d != 0 {
				rec.Violate("C17/state-left-after-Unexport/server-not-created-by-Export", fmt.Sprintf("Unexport #%d on an export served by the application's own Server (listening: %v): handles=%d attr-cache=%d dir-cache=%d", round, listening, h, a, d), nil)
			}
			rec.Distinct(fmt.Sprintf("unexport-own-server|listening=%v|round=%d", listening, round))
		}
		srv.Close()
	}
}

// vfC17IdleThrottled: idle reaping of connections whose LAST call was refused by the request rate
// limiter (rate limiting on, one request per connection allowed). Such a connection is as idle as any
// other once its idle time has passed: a cleanup pass closes it and takes it out of the count.
func vfC17IdleThrottled(rec *evid.Rec, ep int) {
	rng := evid.Rng(171771, int64(ep))
	cfg := DefaultRateLimiterConfig()
	cfg.PerConnectionRequestsPerSecond, cfg.PerConnectionBurstSize = 1, 1
	fs := refs.New()
	srv, err := vfNewSrv(fs, ExportOptions{AttrCacheTimeout: 5 * time.Second, MaxConnections: 16, IdleTimeout: time.Hour, EnableRateLimiting: true, RateLimitConfig: &cfg})
	if err != nil {
		rec.Infra(err.Error())
		return
	}
	if err := srv.srv.Listen(); err != nil {
		rec.Infra(err.Error())
		srv.Close()
		return
	}
	defer func() { srv.srv.Stop(); srv.Close() }()
	port := srv.srv.GetPort()
	n := 3 + rng.Intn(4)
	cls := make([]*vfTCPClient, n)
	local := map[string]int{}
	throttled := 0
	for i := range cls {
		c, err := vfDial(port)
		if err != nil {
			rec.Inconclusive(1)
			return
		}
		cls[i] = c
		local[c.c.LocalAddr().String()] = i
		// the first call uses the connection's budget, the following ones are refused
		for k := 0; k < 3; k++ {
			denied, closed, to := c.nullDenied(uint32(10*i+k+1), 20*time.Second)
			if to || closed {
				rec.Inconclusive(1)
				return
			}
			if denied {
				throttled++
			}
		}
	}
	if throttled == 0 {
		rec.Distinct("idle-throttled|nothing-was-throttled")
		return
	}
	vfBackdateConns(srv.srv, 2*time.Hour, func(c net.Conn) bool { _, ok := local[c.RemoteAddr().String()]; return ok })
	srv.srv.cleanupIdleConnections()
	stillIdle := vfIdleByRecord(srv.srv, time.Hour) // tracked and idle by the server's own record after the pass
	survived := 0
	for i, c := range cls {
		_, closed, to := c.null(uint32(500+i), 20*time.Second)
		if to {
			rec.Inconclusive(1)
			continue
		}
		if !closed && stillIdle[c.c.LocalAddr().String()] {
			survived++
		}
		c.c.Close()
	}
	rec.Eval(n)
	if survived > 0 {
		rec.Violate("C17/idle-connection-survived-cleanup/last-call-was-refused-by-the-rate-limiter", fmt.Sprintf("%d of %d connections idle for 2h (IdleTimeout 1h) are still open after a cleanup pass; their last calls had been refused by the per-connection request limit", survived, n), nil)
	}
	rec.Distinct(fmt.Sprintf("idle-throttled|conns=%d|survived=%d", n, survived))
}
