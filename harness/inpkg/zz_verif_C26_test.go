//go:build verif

package absnfs

import (
	"time"
	"fmt"
	"sort"
	"strings"
	"testing"

	"verif.local/lib/evid"
	"verif.local/lib/refs"
	"verif.local/lib/rfc"
)

// C26: directory listings page completely and respect the client's size limit.
// Oracle: cookie walk compared with the backend listing; exact size of the
// resok structure measured by the strict decoder; RFC layout arithmetic for
// "one more entry fits".

func vfPad4(n int) int { return (n + 3) &^ 3 }

// size of READDIR3resok holding exactly one entry of the given name:
// post_op_attr(4[+84]) + verf 8 + entry(4 + 8 + 4+pad(name) + 8) + end-of-list 4 + eof 4
func vfReaddirOneEntrySize(attrPresent bool, name string) int {
	n := 4 + 8 + (4 + 8 + 4 + vfPad4(len(name)) + 8) + 4 + 4
	if attrPresent {
		n += 84
	}
	return n
}

// READDIRPLUS entry: 4 + fileid 8 + name + cookie 8 + post_op_attr (4[+84]) + post_op_fh3 (4[+4+8])
func vfReaddirplusOneEntrySize(attrPresent bool, name string) (min int, max int) {
	base := 4 + 8 + 4 + 4
	if attrPresent {
		base += 84
	}
	e := 4 + 8 + 4 + vfPad4(len(name)) + 8
	return base + e + 4 + 4, base + e + 4 + 84 + 4 + 4 + 8
}

func TestVerif_C26(t *testing.T) {
	rec := evid.New("C26")
	rec.Rule = "directories of {0,1,2,5,17,60} entries with name lengths {1,255,mixed} of files/dirs/symlinks; READDIR count and READDIRPLUS maxcount over every value 0..700 (step 1 quick for small dirs, step 7 otherwise) then powers of two +-1 up to 64KiB, cookies followed to eof; attr/dir cache on/off; export transfer sizes {default,100,256,1000,4096}; distinct = (proc, dir size, limit class, outcome) tuples"
	defer rec.Write()
	sizes := []int{0, 1, 2, 5, 17, 60}
	for di, n := range sizes {
		for _, nameKind := range []string{"short", "long", "mixed"} {
			for _, cache := range []bool{false, true} {
				if evid.Tier() == "quick" && (cache && (nameKind != "short" || n == 60) || n == 60 && nameKind == "long") {
					continue
				}
				vfC26Dir(rec, di, n, nameKind, cache)
			}
		}
	}
	for _, slow := range []string{"listing", "per-entry"} {
		for _, cache := range []bool{false, true} {
			vfC26Slow(rec, slow, cache)
		}
	}
}

// vfC26Slow lists a directory whose backend is slower than the configured ReaddirTimeout (either
// the directory read itself or every per-entry lstat sleeps). The server may answer such a request
// with an error; what it may not do is answer NFS3_OK up to eof with entries missing. The sleeps
// only create the situation - the verdict is the content of OK replies, not any duration.
func vfC26Slow(rec *evid.Rec, slow string, cache bool) {
	fs := refs.New()
	fs.PlantDir("/d", 0755, 0, 0)
	var names []string
	for i := 0; i < 40; i++ {
		nm := fmt.Sprintf("s%02d", i)
		names = append(names, nm)
		fs.PlantFile("/d/"+nm, []byte("x"), 0644, 0, 0)
	}
	srv, err := vfNewSrv(fs, ExportOptions{AttrCacheTimeout: 1, EnableDirCache: cache, Timeouts: &TimeoutConfig{ReaddirTimeout: 120 * time.Millisecond}})
	if err != nil {
		rec.Infra(err.Error())
		return
	}
	defer srv.Close()
	c := srv.client()
	root, _ := c.mnt("/")
	l, _ := c.lookup(root, "d")
	if l == nil || l.Status != 0 {
		rec.Infra("lookup d")
		return
	}
	dh := vfFH(l.FH)
	fs.SetHook(func(op *refs.Op, ph refs.Phase) error {
		if ph != refs.Before {
			return nil
		}
		switch {
		case slow == "listing" && (op.Name == "File.Readdir" || op.Name == "ReadDir" || op.Name == "File.ReadDir" || op.Name == "File.Readdirnames"):
			time.Sleep(300 * time.Millisecond)
		case slow == "per-entry" && (op.Name == "Lstat" || op.Name == "Stat") && strings.HasPrefix(op.Path, "/d/"):
			time.Sleep(12 * time.Millisecond)
		}
		return nil
	})
	defer fs.SetHook(nil)
	for _, plus := range []bool{false, true} {
		proc := "READDIR"
		if plus {
			proc = "READDIRPLUS"
		}
		for round := 0; round < 2; round++ { // the second walk may be served from the directory cache
			var got []string
			cookie := uint64(0)
			outcome := "complete"
			for calls := 0; calls < 50; calls++ {
				rec.Eval(1)
				var r *rfc.Res
				var err error
				if plus {
					r, err = c.readdirplus(dh, cookie, 8192, 8192)
				} else {
					r, err = c.readdir(dh, cookie, 8192)
				}
				if err != nil || r == nil {
					outcome = "no-reply"
					break
				}
				if r.Status != 0 {
					outcome = fmt.Sprintf("status=%d", r.Status)
					break
				}
				for _, e := range r.Entries {
					got = append(got, e.Name)
					cookie = e.Cookie
				}
				if r.EOF {
					break
				}
				if len(r.Entries) == 0 {
					outcome = "stuck"
					break
				}
			}
			if outcome == "complete" {
				sort.Strings(got)
				if strings.Join(got, " ") != strings.Join(names, " ") {
					rec.Violate("C26/"+proc+"/listing-differs-from-directory/slow-backend="+slow, fmt.Sprintf("ReaddirTimeout 120ms, backend slower (%s, dir cache %v): the walk answered NFS3_OK up to eof with %d of the directory's %d entries", slow, cache, len(got), len(names)), nil)
					outcome = "incomplete"
				}
			}
			rec.Distinct(fmt.Sprintf("%s|slow-backend=%s|cache=%v|round=%d|%s", proc, slow, cache, round, outcome))
		}
	}
}

func vfC26Dir(rec *evid.Rec, di, n int, nameKind string, cache bool) {
	// every other directory on a backend that lists in descending name order
	refs.ReverseListings.Store((di+len(nameKind))%2 == 1)
	defer refs.ReverseListings.Store(false)
	fs := refs.New()
	fs.PlantDir("/d", 0755, 0, 0)
	var names []string
	for i := 0; i < n; i++ {
		var name string
		switch {
		case nameKind == "short":
			name = fmt.Sprintf("%c%d", 'a'+i%26, i)
		case nameKind == "long", i%3 == 0:
			name = fmt.Sprintf("%03d", i) + strings.Repeat("L", 252)
		default:
			name = fmt.Sprintf("m%d", i) + strings.Repeat("x", i%40)
		}
		names = append(names, name)
		switch i % 3 {
		case 0:
			fs.PlantFile("/d/"+name, []byte("data"), 0644, 0, 0)
		case 1:
			fs.PlantDir("/d/"+name, 0755, 0, 0)
		default:
			fs.PlantSymlink("/d/"+name, "elsewhere")
		}
	}
	sort.Strings(names)
	order := append([]string(nil), names...)
	if refs.ReverseListings.Load() {
		for i, j := 0, len(order)-1; i < j; i, j = i+1, j-1 {
			order[i], order[j] = order[j], order[i]
		}
	}
	// the export's transfer size is a READ/WRITE matter: listings honour the client's count whatever it is
	ts := []int{0, 256, 1000, 0, 4096, 100}[(di*2+len(nameKind))%6]
	srv, err := vfNewSrv(fs, ExportOptions{AttrCacheTimeout: map[bool]time.Duration{false: 1, true: 5e9}[cache], EnableDirCache: cache, TransferSize: ts})
	if err != nil {
		rec.Infra(err.Error())
		return
	}
	defer srv.Close()
	c := srv.client()
	root, _ := c.mnt("/")
	l, _ := c.lookup(root, "d")
	if l == nil || l.Status != 0 {
		rec.Infra("lookup d")
		return
	}
	dh := vfFH(l.FH)
	// fileids as LOOKUP reports them
	lookupID := map[string]uint64{}
	for _, nm := range names {
		lr, _ := c.lookup(dh, nm)
		if lr != nil && lr.Status == 0 && lr.Obj.Present {
			lookupID[nm] = lr.Obj.A.Fileid
		}
	}
	var limits []uint32
	step := 1
	if evid.Tier() == "quick" {
		step = 3
		if n > 5 || nameKind != "short" {
			step = 29
		}
	}
	for v := 0; v <= 700; v += step {
		limits = append(limits, uint32(v))
	}
	for p := uint32(1024); p <= 65536; p *= 2 {
		limits = append(limits, p-1, p, p+1)
	}
	desc0 := fmt.Sprintf("entries=%d names=%s cache=%v", n, nameKind, cache)
	for _, plus := range []bool{false, true} {
		proc := "READDIR"
		if plus {
			proc = "READDIRPLUS"
		}
		for _, lim := range limits {
			var got []rfc.DirEntry
			cookie := uint64(0)
			calls := 0
			outcome := "complete"
			for {
				calls++
				if calls > n+5 {
					rec.Violate("C26/"+proc+"/cookie-walk-does-not-terminate", fmt.Sprintf("%s limit=%d", desc0, lim), nil)
					outcome = "loop"
					break
				}
				rec.Eval(1)
				var r *rfc.Res
				var err error
				if plus {
					r, err = c.readdirplus(dh, cookie, lim, lim)
				} else {
					r, err = c.readdir(dh, cookie, lim)
				}
				if err != nil || r == nil {
					rec.Violate("C26/"+proc+"/no-reply-or-undecodable", fmt.Sprintf("%v (%s limit=%d)", err, desc0, lim), nil)
					outcome = "error"
					break
				}
				desc := fmt.Sprintf("%s %s limit=%d cookie=%d", proc, desc0, lim, cookie)
				// a limit below the fixed part of the result (attributes, verifier, list end, eof) cannot hold any listing
				lcls := ""
				if lim < 104 {
					lcls = "/limit-below-fixed-part"
				}
				// what fits?
				remaining := order[min64i(len(got), len(order)):] // in the backend's listing order
				oneFits := false
				if len(remaining) > 0 {
					if plus {
						_, mx := vfReaddirplusOneEntrySize(true, remaining[0])
						oneFits = int(lim) >= mx
					} else {
						oneFits = int(lim) >= vfReaddirOneEntrySize(true, remaining[0])
					}
				}
				if r.Status == 10005 { // TOOSMALL
					if oneFits {
						rec.Violate("C26/"+proc+"/TOOSMALL-although-one-entry-fits", desc, nil)
					}
					outcome = "toosmall"
					break
				}
				if r.Status != 0 {
					rec.Violate("C26/"+proc+"/unexpected-status", fmt.Sprintf("%s status %d", desc, r.Status), nil)
					outcome = "error"
					break
				}
				if r.ResLen > int(lim) {
					rec.Violate("C26/"+proc+"/resok-larger-than-limit"+lcls, fmt.Sprintf("%s: resok is %d bytes", desc, r.ResLen), nil)
				}
				if len(r.Entries) == 0 && !r.EOF {
					if oneFits {
						rec.Violate("C26/"+proc+"/ok-empty-no-eof-although-one-fits", desc, nil)
					} else {
						rec.Violate("C26/"+proc+"/ok-empty-no-eof-instead-of-TOOSMALL", desc, nil)
					}
					outcome = "stuck"
					break
				}
				if len(r.Entries) == 0 && r.EOF && len(remaining) > 0 {
					rec.Violate("C26/"+proc+"/eof-before-all-entries", fmt.Sprintf("%s: %d entries missing", desc, len(remaining)), nil)
					outcome = "short"
					break
				}
				adv := false
				for _, e := range r.Entries {
					if e.Cookie > cookie {
						adv = true
					}
					cookie = e.Cookie
					got = append(got, e)
				}
				if r.EOF {
					break
				}
				if !adv {
					rec.Violate("C26/"+proc+"/cookie-does-not-advance", desc, nil)
					outcome = "stuck"
					break
				}
			}
			if outcome == "complete" {
				var gn []string
				seen := map[string]int{}
				for _, e := range got {
					gn = append(gn, e.Name)
					seen[e.Name]++
					if id, ok := lookupID[e.Name]; ok && id != e.Fileid {
						rec.Violate("C26/"+proc+"/fileid-differs-from-LOOKUP", fmt.Sprintf("%s limit=%d name=%.20s fileid %d, LOOKUP says %d", desc0, lim, e.Name, e.Fileid, id), nil)
					}
				}
				sort.Strings(gn)
				if strings.Join(gn, "\x00") != strings.Join(names, "\x00") {
					dups := 0
					for _, k := range seen {
						if k > 1 {
							dups++
						}
					}
					rec.Violate("C26/"+proc+"/listing-differs-from-directory", fmt.Sprintf("%s limit=%d: got %d entries (%d duplicated), directory has %d", desc0, lim, len(gn), dups, len(names)), nil)
				}
			}
			lc := "small"
			if lim >= 1024 {
				lc = "large"
			}
			rec.Distinct(fmt.Sprintf("%s|n=%d|%s|%s|calls=%d|%s", proc, n, nameKind, lc, min64i(calls, 4), outcome))
		}
	}
	if di == 3 && nameKind == "short" && !cache {
		rec.Sample(map[string]any{"dir": desc0, "limits": limits[:20], "names": names})
	}
}
