//go:build verif

package absnfs

import (
	"crypto/tls"
	"bufio"
	"encoding/binary"
	"fmt"
	"io"
	"log"
	"net"
	"os"
	"os/exec"
	"path/filepath"
	"runtime"
	"strconv"
	"strings"
	"testing"
	"time"

	"verif.local/lib/evid"
	"verif.local/lib/refs"
	"verif.local/lib/rfc"
	"verif.local/lib/xdrw"
)

// C15: arbitrary client bytes cannot crash, desynchronise or exhaust the server.
// The server runs in its own child process (this test binary in server mode:
// real Server.Listen with record marking over a refs backend). The client
// writes every stream to a journal before sending it. Oracle: the child
// survives and logs no panic; a probe connection is served after hostile
// streams; the reply XIDs are, in order and without duplicates, a subsequence
// of the XIDs of the decodable calls sent; TotalAlloc growth during a stream
// stays within the documented bounds; a connection whose framing is
// undecodable is closed.

// TestVerif_C15Server is the child: it serves until stdin is closed.
func TestVerif_C15Server(t *testing.T) {
	if os.Getenv("VERIF_C15_SERVER") != "1" {
		t.Skip("server mode only")
	}
	log.SetOutput(os.Stderr)
	fs := refs.New()
	fs.MaxSize = 1 << 20
	fs.PlantDir("/d", 0777, 0, 0)
	fs.PlantFile("/d/f", []byte("hello world, this is file f"), 0666, 0, 0)
	fs.PlantSymlink("/d/ln", "f")
	copts := ExportOptions{}
	if v, _ := strconv.Atoi(os.Getenv("VERIF_C15_TRANSFER_SIZE")); v > 0 {
		copts.TransferSize = v
		fs.MaxSize = 8 << 20
		big := make([]byte, 3<<20)
		for i := range big {
			big[i] = byte('a' + i%23)
		}
		fs.PlantFile("/d/big", big, 0666, 0, 0)
	}
	n, err := New(fs, copts)
	if err != nil {
		t.Fatal(err)
	}
	s, err := NewServer(ServerOptions{Hostname: "127.0.0.1", UseRecordMarking: true})
	if err != nil {
		t.Fatal(err)
	}
	s.SetHandler(n)
	if err := s.Listen(); err != nil {
		t.Fatal(err)
	}
	ctl, err := net.Listen("tcp", "127.0.0.1:0")
	if err != nil {
		t.Fatal(err)
	}
	go func() {
		for {
			c, err := ctl.Accept()
			if err != nil {
				return
			}
			var m runtime.MemStats
			runtime.ReadMemStats(&m)
			fmt.Fprintf(c, "%d %d\n", m.TotalAlloc, runtime.NumGoroutine())
			// a runtime policy update must still go through after whatever the clients have sent:
			// a request exit that keeps its admission would block it (and with it every connection)
			upd := make(chan error, 1)
			go func() {
				p := *n.policy.Load()
				p.MaxFileSize++
				upd <- n.UpdatePolicyOptions(p)
			}()
			select {
			case <-upd:
				fmt.Fprintf(c, "U1\n")
			case <-time.After(20 * time.Second):
				fmt.Fprintf(c, "U0\n")
			}
			c.Close()
		}
	}()
	fmt.Printf("VERIF_C15_READY %d %d\n", s.GetPort(), ctl.Addr().(*net.TCPAddr).Port)
	io.Copy(io.Discard, os.Stdin) // parent closes stdin to stop us
	s.Stop()
	n.Close()
}

type vfChild struct {
	cmd        *exec.Cmd
	stdin      io.WriteCloser
	port, ctl  int
	// set when a policy update in the child did not complete within 20 s
	updateBlocked bool
	logPath    string
	exited     chan struct{}
}

func vfStartChild(idx int, extraEnv ...string) (*vfChild, error) {
	dir := os.Getenv("VERIF_SCRATCH_DIR")
	if dir == "" {
		dir = os.TempDir()
	}
	logPath := filepath.Join(dir, fmt.Sprintf("c15-server-%d.log", idx))
	lf, err := os.Create(logPath)
	if err != nil {
		return nil, err
	}
	cmd := exec.Command(os.Args[0], "-test.run", "^TestVerif_C15Server$", "-test.timeout", "0")
	cmd.Env = append(append(os.Environ(), "VERIF_C15_SERVER=1", "VERIF_LOGS=1", "VERIF_OUT=", "VERIF_JOURNAL="), extraEnv...)
	cmd.Stderr = lf
	stdin, _ := cmd.StdinPipe()
	stdout, _ := cmd.StdoutPipe()
	if err := cmd.Start(); err != nil {
		return nil, err
	}
	ch := &vfChild{cmd: cmd, stdin: stdin, logPath: logPath, exited: make(chan struct{})}
	ready := make(chan error, 1)
	go func() {
		sc := bufio.NewScanner(stdout)
		for sc.Scan() {
			if f := strings.Fields(sc.Text()); len(f) == 3 && f[0] == "VERIF_C15_READY" {
				ch.port, _ = strconv.Atoi(f[1])
				ch.ctl, _ = strconv.Atoi(f[2])
				ready <- nil
				io.Copy(lf, stdout)
				return
			}
		}
		ready <- fmt.Errorf("child ended before it was ready")
	}()
	go func() { cmd.Wait(); close(ch.exited) }()
	select {
	case err := <-ready:
		return ch, err
	case <-time.After(60 * time.Second):
		cmd.Process.Kill()
		return nil, fmt.Errorf("child not ready after 60 s")
	}
}

func (c *vfChild) alive() bool {
	select {
	case <-c.exited:
		return false
	default:
		return true
	}
}

func (c *vfChild) stats() (alloc uint64, goroutines int, ok bool) {
	conn, err := net.DialTimeout("tcp", fmt.Sprintf("127.0.0.1:%d", c.ctl), 5*time.Second)
	if err != nil {
		return 0, 0, false
	}
	defer conn.Close()
	conn.SetDeadline(time.Now().Add(10 * time.Second))
	var a uint64
	var g int
	if _, err := fmt.Fscan(conn, &a, &g); err != nil {
		return 0, 0, false
	}
	conn.SetDeadline(time.Now().Add(40 * time.Second))
	var u string
	if _, err := fmt.Fscan(conn, &u); err == nil && u == "U0" {
		c.updateBlocked = true
	}
	return a, g, true
}

func (c *vfChild) stop() {
	c.stdin.Close()
	select {
	case <-c.exited:
	case <-time.After(15 * time.Second):
		c.cmd.Process.Kill()
	}
}

// sendStream writes the bytes, half-closes, and collects everything the server
// sends until it closes the connection. closedInTime=false means the server
// kept the connection open until the watchdog.
func vfSendStream(port int, stream []byte, halfClose bool, wait time.Duration) (replies [][]byte, junk bool, closedInTime bool, err error) {
	conn, err := net.DialTimeout("tcp", fmt.Sprintf("127.0.0.1:%d", port), 10*time.Second)
	if err != nil {
		return nil, false, false, err
	}
	defer conn.Close()
	conn.SetDeadline(time.Now().Add(wait))
	go func() {
		conn.Write(stream)
		if halfClose {
			conn.(*net.TCPConn).CloseWrite()
		}
	}()
	all, rerr := io.ReadAll(conn)
	closedInTime = true
	if ne, ok := rerr.(net.Error); ok && ne.Timeout() {
		closedInTime = false // only a timeout means the server left the connection open
	}
	// parse record marking strictly
	pos := 0
	var cur []byte
	for pos < len(all) {
		if pos+4 > len(all) {
			junk = true
			break
		}
		h := binary.BigEndian.Uint32(all[pos:])
		l := int(h & 0x7fffffff)
		pos += 4
		if pos+l > len(all) {
			junk = !closedInTime || true
			break
		}
		cur = append(cur, all[pos:pos+l]...)
		pos += l
		if h&0x80000000 != 0 {
			replies = append(replies, cur)
			cur = nil
		}
	}
	return replies, junk, closedInTime, nil
}

func TestVerif_C15(t *testing.T) {
	rec := evid.New("C15")
	rec.Rule = "byte streams sent to a server in its own child process over TCP with record marking: pure random bytes; valid calls for every procedure mutated by bit flips, corruption of length fields (fragment, record, string, opaque, count, gid count) and truncation at every byte with half-close; declared lengths up to 2^32-1 with tiny payloads (allocation measured in the child); many tiny fragments; pipelined valid calls (order check); a fresh probe connection (NULL + GETATTR) after every batch; distinct = (stream class, procedure, server reaction) tuples"
	defer rec.Write()
	vfC15StallMidRecord(rec)
	vfC15StalledTLSHandshake(rec)
	child, err := vfStartChild(0)
	if err != nil {
		rec.Infra("cannot start the server child: " + err.Error())
		return
	}
	defer child.stop()
	rng := evid.Rng(15)
	// live handles for valid calls
	pc, err := vfDialRM(child.port)
	if err != nil {
		rec.Infra(err.Error())
		return
	}
	raw, _, _ := pc.call(vfProgMount, 1, (&xdrw.W{}).Str("/").B)
	rep, derr := rfc.DecodeReply(raw)
	if derr != nil {
		rec.Infra("mount: " + derr.Error())
		return
	}
	mr, _ := rfc.DecodeMount(1, rep.Body)
	root := vfFH(mr.FH)
	look := func(h uint64, n string) uint64 {
		r, _, _ := pc.nfs(3, xdrw.ArgDirop(h, n))
		if r == nil || r.Status != 0 {
			return 0
		}
		return vfFH(r.FH)
	}
	dh := look(root, "d")
	tg := vfC08Target{root: root, dir: dh, file: look(dh, "f"), link: look(dh, "ln")}
	pc.c.Close()
	byProc := vfC08Args(tg, rng)
	var valid [][2]any // (proc, full call message)
	xid := uint32(70000)
	for proc := uint32(0); proc <= 21; proc++ {
		list := byProc[proc]
		if len(list) == 0 {
			list = [][]byte{nil}
		}
		for i, a := range list {
			if i%5 != 0 {
				continue
			}
			valid = append(valid, [2]any{proc, a})
		}
	}
	mkCall := func(proc uint32, args []byte) (uint32, []byte) {
		xid++
		return xid, append(xdrw.CallHeader(xid, vfProgNFS, 3, proc, vfRootCred()), args...)
	}
	nStreams := 0
	probe := func(where string) bool {
		if !child.alive() {
			return false
		}
		p, err := vfDialRM(child.port)
		if err != nil {
			return false
		}
		defer p.c.Close()
		if _, closed, err := p.call(vfProgNFS, 0, nil); err != nil || closed {
			return false
		}
		r, closed, err := p.nfs(1, xdrw.ArgFH(root))
		return err == nil && !closed && r != nil && r.Status == 0
	}
	died := func(stream []byte, class string) {
		tail := ""
		if b, err := os.ReadFile(child.logPath); err == nil {
			if len(b) > 3000 {
				b = b[len(b)-3000:]
			}
			tail = string(b)
		}
		rec.Violate("C15/server-died-or-stopped-serving/stream="+class, "after a hostile stream the server process is gone or a fresh connection is no longer served", map[string]any{"stream_hex": fmt.Sprintf("%x", stream[:min64i(len(stream), 4096)]), "server_log_tail": tail})
	}
	// run one stream; sentXIDs = XIDs of the decodable calls in order
	run := func(class string, stream []byte, sentXIDs []uint32, proc uint32, wantCloseNoHalf bool) bool {
		nStreams++
		evid.Journal(map[string]any{"class": class, "stream_hex": fmt.Sprintf("%x", stream[:min64i(len(stream), 8192)]), "len": len(stream)})
		rec.Eval(1)
		wait := 40 * time.Second
		replies, junk, closed, err := vfSendStream(child.port, stream, !wantCloseNoHalf, wait)
		if err != nil {
			if !probe(class) {
				died(stream, class)
				return false
			}
			rec.Inconclusive(1)
			return true
		}
		reaction := fmt.Sprintf("replies=%d", min64i(len(replies), 3))
		if !closed {
			if wantCloseNoHalf {
				rec.Violate("C15/undecodable-stream-not-closed/"+class, fmt.Sprintf("the connection was still open %v after an undecodable frame", wait), map[string]any{"stream_hex": fmt.Sprintf("%x", stream[:min64i(len(stream), 256)])})
			} else {
				rec.Inconclusive(1)
			}
			reaction = "left-open"
		}
		if junk {
			rec.Violate("C15/reply-stream-not-valid-record-marking/"+class, "", map[string]any{"stream_hex": fmt.Sprintf("%x", stream[:min64i(len(stream), 4096)])})
		}
		// reply XIDs: in order, no duplicates, subsequence of what was sent
		si := 0
		for _, r := range replies {
			if len(r) < 4 {
				rec.Violate("C15/reply-shorter-than-xid/"+class, "", nil)
				break
			}
			x := binary.BigEndian.Uint32(r)
			for si < len(sentXIDs) && sentXIDs[si] != x {
				si++
			}
			if si == len(sentXIDs) {
				rec.Violate("C15/reply-xid-out-of-order-duplicated-or-unsolicited/"+class, fmt.Sprintf("reply with xid %d; calls sent in order: %v", x, sentXIDs), map[string]any{"stream_hex": fmt.Sprintf("%x", stream[:min64i(len(stream), 4096)])})
				break
			}
			si++
		}
		rec.Distinct(fmt.Sprintf("%s|proc=%d|%s", class, proc, reaction))
		return true
	}
	checkAlive := func(class string, last []byte) bool {
		child.stats()
		if child.updateBlocked {
			rec.Violate("C15/server-stops-serving/policy-update-blocked-after-client-streams/stream="+class, "a runtime policy update in the server process did not complete within 20 s after the streams of this class (a request exit kept its admission); every later request is turned away", nil)
			return false
		}
		if !probe(class) {
			died(last, class)
			return false
		}
		return true
	}
	budget := evid.Pick(1200, 60000)
	// 1. pure random bytes
	for i := 0; i < budget/10; i++ {
		b := make([]byte, 1+rng.Intn(300))
		rng.Read(b)
		if !run("random-bytes", b, nil, 99, false) {
			return
		}
	}
	if !checkAlive("random-bytes", nil) {
		return
	}
	// 2. random bytes inside valid record framing
	for i := 0; i < budget/10; i++ {
		b := make([]byte, rng.Intn(200))
		rng.Read(b)
		if !run("random-record", xdrw.Record(b), nil, 99, false) {
			return
		}
	}
	if !checkAlive("random-record", nil) {
		return
	}
	// 3. valid calls mutated
	var last []byte
	for i := 0; i < budget*5/10; i++ {
		v := valid[rng.Intn(len(valid))]
		proc, args := v[0].(uint32), v[1].([]byte)
		x, msg := mkCall(proc, args)
		m := append([]byte(nil), msg...)
		class := "bitflip"
		sent := []uint32{x}
		switch rng.Intn(5) {
		case 0: // bit flips in the argument part
			for f := 1 + rng.Intn(4); f > 0 && len(m) > 40; f-- {
				p := 40 + rng.Intn(len(m)-40)
				m[p] ^= 1 << uint(rng.Intn(8))
			}
		case 1: // corrupt a 4-byte word (often a length) with a hostile value
			class = "length-corruption"
			if len(m) >= 44 {
				p := 40 + 4*rng.Intn((len(m)-40)/4)
				binary.BigEndian.PutUint32(m[p:], []uint32{0xffffffff, 0x7fffffff, 0x80000000, 1 << 20, 8193, 65, 401, 17, 0}[rng.Intn(9)])
			}
		case 2: // corrupt the header area (xid kept): msg type, rpc version, program, version, procedure, cred length
			class = "header-corruption"
			p := 4 + 4*rng.Intn(8)
			if p+4 <= len(m) {
				binary.BigEndian.PutUint32(m[p:], []uint32{0xffffffff, 1, 3, 400, 401, 0, 100005}[rng.Intn(7)])
			}
			sent = []uint32{x}
		case 3: // truncation inside the record, with matching record header
			class = "truncated-call"
			m = m[:rng.Intn(len(m)+1)]
		default: // unmodified, followed by a second valid call (pipelining)
			class = "pipelined"
			x2, msg2 := mkCall(0, nil)
			stream := append(xdrw.Record(m), xdrw.Record(msg2)...)
			last = stream
			if !run(class, stream, []uint32{x, x2}, proc, false) {
				return
			}
			continue
		}
		stream := xdrw.Record(m)
		if rng.Intn(4) == 0 { // truncate the framed stream itself at a random byte
			class += "+cut"
			stream = stream[:rng.Intn(len(stream)+1)]
		}
		last = stream
		if !run(class, stream, sent, proc, false) {
			return
		}
		if i%100 == 99 && !checkAlive(class, last) {
			return
		}
	}
	if !checkAlive("mutated", last) {
		return
	}
	// 4. truncation at every byte of a few valid calls
	for _, vi := range []int{0, len(valid) / 3, len(valid) / 2, len(valid) - 1} {
		proc, args := valid[vi][0].(uint32), valid[vi][1].([]byte)
		x, msg := mkCall(proc, args)
		full := xdrw.Record(msg)
		for cut := 0; cut <= len(full); cut++ {
			sent := []uint32{x}
			if cut < len(full) {
				sent = nil
			}
			if !run("cut-at-every-byte", full[:cut], sent, proc, false) {
				return
			}
		}
	}
	if !checkAlive("cut-at-every-byte", nil) {
		return
	}
	// 5. huge declared lengths with tiny payloads; allocation measured in the child
	hdr := func(x uint32, proc uint32) []byte { return xdrw.CallHeader(x, vfProgNFS, 3, proc, vfRootCred()) }
	hostile := [][3]any{}
	for _, decl := range []uint32{1<<20 + 1, 1 << 24, 0x7fffffff} {
		hostile = append(hostile, [3]any{"huge-fragment-header", (&xdrw.W{}).U32(0x80000000 | decl).Raw([]byte("tiny")).B, uint32(0)})
		hostile = append(hostile, [3]any{"huge-non-last-fragment", (&xdrw.W{}).U32(decl).Raw([]byte("tiny")).B, uint32(0)})
	}
	for _, decl := range []uint32{8193, 1 << 20, 1 << 31, 0xffffffff} {
		xid++
		hostile = append(hostile, [3]any{"huge-string", xdrw.Record(append(hdr(xid, 3), (&xdrw.W{}).FH(dh).U32(decl).Raw([]byte("ab")).B...)), xid})
		xid++
		hostile = append(hostile, [3]any{"huge-write-count", xdrw.Record(append(hdr(xid, 7), (&xdrw.W{}).FH(tg.file).U64(0).U32(decl).U32(2).U32(decl).Raw([]byte("ab")).B...)), xid})
		xid++
		hostile = append(hostile, [3]any{"huge-read-count", xdrw.Record(append(hdr(xid, 6), (&xdrw.W{}).FH(tg.file).U64(0).U32(decl).B...)), xid})
		xid++
		hostile = append(hostile, [3]any{"huge-handle", xdrw.Record(append(hdr(xid, 1), (&xdrw.W{}).U32(decl).Raw([]byte("ab")).B...)), xid})
		xid++
		hostile = append(hostile, [3]any{"huge-cred", xdrw.Record((&xdrw.W{}).U32(xid).U32(0).U32(2).U32(100003).U32(3).U32(0).U32(1).U32(decl).Raw([]byte("abcd")).B), xid})
		xid++
		hostile = append(hostile, [3]any{"huge-gid-count", xdrw.Record(xdrw.CallHeader(xid, vfProgNFS, 3, 0, xdrw.Cred{Flavor: 1, Body: (&xdrw.W{}).U32(1).Str("m").U32(0).U32(0).U32(decl).B})), xid})
		xid++
		hostile = append(hostile, [3]any{"huge-readdir-count", xdrw.Record(append(hdr(xid, 16), xdrw.ArgReaddir(dh, 0, [8]byte{}, decl)...)), xid})
		// WRITE states its payload size twice (count and the length of the opaque): the two disagree
		xid++
		hostile = append(hostile, [3]any{"huge-write-data-length-small-count", xdrw.Record(append(hdr(xid, 7), (&xdrw.W{}).FH(tg.file).U64(0).U32(4).U32(2).U32(decl).Raw([]byte("ab")).B...)), xid})
		xid++
		hostile = append(hostile, [3]any{"huge-write-count-small-data-length", xdrw.Record(append(hdr(xid, 7), (&xdrw.W{}).FH(tg.file).U64(0).U32(decl).U32(2).U32(4).Raw([]byte("abcd")).B...)), xid})
		// second and later strings of a call
		xid++
		hostile = append(hostile, [3]any{"huge-symlink-target", xdrw.Record(append(hdr(xid, 10), (&xdrw.W{}).FH(dh).Str("lnk").Sattr(xdrw.Sattr3{}).U32(decl).Raw([]byte("ab")).B...)), xid})
		xid++
		hostile = append(hostile, [3]any{"huge-rename-second-name", xdrw.Record(append(hdr(xid, 14), (&xdrw.W{}).FH(dh).Str("a").FH(dh).U32(decl).Raw([]byte("ab")).B...)), xid})
		xid++
		hostile = append(hostile, [3]any{"huge-link-name", xdrw.Record(append(hdr(xid, 15), (&xdrw.W{}).FH(tg.file).FH(dh).U32(decl).Raw([]byte("ab")).B...)), xid})
		xid++
		hostile = append(hostile, [3]any{"huge-mount-dirpath", xdrw.Record(append(xdrw.CallHeader(xid, vfProgMount, 3, 1, vfRootCred()), (&xdrw.W{}).U32(decl).Raw([]byte("/d")).B...)), xid})
		xid++
		hostile = append(hostile, [3]any{"huge-machine-name", xdrw.Record(xdrw.CallHeader(xid, vfProgNFS, 3, 0, xdrw.Cred{Flavor: 1, Body: (&xdrw.W{}).U32(1).U32(decl).Raw([]byte("m")).B})), xid})
	}
	const slack = 8 << 20 // 1 MiB record + transfer size + generous runtime/TLS-free slack
	for _, h := range hostile {
		class, stream := h[0].(string), h[1].([]byte)
		a0, _, ok0 := child.stats()
		undecodableFrame := class == "huge-fragment-header" || class == "huge-non-last-fragment"
		if !run(class, stream, []uint32{h[2].(uint32)}, 98, undecodableFrame) {
			return
		}
		a1, _, ok1 := child.stats()
		if ok0 && ok1 && a1-a0 > slack {
			rec.Violate("C15/allocation-beyond-documented-bounds/"+class, fmt.Sprintf("the server allocated %d bytes while handling a %d-byte stream", a1-a0, len(stream)), map[string]any{"stream_hex": fmt.Sprintf("%x", stream)})
		}
	}
	if !checkAlive("huge-lengths", nil) {
		return
	}
	// 5b. a record made of fragments that are each within the limit but together far beyond it
	for _, shape := range [][2]int{{8, 1 << 20}, {40, 256 << 10}, {3, 700 << 10}} {
		var stream []byte
		chunk := make([]byte, shape[1])
		for i := 0; i < shape[0]; i++ {
			stream = append(stream, (&xdrw.W{}).U32(uint32(len(chunk))).B...)
			stream = append(stream, chunk...)
		}
		stream = append(stream, 0x80, 0, 0, 0)
		a0, _, ok0 := child.stats()
		nStreams++
		rec.Eval(1)
		evid.Journal(map[string]any{"class": "oversize-multi-fragment-record", "fragments": shape[0], "fragment_bytes": shape[1]})
		replies, _, closed, err := vfSendStream(child.port, stream, true, 60*time.Second)
		a1, _, ok1 := child.stats()
		if err == nil {
			if len(replies) > 0 {
				rec.Violate("C15/oversize-record-answered", fmt.Sprintf("a record of %d fragments x %d bytes (limit 1 MiB) was accepted and answered", shape[0], shape[1]), nil)
			}
			if !closed {
				rec.Inconclusive(1)
			}
			if total := shape[0] * shape[1]; ok0 && ok1 && total > 4<<20 && a1-a0 > uint64(total) {
				rec.Violate("C15/allocation-beyond-documented-bounds/oversize-multi-fragment-record", fmt.Sprintf("the server allocated %d bytes while reading a %d-byte multi-fragment record (limit 1 MiB)", a1-a0, total), nil)
			}
		}
		rec.Distinct(fmt.Sprintf("oversize-multi-fragment|%dx%d|replies=%d", shape[0], shape[1], len(replies)))
	}
	if !checkAlive("oversize-multi-fragment", nil) {
		return
	}
	// 5c. boundary values, one at a time, in every 4-byte word of the arguments of valid calls
	hostileWords := []uint32{0xffffffff, 0x7fffffff}
	if evid.Tier() == "thorough" {
		hostileWords = []uint32{0xffffffff, 0x7fffffff, 0x80000000, 0, 1, 0x10000, 255, 256}
	}
	for vi, v := range valid {
		proc, args := v[0].(uint32), v[1].([]byte)
		if evid.Tier() == "quick" && vi%2 == 1 {
			continue
		}
		for w := 0; w+4 <= len(args); w += 4 {
			for _, hv := range hostileWords {
				x, msg := mkCall(proc, args)
				m := append([]byte(nil), msg...)
				binary.BigEndian.PutUint32(m[len(m)-len(args)+w:], hv)
				last = xdrw.Record(m)
				if !run("boundary-word", last, []uint32{x}, proc, false) {
					return
				}
			}
		}
		if !child.alive() {
			died(last, "boundary-word")
			return
		}
	}
	if !checkAlive("boundary-word", last) {
		return
	}
	// 6. many tiny fragments
	for _, fsz := range []int{1, 2, 3} {
		x, msg := mkCall(1, xdrw.ArgFH(root))
		sizes := make([]int, 0, len(msg))
		for i := 0; i+fsz < len(msg); i += fsz {
			sizes = append(sizes, fsz)
			if i%7 == 0 {
				sizes = append(sizes, 0)
			}
		}
		if !run("tiny-fragments", xdrw.Fragments(msg, sizes), []uint32{x}, 1, false) {
			return
		}
	}
	// 7. long pipelines of valid calls: every call answered once, in order
	for i := 0; i < evid.Pick(5, 100); i++ {
		var stream []byte
		var xs []uint32
		n := 5 + rng.Intn(40)
		for j := 0; j < n; j++ {
			v := valid[rng.Intn(len(valid))]
			x, msg := mkCall(v[0].(uint32), v[1].([]byte))
			xs = append(xs, x)
			stream = append(stream, xdrw.Record(msg)...)
		}
		nStreams++
		rec.Eval(1)
		evid.Journal(map[string]any{"class": "pipeline", "calls": n})
		replies, _, closed, err := vfSendStream(child.port, stream, true, 60*time.Second)
		if err != nil || !closed {
			rec.Inconclusive(1)
			continue
		}
		if len(replies) != n {
			rec.Violate("C15/pipelined-valid-calls-not-all-answered", fmt.Sprintf("%d calls, %d replies", n, len(replies)), nil)
		}
		for j, r := range replies {
			if j < n && (len(r) < 4 || binary.BigEndian.Uint32(r) != xs[j]) {
				rec.Violate("C15/reply-xid-out-of-order-duplicated-or-unsolicited/pipeline", fmt.Sprintf("reply %d has the wrong xid", j), nil)
				break
			}
		}
		rec.Distinct(fmt.Sprintf("pipeline|answered-all=%v", len(replies) == n))
	}
	if !checkAlive("pipeline", nil) {
		return
	}
	// the server log must not contain recovered panics
	if b, err := os.ReadFile(child.logPath); err == nil {
		if i := strings.Index(string(b), "recovered panic"); i >= 0 {
			rec.Violate("C15/server-logged-a-recovered-panic", string(b[i:min64i(len(b), i+400)]), nil)
		}
		if strings.Contains(string(b), "DATA RACE") {
			rec.Add("server_child_race_reports_in_log", 1)
		}
	}
	rec.Set("streams_sent", nStreams)
	_, g, _ := child.stats()
	rec.Set("server_goroutines_at_end", g)
	vfC15ReplyLengths(rec)
	rec.Sample(map[string]any{"stream_classes": []string{"random-bytes", "random-record", "bitflip", "length-corruption", "header-corruption", "truncated-call", "pipelined", "cut-at-every-byte", "huge-*", "tiny-fragments", "pipeline"}, "streams": nStreams})
}

// vfC15ReplyLengths: a second server process with a 2 MiB transfer size. READs are chosen so that
// the REPLY records have lengths just below, exactly at and just above the reply writer's fragment
// size (1 MiB) and twice that; each READ is pipelined with a NULL call. Every call gets exactly one
// reply record of its own, in order, with its XID, and the READ carries exactly the file's bytes.
func vfC15ReplyLengths(rec *evid.Rec) {
	child, err := vfStartChild(1, "VERIF_C15_TRANSFER_SIZE=2097152")
	if err != nil {
		rec.Inconclusive(1)
		return
	}
	defer child.stop()
	pc, err := vfDialRM(child.port)
	if err != nil {
		rec.Inconclusive(1)
		return
	}
	defer pc.c.Close()
	raw, _, _ := pc.call(vfProgMount, 1, (&xdrw.W{}).Str("/").B)
	rep, derr := rfc.DecodeReply(raw)
	if derr != nil {
		rec.Inconclusive(1)
		return
	}
	mr, _ := rfc.DecodeMount(1, rep.Body)
	d, _, _ := pc.nfs(3, xdrw.ArgDirop(vfFH(mr.FH), "d"))
	if d == nil || d.Status != 0 {
		rec.Inconclusive(1)
		return
	}
	b, _, _ := pc.nfs(3, xdrw.ArgDirop(vfFH(d.FH), "big"))
	if b == nil || b.Status != 0 {
		rec.Inconclusive(1)
		return
	}
	big := vfFH(b.FH)
	const overhead = 128 // RPC reply header 24 + status 4 + post_op_attr 88 + count 4 + eof 4 + opaque length 4
	for _, recLen := range []int{1<<20 - 8, 1<<20 - 4, 1 << 20, 1<<20 + 4, 1<<20 + 8, 2<<20 - 4, 2 << 20, 65536, 65536 * 3} {
		count := uint32(recLen - overhead)
		if count > 2097152 {
			count = 2097152
		}
		evid.Journal(fmt.Sprintf("reply-length sweep: READ count=%d (reply record of %d bytes) + NULL", count, recLen))
		conn, err := vfDialRM(child.port)
		if err != nil {
			rec.Inconclusive(1)
			return
		}
		conn.c.SetDeadline(time.Now().Add(60 * time.Second))
		x1, x2 := uint32(70000+recLen%1000), uint32(80000+recLen%1000)
		m1 := xdrw.Record(append(xdrw.CallHeader(x1, vfProgNFS, 3, 6, vfRootCred()), xdrw.ArgRead(big, 0, count)...))
		m2 := xdrw.Record(xdrw.CallHeader(x2, vfProgNFS, 3, 0, xdrw.Cred{}))
		go conn.c.Write(append(m1, m2...))
		readRecord := func() ([]byte, error) {
			var out []byte
			for {
				var h [4]byte
				if _, err := io.ReadFull(conn.c, h[:]); err != nil {
					return out, err
				}
				v := uint32(h[0])<<24 | uint32(h[1])<<16 | uint32(h[2])<<8 | uint32(h[3])
				fb := make([]byte, v&0x7fffffff)
				if _, err := io.ReadFull(conn.c, fb); err != nil {
					return out, err
				}
				out = append(out, fb...)
				if v&0x80000000 != 0 {
					return out, nil
				}
				if len(out) > 8<<20 {
					return out, fmt.Errorf("record does not end")
				}
			}
		}
		rec.Eval(2)
		r1, e1 := readRecord()
		bad := ""
		if e1 != nil {
			bad = fmt.Sprintf("the READ reply record did not end properly: %v after %d bytes", e1, len(r1))
		} else if rp, derr := rfc.DecodeReply(r1); derr != nil || rp.XID != x1 {
			bad = fmt.Sprintf("first record is not the READ reply (xid %v, %v)", rp, derr)
		} else if res, derr := rfc.DecodeNFS(6, rp.Body); derr != nil {
			bad = fmt.Sprintf("the READ reply record (%d bytes) does not decode exactly: %v", len(r1), derr)
		} else if res.Status != 0 || uint32(len(res.Data)) != count {
			bad = fmt.Sprintf("READ count=%d answered status %d with %d bytes", count, res.Status, len(res.Data))
		}
		if bad == "" {
			r2, e2 := readRecord()
			if e2 != nil {
				bad = fmt.Sprintf("no reply record for the NULL call that followed: %v", e2)
			} else if rp, derr := rfc.DecodeReply(r2); derr != nil || rp.XID != x2 || len(rp.Body) != 0 {
				bad = fmt.Sprintf("the record after the READ reply is not the NULL reply: %v %+v", derr, rp)
			}
		}
		conn.c.Close()
		if bad != "" {
			cls := "other"
			if recLen%(1<<20) == 0 {
				cls = "multiple-of-the-writer-fragment-size"
			}
			rec.Violate("C15/replies-not-one-record-each-in-order/reply-length="+cls, fmt.Sprintf("READ count=%d (a reply record of %d bytes) pipelined with NULL: %s", count, recLen, bad), nil)
		}
		rec.Distinct(fmt.Sprintf("reply-length|%d|ok=%v", recLen, bad == ""))
	}
	child.stats()
}

// vfC15StallMidRecord: a client sends part of a record, stalls for longer than the connection loop's
// read timeout, and then goes on. The loop is run in-process over a pipe with a read timeout of
// 250 ms (the listener uses 30 s; the loop takes it as a parameter). The part sent after the stall
// contains, as WRITE payload, the bytes of a complete framed NULL call with its own XID. Whatever the
// server does about the stall - close, or wait and answer the WRITE - it never answers a call the
// client did not send: every reply carries the XID of the one call that was sent.
func vfC15StallMidRecord(rec *evid.Rec) {
	for _, stall := range []time.Duration{0, 700 * time.Millisecond} {
		for _, cut := range []int{2, 4, 60, 200} {
			fs := refs.New()
			fs.PlantFile("/f", make([]byte, 64), 0666, 0, 0)
			srv, err := vfNewSrv(fs, ExportOptions{AttrCacheTimeout: 1})
			if err != nil {
				rec.Infra(err.Error())
				return
			}
			c := srv.client()
			root, _ := c.mnt("/")
			l, _ := c.lookup(root, "f")
			if l == nil || l.Status != 0 {
				rec.Infra("lookup f")
				srv.Close()
				return
			}
			cl, sv := net.Pipe()
			wrapped := &vfAddrConn{Conn: sv, remote: &net.TCPAddr{IP: net.ParseIP("127.0.0.1"), Port: 790}}
			cio := &recordMarkingConnIO{server: srv.srv, rmConn: NewRecordMarkingConn(wrapped, wrapped)}
			loopDone := make(chan struct{})
			go func() {
				defer close(loopDone)
				srv.srv.handleConnectionLoop(wrapped, srv.ph, cio, 250*time.Millisecond, 250*time.Millisecond)
			}()
			const sentXID, hiddenXID = 0x1111, 0xBADBAD
			hidden := xdrw.Record(xdrw.CallHeader(hiddenXID, vfProgNFS, 3, 0, xdrw.Cred{}))
			payload := append(append(make([]byte, 100), hidden...), make([]byte, 60)...)
			for len(payload)%4 != 0 {
				payload = append(payload, 0)
			}
			msg := append(xdrw.CallHeader(sentXID, vfProgNFS, 3, 7, vfRootCred()), xdrw.ArgWrite(vfFH(l.FH), 0, uint32(len(payload)), 2, payload)...)
			record := xdrw.Record(msg)
			if cut > len(record) {
				cut = len(record) / 2
			}
			var xids []uint32
			readerDone := make(chan struct{})
			go func() {
				defer close(readerDone)
				for {
					cl.SetReadDeadline(time.Now().Add(3 * time.Second))
					var h [4]byte
					if _, err := io.ReadFull(cl, h[:]); err != nil {
						return
					}
					n := int((uint32(h[0])<<24 | uint32(h[1])<<16 | uint32(h[2])<<8 | uint32(h[3])) & 0x7fffffff)
					if n > 1<<20 {
						return
					}
					b := make([]byte, n)
					if _, err := io.ReadFull(cl, b); err != nil {
						return
					}
					if len(b) >= 4 {
						xids = append(xids, uint32(b[0])<<24|uint32(b[1])<<16|uint32(b[2])<<8|uint32(b[3]))
					}
				}
			}()
			cl.SetWriteDeadline(time.Now().Add(5 * time.Second))
			cl.Write(record[:cut])
			time.Sleep(stall)
			cl.SetWriteDeadline(time.Now().Add(5 * time.Second))
			cl.Write(record[cut:]) // fails if the server has closed meanwhile: fine
			<-readerDone
			cl.Close()
			select {
			case <-loopDone:
			case <-time.After(10 * time.Second):
			}
			rec.Eval(1)
			foreign := false
			for _, x := range xids {
				if x != sentXID {
					foreign = true
					rec.Violate("C15/reply-to-a-call-the-client-never-sent/client-stalled-mid-record", fmt.Sprintf("one WRITE call (XID %#x) was sent, cut after %d bytes with a stall of %v in between (read timeout of the loop: 250ms); the server sent a reply with XID %#x - the bytes of the WRITE's payload were parsed as a call", sentXID, cut, stall, x), map[string]any{"cut": cut, "stall": stall.String(), "reply_xids": xids})
				}
			}
			rec.Distinct(fmt.Sprintf("stall-mid-record|stall=%v|cut=%d|replies=%d|foreign=%v", stall, cut, len(xids), foreign))
			srv.Close()
		}
	}
}

// vfC15StalledTLSHandshake: a TLS export. One client connects, sends the first three bytes of a
// handshake record and goes silent. Other clients must still be served: fresh connections complete
// their handshake and get their NULL call answered. If they do not, the verdict is structural: the
// accept loop's goroutine sits inside a TLS handshake in two goroutine dumps 2 s apart (so nobody
// accepts any more); anything else is inconclusive.
func vfC15StalledTLSHandshake(rec *evid.Rec) {
	pki, err := vfNewPKI()
	if err != nil {
		rec.Inconclusive(1)
		return
	}
	defer os.RemoveAll(pki.dir)
	n, s, err := vfC30Start(&TLSConfig{Enabled: true, CertFile: pki.srvCert, KeyFile: pki.srvKey, MinVersion: tls.VersionTLS12, MaxVersion: tls.VersionTLS13})
	if err != nil {
		rec.Inconclusive(1)
		return
	}
	defer func() { s.Stop(); n.Close() }()
	port := s.GetPort()
	if ok, _, _, _ := vfTLSNull(port, pki.roots, tls.VersionTLS12, tls.VersionTLS13, nil, true); !ok {
		rec.Inconclusive(1)
		return
	}
	var stalled []net.Conn
	defer func() {
		for _, c := range stalled {
			c.Close()
		}
	}()
	for _, prefix := range [][]byte{{0x16, 0x03, 0x01}, {}, {0x16}} {
		c, err := net.DialTimeout("tcp", fmt.Sprintf("127.0.0.1:%d", port), 10*time.Second)
		if err != nil {
			rec.Inconclusive(1)
			return
		}
		stalled = append(stalled, c)
		if len(prefix) > 0 {
			c.Write(prefix)
		}
		time.Sleep(100 * time.Millisecond)
		served := 0
		for i := 0; i < 2; i++ {
			rec.Eval(1)
			if ok, _, _, _ := vfTLSNull(port, pki.roots, tls.VersionTLS12, tls.VersionTLS13, nil, true); ok {
				served++
			}
		}
		outcome := "others-served"
		if served < 2 {
			inHandshake := func() string {
				buf := make([]byte, 8<<20)
				buf = buf[:runtime.Stack(buf, true)]
				for _, g := range strings.Split(string(buf), "\n\n") {
					if strings.Contains(g, "absnfs.(*Server).acceptLoop") && strings.Contains(g, "crypto/tls.(*Conn)") {
						lines := strings.Split(g, "\n")
						return strings.Join(lines[:min64i(len(lines), 12)], "\n")
					}
				}
				return ""
			}
			first := inHandshake()
			time.Sleep(2 * time.Second)
			second := inHandshake()
			if first != "" && second != "" {
				outcome = "accept-loop-stuck-in-a-handshake"
				rec.Violate("C15/one-stalled-tls-handshake-stops-the-server-accepting", fmt.Sprintf("a client sent %d bytes of a TLS handshake and went silent; %d of 2 fresh TLS clients were served afterwards, and the accept loop's goroutine sits inside a TLS handshake in two goroutine dumps 2 s apart", len(prefix), served), map[string]any{"accept_loop": second})
			} else {
				outcome = "others-not-served-inconclusive"
				rec.Inconclusive(1)
			}
		}
		rec.Distinct(fmt.Sprintf("stalled-tls-handshake|prefix=%d|%s", len(prefix), outcome))
		if outcome != "others-served" {
			return
		}
	}
}
