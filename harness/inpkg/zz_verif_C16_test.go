//go:build verif

package absnfs

import (
	"io"
	"fmt"
	"runtime"
	"strings"
	"sync"
	"sync/atomic"
	"testing"
	"time"

	"verif.local/lib/evid"
	"verif.local/lib/refs"
	"verif.local/lib/rfc"
	"verif.local/lib/xdrw"
)

// C16: policy updates are atomic with respect to requests (drain-and-swap).
// Oracle: logical event order from one atomic counter; the live policy pointer
// is read at every backend call (refs hook) and attributed to its request by
// path (every request targets a name only it uses).

type vfOpEv struct {
	path     string
	name     string
	mutating bool
	ptr      *PolicyOptions
	ro       bool
	tb, ta   int64 // ticks at Before / After (0 = still running)
}

type vfC16Log struct {
	mu    sync.Mutex
	tick  atomic.Int64
	ops   []*vfOpEv
	open  map[uint64]*vfOpEv // by refs seq
	gates map[string]*vfGate // path -> gate
	yield func()
}

type vfGate struct {
	opName string // park at the first call of this backend method ("" = any)
	parked chan struct{}
	open   chan struct{}
	once   sync.Once
}

func (l *vfC16Log) hook(n *AbsfsNFS) refs.Hook {
	return func(op *refs.Op, ph refs.Phase) error {
		if ph == refs.Before {
			p := n.policy.Load()
			ev := &vfOpEv{path: op.Path, name: op.Name, mutating: op.Mutating, ptr: p, ro: p.ReadOnly, tb: l.tick.Add(1)}
			l.mu.Lock()
			l.ops = append(l.ops, ev)
			l.open[op.Seq] = ev
			g := l.gates[op.Path]
			l.mu.Unlock()
			if g != nil && (g.opName == "" || g.opName == op.Name) {
				first := false
				g.once.Do(func() { first = true })
				if first {
					close(g.parked)
					<-g.open
				}
			}
			if l.yield != nil {
				l.yield()
			}
			return nil
		}
		l.mu.Lock()
		if ev := l.open[op.Seq]; ev != nil {
			ev.ta = l.tick.Add(1)
			delete(l.open, op.Seq)
		}
		l.mu.Unlock()
		return nil
	}
}

func (l *vfC16Log) byPath(p string) []*vfOpEv {
	l.mu.Lock()
	defer l.mu.Unlock()
	var out []*vfOpEv
	for _, e := range l.ops {
		if e.path == p {
			out = append(out, e)
		}
	}
	return out
}

func vfNfsStatus(raw []byte) (uint32, bool) {
	rep, err := rfc.DecodeReply(raw)
	if err != nil || rep.Denied || rep.AcceptStat != 0 || len(rep.Body) < 4 {
		return 0, false
	}
	b := rep.Body
	return uint32(b[0])<<24 | uint32(b[1])<<16 | uint32(b[2])<<8 | uint32(b[3]), true
}

func TestVerif_C16(t *testing.T) {
	rec := evid.New("C16")
	rec.Rule = "controlled schedules: a request parked at a backend gate (first/middle/last backend call, optionally with a request timeout shorter than the park, optionally two parked requests), an update started, drain onset detected, a mid-drain request issued, gates released in seeded orders, follow-up requests judged under the new policy; policy values cycle ReadOnly/AllowedIPs/Secure/rate limiting; connections opened before rate limiting is enabled; plus stress: 8-12 client goroutines (HandleCall and the real loop over net.Pipe) with seeded yields at backend boundaries against 2 updaters, under -race; distinct = interleaving signatures (park point, timeout, update kind, release order, outcomes)"
	defer rec.Write()
	n := evid.Pick(60, 3000)
	for s := 0; s < n && rec.Violations() < 20; s++ {
		vfC16Controlled(rec, s)
	}
	for _, via := range []string{"UpdatePolicyOptions", "UpdateExportOptions"} {
		vfC16OldConnRateLimit(rec, via)
		vfC16CallerMemory(rec, via)
		vfC16RefusedThenUpdate(rec, via)
		vfC16EnableByRoundTrip(rec, via)
	}
	st := evid.Pick(6, 300)
	for s := 0; s < st && rec.Violations() < 25; s++ {
		vfC16Stress(rec, s)
	}
}

func vfC16Controlled(rec *evid.Rec, s int) {
	if s == 0 {
		vfC16MoreParkPoints(rec)
	}
	rng := evid.Rng(16, int64(s))
	parkAt := []string{"Lstat", "File.WriteAt", "Stat", "Chtimes"}[rng.Intn(4)]
	shortTimeout := rng.Intn(3) == 0
	twoParked := rng.Intn(3) == 0
	kind := []string{"read-only", "allowed-ips", "secure", "rate-limit", "same"}[rng.Intn(5)]
	via := []string{"UpdatePolicyOptions", "UpdateExportOptions"}[rng.Intn(2)]
	desc := fmt.Sprintf("park=%s short-timeout=%v two-parked=%v update=%s via=%s", parkAt, shortTimeout, twoParked, kind, via)
	evid.Journal(desc)
	fs := refs.New()
	fs.PlantDir("/d", 0777, 0, 0)
	fs.PlantFile("/d/w1", []byte("old"), 0666, 0, 0)
	fs.PlantFile("/d/w2", []byte("old"), 0666, 0, 0)
	fs.PlantFile("/d/after", []byte("old"), 0666, 0, 0)
	opts := ExportOptions{AttrCacheTimeout: 1}
	if shortTimeout {
		opts.Timeouts = &TimeoutConfig{DefaultTimeout: 30 * time.Millisecond}
	}
	srv, err := vfNewSrv(fs, opts)
	if err != nil {
		rec.Infra(err.Error())
		return
	}
	defer srv.Close()
	c := srv.client()
	root, err := c.mnt("/")
	if err != nil {
		rec.Infra(err.Error())
		return
	}
	look := func(h uint64, n string) uint64 {
		l, _ := c.lookup(h, n)
		if l == nil || l.Status != 0 {
			return 0
		}
		return vfFH(l.FH)
	}
	dh := look(root, "d")
	w1, w2, wa := look(dh, "w1"), look(dh, "w2"), look(dh, "after")
	if dh == 0 || w1 == 0 || w2 == 0 || wa == 0 {
		rec.Infra("setup lookups")
		return
	}
	lg := &vfC16Log{open: map[uint64]*vfOpEv{}, gates: map[string]*vfGate{}}
	g1 := &vfGate{opName: parkAt, parked: make(chan struct{}), open: make(chan struct{})}
	lg.gates["/d/w1"] = g1
	var g2 *vfGate
	if twoParked {
		g2 = &vfGate{opName: "File.WriteAt", parked: make(chan struct{}), open: make(chan struct{})}
		lg.gates["/d/w2"] = g2
	}
	fs.SetHook(lg.hook(srv.nfs))
	fail := func(sig, what string) {
		rec.Violate(sig, what+" ["+desc+"]", map[string]any{"scenario": s, "case": desc})
	}
	wd := func(ch <-chan struct{}, what string) bool {
		select {
		case <-ch:
			return true
		case <-time.After(30 * time.Second):
			rec.Inconclusive(1)
			return false
		}
	}
	release := func() {
		select {
		case <-g1.open:
		default:
			close(g1.open)
		}
		if g2 != nil {
			select {
			case <-g2.open:
			default:
				close(g2.open)
			}
		}
	}
	defer release()
	// R1 (and R3): parked writes
	type rres struct {
		st  uint32
		err error
	}
	r1 := make(chan rres, 1)
	go func() {
		cl := srv.client()
		r, err := cl.write(w1, 0, 2, []byte("new-data-1"))
		r1 <- rres{vfSt(r), err}
	}()
	if !wd(g1.parked, "R1 park") {
		return
	}
	r3 := make(chan rres, 1)
	if twoParked {
		go func() {
			cl := srv.client()
			r, err := cl.write(w2, 0, 2, []byte("new-data-2"))
			r3 <- rres{vfSt(r), err}
		}()
		if !wd(g2.parked, "R3 park") {
			return
		}
	}
	if shortTimeout {
		// wait for HandleCall to give up on R1; its goroutine stays parked in the backend
		select {
		case rr := <-r1:
			r1 <- rr
		case <-time.After(20 * time.Second):
			rec.Inconclusive(1)
			return
		}
	}
	// the update
	oldPtr := srv.nfs.policy.Load()
	np := *oldPtr
	rl := DefaultRateLimiterConfig()
	switch kind {
	case "read-only":
		np.ReadOnly = true
	case "allowed-ips":
		np.AllowedIPs = []string{"127.0.0.1"}
	case "secure":
		np.Secure = true
	case "rate-limit":
		np.EnableRateLimiting, np.RateLimitConfig = true, &rl
	}
	var updStart, updRet atomic.Int64
	updDone := make(chan struct{})
	var updErr error
	go func() {
		defer close(updDone)
		updStart.Store(lg.tick.Add(1))
		if via == "UpdatePolicyOptions" {
			updErr = srv.nfs.UpdatePolicyOptions(np)
		} else {
			eo := srv.nfs.GetExportOptions()
			eo.ReadOnly, eo.AllowedIPs, eo.Secure, eo.EnableRateLimiting, eo.RateLimitConfig = np.ReadOnly, np.AllowedIPs, np.Secure, np.EnableRateLimiting, np.RateLimitConfig
			updErr = srv.nfs.UpdateExportOptions(eo)
		}
		updRet.Store(lg.tick.Add(1))
	}()
	for d := time.Now().Add(20 * time.Second); !vfDraining(srv.nfs) && time.Now().Before(d); {
		runtime.Gosched()
	}
	midDrain := "not-observed"
	if vfDraining(srv.nfs) {
		// mid-drain request R2: must be told to retry later and must not touch the backend
		cl := srv.client()
		_, raw, err := cl.rawCall(vfProgNFS, 3, 3, xdrw.ArgDirop(dh, "mid-drain-name"))
		stillDraining := updRet.Load() == 0
		if err == nil && stillDraining {
			st, ok := vfNfsStatus(raw)
			midDrain = fmt.Sprintf("status=%d", st)
			if !ok || st != 10008 {
				fail("C16/mid-drain-request-not-told-to-retry", fmt.Sprintf("request issued while the update was draining got status %d (decodable=%v), want NFS3ERR_JUKEBOX", st, ok))
			}
			if ops := lg.byPath("/d/mid-drain-name"); len(ops) > 0 {
				fail("C16/mid-drain-request-touched-backend", fmt.Sprintf("%d backend calls", len(ops)))
			}
			rec.Add("mid_drain_requests_observed", 1)
		}
	} else if updRet.Load() != 0 {
		// the update returned although R1 is still parked inside the backend
		midDrain = "update-did-not-wait"
	}
	relOrder := "g1-first"
	if g2 != nil && rng.Intn(2) == 0 {
		relOrder = "g2-first"
		close(g2.open)
		runtime.Gosched()
	}
	release()
	var res1 rres
	select {
	case res1 = <-r1:
	case <-time.After(30 * time.Second):
		rec.Inconclusive(1)
		return
	}
	if twoParked {
		select {
		case <-r3:
		case <-time.After(30 * time.Second):
			rec.Inconclusive(1)
			return
		}
	}
	if !wd(updDone, "update return") {
		fail("C16/update-did-not-return-after-requests-finished", "watchdog of 30 s expired after every in-flight request had been answered")
		return
	}
	if updErr != nil {
		rec.Infra("update failed: " + updErr.Error())
		return
	}
	newPtr := srv.nfs.policy.Load()
	// (a) every request saw one policy for its whole life; (b) no mutation under a read-only policy;
	// (c) the update returned only after requests admitted before it had finished
	for _, p := range []string{"/d/w1", "/d/w2"} {
		ops := lg.byPath(p)
		if len(ops) == 0 {
			continue
		}
		rec.Add("backend_calls_policy_checked", len(ops))
		for _, e := range ops {
			if e.ptr != ops[0].ptr {
				fail("C16/request-executed-under-two-policies", fmt.Sprintf("backend calls of the request on %s saw the live policy change between %s and %s", p, ops[0].name, e.name))
				break
			}
		}
		if ops[0].tb < updStart.Load() {
			last := ops[len(ops)-1]
			if last.ta == 0 || last.ta > updRet.Load() {
				fail("C16/update-returned-while-earlier-request-still-executing", fmt.Sprintf("request on %s was in the backend before the update started; its call %s ended at tick %d, the update returned at tick %d", p, last.name, last.ta, updRet.Load()))
			}
		}
	}
	lg.mu.Lock()
	for _, e := range lg.ops {
		if e.mutating && e.ro {
			fail("C16/mutating-backend-call-under-read-only-policy", fmt.Sprintf("%s(%s) ran while the live policy was read-only", e.name, e.path))
			break
		}
	}
	lg.mu.Unlock()
	// (e) requests after the update are judged under the new policy
	if newPtr == oldPtr {
		fail("C16/policy-not-swapped", "policy pointer unchanged after the update returned")
	}
	cl := srv.client()
	m0 := fs.MutCount()
	r, _ := cl.write(wa, 0, 2, []byte("after-update"))
	switch kind {
	case "read-only":
		if vfSt(r) == 0 || fs.MutCount() != m0 {
			fail("C16/later-request-judged-under-old-policy/read-only", fmt.Sprintf("WRITE after the read-only update returned status %d, %d modifying backend calls", vfSt(r), fs.MutCount()-m0))
		}
	case "allowed-ips":
		cl.IP = "10.1.1.1"
		_, raw, err := cl.rawCall(vfProgNFS, 3, 1, xdrw.ArgFH(wa))
		if rep, derr := rfc.DecodeReply(raw); err == nil && derr == nil && !rep.Denied {
			fail("C16/later-request-judged-under-old-policy/allowed-ips", "request from 10.1.1.1 served after AllowedIPs=[127.0.0.1] took effect")
		}
	case "secure":
		cl.Port = 40000
		_, raw, err := cl.rawCall(vfProgNFS, 3, 1, xdrw.ArgFH(wa))
		if rep, derr := rfc.DecodeReply(raw); err == nil && derr == nil && !rep.Denied {
			fail("C16/later-request-judged-under-old-policy/secure", "request from port 40000 served after Secure took effect")
		}
	}
	// (f) no read lock leaked
	switch vfC16PolicyLockState(srv.nfs) {
	case "busy":
		rec.Inconclusive(1)
	case "leaked":
		fail("C16/policy-lock-still-held-at-quiescence", "no request and no update is running (no HandleCall goroutine exists any more), yet the policy lock cannot be taken")
	}
	rec.Eval(1)
	to := "reply"
	if res1.err != nil {
		to = "timed-out"
	}
	rec.Distinct(fmt.Sprintf("park=%s|r1=%s|two=%v|update=%s|via=%s|release=%s|mid-drain=%s", parkAt, to, twoParked, kind, via, relOrder, midDrain))
	if s < 2 {
		rec.Sample(map[string]any{"case": desc, "mid_drain": midDrain, "r1": to})
	}
}

// vfC16OldConnRateLimit: a connection opened before rate limiting is enabled
// must be rate limited after the update returns.
func vfC16OldConnRateLimit(rec *evid.Rec, via string) {
	fs := refs.New()
	srv, err := vfNewSrv(fs, ExportOptions{AttrCacheTimeout: 1})
	if err != nil {
		rec.Infra(err.Error())
		return
	}
	defer srv.Close()
	old := srv.pipe("127.0.0.1", 801)
	defer old.close()
	if _, _, err := old.call(vfProgNFS, 3, 0, vfRootCred(), nil); err != nil {
		rec.Inconclusive(1)
		return
	}
	rl := DefaultRateLimiterConfig()
	rl.PerConnectionRequestsPerSecond, rl.PerConnectionBurstSize = 1, 1
	if via == "UpdatePolicyOptions" {
		p := *srv.nfs.policy.Load()
		p.EnableRateLimiting, p.RateLimitConfig = true, &rl
		err = srv.nfs.UpdatePolicyOptions(p)
	} else {
		eo := srv.nfs.GetExportOptions()
		eo.EnableRateLimiting, eo.RateLimitConfig = true, &rl
		err = srv.nfs.UpdateExportOptions(eo)
	}
	if err != nil {
		rec.Infra(err.Error())
		return
	}
	count := func(p *vfPipe) (admitted int, elapsed time.Duration, ok bool) {
		t0 := time.Now()
		for i := 0; i < 20; i++ {
			_, raw, err := p.call(vfProgNFS, 3, 0, vfRootCred(), nil)
			if err != nil {
				return 0, 0, false
			}
			if rep, derr := rfc.DecodeReply(raw); derr == nil && !rep.Denied {
				admitted++
			}
		}
		return admitted, time.Since(t0), true
	}
	fresh := srv.pipe("127.0.0.1", 802)
	defer fresh.close()
	fa, fe, ok1 := count(fresh)
	oa, oe, ok2 := count(old)
	if !ok1 || !ok2 {
		rec.Inconclusive(1)
		return
	}
	rec.Eval(40)
	// burst 1 + 1 request/s: allowance computed from the measured duration, rounded up generously
	allow := func(d time.Duration) int { return 2 + int(d/time.Second) + 1 }
	if fa > allow(fe) {
		rec.Violate("C16/new-connection-not-rate-limited/via="+via, fmt.Sprintf("%d of 20 requests admitted in %v on a connection opened after the update (burst 1, 1 req/s)", fa, fe), nil)
	}
	if oa > allow(oe) {
		rec.Violate("C16/old-connection-not-rate-limited/via="+via, fmt.Sprintf("%d of 20 requests admitted in %v on a connection opened before rate limiting was enabled (burst 1, 1 req/s); a fresh connection admitted %d", oa, oe, fa), nil)
	}
	rec.Distinct(fmt.Sprintf("old-conn-rate-limit|%s|old-admitted=%d|fresh-admitted=%d", via, min64i(oa, 3), min64i(fa, 3)))
	// The same long-lived connection through a sequence of policies: after each update has
	// returned, the connection is judged by THAT policy - limits replaced by other limits,
	// limiting switched off, and on again.
	setRL := func(cfg *RateLimiterConfig) error {
		if via == "UpdatePolicyOptions" {
			p := *srv.nfs.policy.Load()
			p.EnableRateLimiting, p.RateLimitConfig = cfg != nil, cfg
			return srv.nfs.UpdatePolicyOptions(p)
		}
		eo := srv.nfs.GetExportOptions()
		eo.EnableRateLimiting, eo.RateLimitConfig = cfg != nil, cfg
		return srv.nfs.UpdateExportOptions(eo)
	}
	generous := DefaultRateLimiterConfig()
	generous.GlobalRequestsPerSecond, generous.PerIPRequestsPerSecond, generous.PerIPBurstSize = 1000000, 1000000, 1000000
	generous.PerConnectionRequestsPerSecond, generous.PerConnectionBurstSize = 1000000, 1000000
	tight := DefaultRateLimiterConfig()
	tight.PerConnectionRequestsPerSecond, tight.PerConnectionBurstSize = 1, 1
	tightIP := DefaultRateLimiterConfig()
	tightIP.PerIPRequestsPerSecond, tightIP.PerIPBurstSize = 1, 1
	type phase struct {
		name string
		cfg  *RateLimiterConfig
	}
	phases := []phase{{"generous", &generous}, {"tight-per-connection", &tight}, {"off", nil}, {"tight-per-ip", &tightIP}, {"generous", &generous}, {"tight-per-connection", &tight}}
	prev := "tight-per-connection"
	for _, ph := range phases {
		if err := setRL(ph.cfg); err != nil {
			rec.Infra(err.Error())
			return
		}
		a, e, ok := count(old)
		if !ok {
			rec.Inconclusive(1)
			return
		}
		rec.Eval(20)
		if strings.HasPrefix(ph.name, "tight") {
			if a > allow(e) {
				rec.Violate("C16/old-connection-judged-under-earlier-limits/via="+via, fmt.Sprintf("policy sequence ... %s -> %s on one open connection: %d of 20 requests admitted in %v after the update to burst 1, 1 req/s had returned", prev, ph.name, a, e), nil)
			}
		} else if a != 20 {
			rec.Violate("C16/old-connection-judged-under-earlier-limits/via="+via, fmt.Sprintf("policy sequence ... %s -> %s on one open connection: only %d of 20 requests admitted after the update that lifted the limits had returned", prev, ph.name, a), nil)
		}
		rec.Distinct(fmt.Sprintf("old-conn-policy-sequence|%s|%s->%s|admitted=%d", via, prev, ph.name, min64i(a, 3)))
		prev = ph.name
	}
}

func vfC16Stress(rec *evid.Rec, s int) {
	rng := evid.Rng(1616, int64(s))
	fs := refs.New()
	fs.PlantDir("/d", 0777, 0, 0)
	srv, err := vfNewSrv(fs, ExportOptions{AttrCacheTimeout: 1, MaxWorkers: 4})
	if err != nil {
		rec.Infra(err.Error())
		return
	}
	c := srv.client()
	root, _ := c.mnt("/")
	l, _ := c.lookup(root, "d")
	if l == nil || l.Status != 0 {
		rec.Infra("lookup")
		return
	}
	dh := vfFH(l.FH)
	lg := &vfC16Log{open: map[uint64]*vfOpEv{}, gates: map[string]*vfGate{}}
	var ycount atomic.Int64
	lg.yield = func() {
		switch ycount.Add(1) % 5 {
		case 0:
			runtime.Gosched()
		case 1:
			time.Sleep(time.Microsecond * time.Duration(1+ycount.Load()%50))
		}
	}
	fs.SetHook(lg.hook(srv.nfs))
	evid.Journal(fmt.Sprintf("stress episode %d", s))
	stop := make(chan struct{})
	var wg sync.WaitGroup
	// updaters
	for u := 0; u < 2; u++ {
		wg.Add(1)
		go func(u int) {
			defer wg.Done()
			r := evid.Rng(161616, int64(s), int64(u))
			rl := DefaultRateLimiterConfig()
			for i := 0; ; i++ {
				select {
				case <-stop:
					return
				default:
				}
				p := *srv.nfs.policy.Load()
				switch r.Intn(4) {
				case 0:
					p.ReadOnly = !p.ReadOnly
				case 1:
					p.EnableRateLimiting = !p.EnableRateLimiting
					p.RateLimitConfig = &rl
				case 2:
					if len(p.AllowedIPs) == 0 {
						p.AllowedIPs = []string{"127.0.0.0/8"}
					} else {
						p.AllowedIPs = nil
					}
				default:
					p.MaxFileSize = int64(r.Intn(2)) * 1 << 20
				}
				if u == 0 {
					srv.nfs.UpdatePolicyOptions(p)
				} else {
					eo := srv.nfs.GetExportOptions()
					eo.ReadOnly = p.ReadOnly
					srv.nfs.UpdateExportOptions(eo)
				}
				time.Sleep(time.Duration(r.Intn(300)) * time.Microsecond)
			}
		}(u)
	}
	nclients := 8 + rng.Intn(5)
	var reqs atomic.Int64
	var cwg sync.WaitGroup
	for k := 0; k < nclients; k++ {
		cwg.Add(1)
		go func(k int) {
			defer cwg.Done()
			r := evid.Rng(16161616, int64(s), int64(k))
			usePipe := k%3 == 0
			var p *vfPipe
			cl := srv.client()
			for i := 0; i < 25; i++ {
				name := fmt.Sprintf("c%d-%d", k, i)
				var args []byte
				proc := uint32(8)
				switch r.Intn(3) {
				case 0:
					args = xdrw.ArgCreate(dh, name, 0, sattrNone, [8]byte{})
				case 1:
					proc, args = 9, xdrw.ArgMkdir(dh, name, sattrNone)
				default:
					proc, args = 3, xdrw.ArgDirop(dh, name)
				}
				reqs.Add(1)
				if usePipe {
					if p == nil || i%8 == 0 {
						if p != nil {
							p.close()
						}
						p = srv.pipe("127.0.0.1", 900+k)
					}
					if _, _, err := p.call(vfProgNFS, 3, proc, vfRootCred(), args); err != nil {
						p.close()
						p = nil
					}
				} else {
					cl.rawCall(vfProgNFS, 3, proc, args)
				}
			}
			if p != nil {
				p.close()
			}
		}(k)
	}
	done := make(chan struct{})
	go func() { cwg.Wait(); close(done) }()
	select {
	case <-done:
	case <-time.After(120 * time.Second):
		rec.Inconclusive(1)
		close(stop)
		return
	}
	close(stop)
	wg.Wait()
	// audit
	lg.mu.Lock()
	byPath := map[string][]*vfOpEv{}
	for _, e := range lg.ops {
		if e.path != "/d" && e.path != "/" {
			byPath[e.path] = append(byPath[e.path], e)
		}
		if e.mutating && e.ro {
			rec.Violate("C16/mutating-backend-call-under-read-only-policy", fmt.Sprintf("stress: %s(%s) ran while the live policy was read-only", e.name, e.path), map[string]any{"episode": s})
		}
	}
	checked := 0
	for p, ops := range byPath {
		checked += len(ops)
		for _, e := range ops {
			if e.ptr != ops[0].ptr {
				rec.Violate("C16/request-executed-under-two-policies", fmt.Sprintf("stress: backend calls of the request on %s saw the live policy change", p), map[string]any{"episode": s})
				break
			}
		}
	}
	lg.mu.Unlock()
	switch vfC16PolicyLockState(srv.nfs) {
	case "busy":
		rec.Inconclusive(1)
	case "leaked":
		rec.Violate("C16/policy-lock-still-held-at-quiescence", "stress: no request and no update is running (no HandleCall goroutine exists any more), yet the policy lock cannot be taken", map[string]any{"episode": s})
	}
	rec.Add("backend_calls_policy_checked", checked)
	rec.Add("stress_requests", int(reqs.Load()))
	rec.Eval(int(reqs.Load()))
	rec.Distinct(fmt.Sprintf("stress|clients=%d|requests-with-backend-calls=%d", nclients, min64i(len(byPath)/50, 6)))
	fs.SetHook(nil)
	srv.Close()
}

// vfC16PolicyLockState tells whether a read lock on the policy was leaked. HandleCall's inner
// goroutine releases its read lock just AFTER it has handed the result to the caller, so the lock
// may legitimately still be held for a moment after the last reply. The verdict is structural:
// "leaked" only if the lock cannot be taken although no goroutine that could release it exists
// (no HandleCall.func1, no Update*Options frame); while such goroutines exist it is "busy".
func vfC16PolicyLockState(n *AbsfsNFS) string {
	for i := 0; i < 2000; i++ {
		if n.policyRWMu.TryLock() {
			n.policyRWMu.Unlock()
			return "free"
		}
		if i < 200 {
			runtime.Gosched()
		} else {
			time.Sleep(time.Millisecond)
		}
		if i%100 == 99 {
			buf := make([]byte, 4<<20)
			buf = buf[:runtime.Stack(buf, true)]
			st := string(buf)
			if !strings.Contains(st, "HandleCall.func") && !strings.Contains(st, "UpdatePolicyOptions") && !strings.Contains(st, "UpdateExportOptions") {
				if n.policyRWMu.TryLock() {
					n.policyRWMu.Unlock()
					return "free"
				}
				return "leaked"
			}
		}
	}
	return "busy"
}

// vfC16CallerMemory: the policy in force changes through an update (drain and swap) and through
// nothing else. The program that configured the server keeps the option struct it passed in and
// edits it afterwards (preparing its next update, say): slices and pointers inside it must not be
// shared with the live policy, or requests would be judged under a policy no update ever installed.
func vfC16CallerMemory(rec *evid.Rec, via string) {
	for _, how := range []string{"New", via} {
		fs := refs.New()
		fs.PlantFile("/f", []byte("x"), 0644, 0, 0)
		mine := []string{"10.0.0.9", "10.0.0.10"}
		rl := DefaultRateLimiterConfig()
		rl.PerIPRequestsPerSecond, rl.PerIPBurstSize = 1000000, 1000000
		opts := ExportOptions{AttrCacheTimeout: 1}
		if how == "New" {
			opts.AllowedIPs, opts.EnableRateLimiting, opts.RateLimitConfig = mine, true, &rl
		}
		srv, err := vfNewSrv(fs, opts)
		if err != nil {
			rec.Infra(err.Error())
			return
		}
		switch how {
		case "UpdatePolicyOptions":
			p := *srv.nfs.policy.Load()
			p.AllowedIPs, p.EnableRateLimiting, p.RateLimitConfig = mine, true, &rl
			err = srv.nfs.UpdatePolicyOptions(p)
		case "UpdateExportOptions":
			eo := srv.nfs.GetExportOptions()
			eo.AllowedIPs, eo.EnableRateLimiting, eo.RateLimitConfig = mine, true, &rl
			err = srv.nfs.UpdateExportOptions(eo)
		}
		if err != nil {
			rec.Infra(err.Error())
			srv.Close()
			return
		}
		served := func(ip string) (bool, bool) {
			c := srv.client()
			c.IP = ip
			_, raw, err := c.rawCall(vfProgMount, 3, 1, (&xdrw.W{}).Str("/").B)
			if err != nil {
				return false, false
			}
			rep, derr := rfc.DecodeReply(raw)
			return derr == nil && !rep.Denied, derr == nil
		}
		a0, ok0 := served("10.0.0.9")
		b0, ok1 := served("10.0.0.77")
		// the caller now edits ITS OWN memory; no update is issued
		mine[0] = "10.0.0.77"
		rl.PerIPRequestsPerSecond, rl.PerIPBurstSize = 0, 0
		rec.Eval(4)
		a1, ok2 := served("10.0.0.9")
		b1, ok3 := served("10.0.0.77")
		if ok0 && ok1 && ok2 && ok3 {
			if !a0 || b0 {
				rec.Violate("C16/caller-memory/allow-list-not-in-force/configured-via="+how, fmt.Sprintf("AllowedIPs=[10.0.0.9 10.0.0.10]: 10.0.0.9 served=%v, 10.0.0.77 served=%v", a0, b0), nil)
			} else if !a1 || b1 {
				rec.Violate("C16/caller-memory/policy-changed-without-an-update/configured-via="+how, fmt.Sprintf("after the caller edited the slice it had passed (no update call): 10.0.0.9 served=%v, 10.0.0.77 served=%v", a1, b1), nil)
			}
		}
		if got := srv.nfs.GetExportOptions(); len(got.AllowedIPs) != 2 || got.AllowedIPs[0] != "10.0.0.9" || got.RateLimitConfig == nil || got.RateLimitConfig.PerIPBurstSize != 1000000 {
			rec.Violate("C16/caller-memory/reported-policy-changed-without-an-update/configured-via="+how, fmt.Sprintf("GetExportOptions reports AllowedIPs=%v RateLimitConfig=%+v after the caller edited its own copies", got.AllowedIPs, got.RateLimitConfig), nil)
		}
		rec.Distinct(fmt.Sprintf("caller-memory|%s|before=%v/%v|after=%v/%v", how, a0, b0, a1, b1))
		srv.Close()
	}
}

// vfC16RefusedThenUpdate: "the update finishes once in-flight requests finish" also after requests
// that were REFUSED (bad credential, address not listed, unprivileged port, unknown program, garbage
// arguments): every exit of HandleCall has to give its admission back. Checked structurally (is the
// policy lock free once no request goroutine exists?) and by an actual update.
func vfC16RefusedThenUpdate(rec *evid.Rec, via string) {
	fs := refs.New()
	fs.PlantFile("/f", []byte("x"), 0644, 0, 0)
	srv, err := vfNewSrv(fs, ExportOptions{AttrCacheTimeout: 1, AllowedIPs: []string{"127.0.0.1"}, Secure: true})
	if err != nil {
		rec.Infra(err.Error())
		return
	}
	defer srv.Close()
	good := srv.client()
	root, err := good.mnt("/")
	if err != nil {
		rec.Infra(err.Error())
		return
	}
	type refusal struct {
		name string
		do   func(c *vfClient)
	}
	refusals := []refusal{
		{"unsupported-credential-flavor", func(c *vfClient) { c.Cred = xdrw.Cred{Flavor: 6, Body: []byte{1, 2, 3, 4}}; c.rawCall(vfProgNFS, 3, 1, xdrw.ArgFH(root)) }},
		{"unparsable-auth-sys", func(c *vfClient) { c.Cred = xdrw.Cred{Flavor: 1, Body: []byte{0, 0, 0, 1, 0, 0}}; c.rawCall(vfProgNFS, 3, 1, xdrw.ArgFH(root)) }},
		{"address-not-listed", func(c *vfClient) { c.IP = "10.9.9.9"; c.rawCall(vfProgNFS, 3, 1, xdrw.ArgFH(root)) }},
		{"unprivileged-port", func(c *vfClient) { c.Port = 40000; c.rawCall(vfProgNFS, 3, 1, xdrw.ArgFH(root)) }},
		{"unknown-program", func(c *vfClient) { c.rawCall(424242, 1, 0, nil) }},
		{"unknown-procedure", func(c *vfClient) { c.rawCall(vfProgNFS, 3, 77, nil) }},
		{"wrong-version", func(c *vfClient) { c.rawCall(vfProgNFS, 2, 1, xdrw.ArgFH(root)) }},
		{"garbage-arguments", func(c *vfClient) { c.rawCall(vfProgNFS, 3, 3, []byte{0, 0}) }},
		{"stale-handle", func(c *vfClient) { c.rawCall(vfProgNFS, 3, 1, xdrw.ArgFH(0xdeadbeef)) }},
		{"mount-refused-path", func(c *vfClient) { c.rawCall(vfProgMount, 3, 1, (&xdrw.W{}).Str("/nope").B) }},
	}
	for _, rf := range refusals {
		for i := 0; i < 3; i++ {
			rf.do(srv.client())
		}
		rec.Eval(3)
		switch vfC16PolicyLockState(srv.nfs) {
		case "busy":
			rec.Inconclusive(1)
		case "leaked":
			rec.Violate("C16/policy-lock-still-held-at-quiescence/after-refused-request="+rf.name, "the request was answered, no request goroutine exists, yet the policy lock cannot be taken: the next policy update would wait for ever", nil)
			return
		}
		done := make(chan error, 1)
		go func() {
			p := *srv.nfs.policy.Load()
			p.MaxFileSize++
			if via == "UpdatePolicyOptions" {
				done <- srv.nfs.UpdatePolicyOptions(p)
			} else {
				eo := srv.nfs.GetExportOptions()
				eo.MaxFileSize = p.MaxFileSize
				done <- srv.nfs.UpdateExportOptions(eo)
			}
		}()
		select {
		case <-done:
		case <-time.After(60 * time.Second):
			rec.Inconclusive(1)
			return
		}
		rec.Distinct(fmt.Sprintf("refused-then-update|%s|%s", via, rf.name))
	}
}

// vfC16EnableByRoundTrip: rate limiting is switched on at runtime the documented way - take what
// the server reports, set EnableRateLimiting, hand it back - without spelling out a RateLimitConfig
// (the server was built with limiting off and reports its defaults, or nothing). Once the update has
// returned, requests ARE limited: of a run of MNT calls (default budget: 2, refilled at 10 a minute)
// from one address on a connection that was open before, only what burst + rate x elapsed allows is
// served - with a wide margin for a slow machine.
func vfC16EnableByRoundTrip(rec *evid.Rec, via string) {
	fs := refs.New()
	srv, err := vfNewSrv(fs, ExportOptions{AttrCacheTimeout: 1})
	if err != nil {
		rec.Infra(err.Error())
		return
	}
	defer srv.Close()
	old := srv.pipe("127.0.0.1", 811)
	defer old.close()
	if _, _, err := old.call(vfProgNFS, 3, 0, vfRootCred(), nil); err != nil {
		rec.Inconclusive(1)
		return
	}
	if via == "UpdatePolicyOptions" {
		p := *srv.nfs.policy.Load()
		p.EnableRateLimiting = true
		err = srv.nfs.UpdatePolicyOptions(p)
	} else {
		eo := srv.nfs.GetExportOptions()
		eo.EnableRateLimiting = true
		err = srv.nfs.UpdateExportOptions(eo)
	}
	if err != nil {
		rec.Distinct("enable-by-round-trip|" + via + "|refused")
		return // refusing the update is allowed; accepting it and not limiting is not
	}
	if !srv.nfs.GetExportOptions().EnableRateLimiting {
		rec.Violate("C16/rate-limiting-enabled-by-round-trip-not-reported/via="+via, "the update returned nil, GetExportOptions().EnableRateLimiting is false", nil)
		return
	}
	t0 := time.Now()
	served := 0
	const calls = 14
	for i := 0; i < calls; i++ {
		_, raw, err := old.call(vfProgMount, 3, 1, vfRootCred(), (&xdrw.W{}).Str("/").B)
		if err != nil {
			rec.Inconclusive(1)
			return
		}
		rep, derr := rfc.DecodeReply(raw)
		if derr != nil || rep.Denied || rep.AcceptStat != 0 {
			continue
		}
		if m, derr := rfc.DecodeMount(1, rep.Body); derr == nil && m.Status == 0 {
			served++
		}
	}
	el := time.Since(t0)
	rec.Eval(calls)
	// default mount budget: burst 2 (10 per minute); allowance with a 3x margin on the rate
	allowed := 2 + int(el/(2*time.Second)) + 1
	if served > allowed {
		rec.Violate("C16/rate-limiting-enabled-at-runtime-without-explicit-config-not-in-force/via="+via, fmt.Sprintf("rate limiting was switched on by %s (EnableRateLimiting set on what GetExportOptions/the policy reports; the update returned nil and limiting is reported as enabled): %d of %d MNT calls from one address were served in %v, the default mount budget is 2 + 10 per minute", via, served, calls, el), nil)
	}
	rec.Distinct(fmt.Sprintf("enable-by-round-trip|%s|served<=allowed=%v", via, served <= allowed))
}

// vfGateReader parks its first Read until the gate is opened.
type vfGateReader struct {
	r      io.Reader
	once   sync.Once
	parked chan struct{}
	open   chan struct{}
}

func (g *vfGateReader) Read(p []byte) (int, error) {
	g.once.Do(func() { close(g.parked); <-g.open })
	return g.r.Read(p)
}

// vfC16MoreParkPoints: two more places at which a request can be when an update starts.
// (1) A MOUNT MNT call parked in the backend lstat of the path: it was admitted under the old
// policy, so the update must not return before it has finished (and must finish once it has).
// (2) A request whose arguments are still arriving (parked in the first read of its argument
// bytes, after it was admitted): the update starts and waits; when the arguments arrive both must
// complete - a request that takes the policy lock a second time would wait for the writer that
// waits for it.
func vfC16MoreParkPoints(rec *evid.Rec) {
	type pcase struct {
		name string
		call func(c *vfClient, root, dh, fh uint64) error
		atFS bool // parked in the backend (else: while decoding arguments)
	}
	cases := []pcase{
		{"MNT", func(c *vfClient, root, dh, fh uint64) error { _, e := c.mnt("/d"); return e }, true},
		{"MNT", func(c *vfClient, root, dh, fh uint64) error { _, e := c.mnt("/d"); return e }, false},
		{"GETATTR", func(c *vfClient, root, dh, fh uint64) error { _, e := c.getattr(fh); return e }, false},
		{"LOOKUP", func(c *vfClient, root, dh, fh uint64) error { _, e := c.lookup(dh, "f"); return e }, false},
		{"READ", func(c *vfClient, root, dh, fh uint64) error { _, e := c.read(fh, 0, 16); return e }, false},
		{"WRITE", func(c *vfClient, root, dh, fh uint64) error { _, e := c.write(fh, 0, 2, []byte("x")); return e }, false},
		{"READDIR", func(c *vfClient, root, dh, fh uint64) error { _, e := c.readdir(dh, 0, 4096); return e }, false},
		{"READDIRPLUS", func(c *vfClient, root, dh, fh uint64) error { _, e := c.readdirplus(dh, 0, 4096, 8192); return e }, false},
		{"ACCESS", func(c *vfClient, root, dh, fh uint64) error { _, e := c.access(fh, 0x3f); return e }, false},
		{"REMOVE", func(c *vfClient, root, dh, fh uint64) error { _, e := c.remove(dh, "zz"); return e }, false},
		{"RENAME", func(c *vfClient, root, dh, fh uint64) error { _, e := c.rename(dh, "zz", dh, "yy"); return e }, false},
		{"FSINFO", func(c *vfClient, root, dh, fh uint64) error { _, e := c.fsinfo(root); return e }, false},
	}
	for _, rl := range []bool{false, true} {
		for _, pc := range cases {
			where := "while-its-arguments-arrive"
			if pc.atFS {
				where = "in-the-backend"
			}
			desc := fmt.Sprintf("%s parked %s, rate limiting %v", pc.name, where, rl)
			evid.Journal(desc)
			fs := refs.New()
			fs.PlantDir("/d", 0777, 0, 0)
			fs.PlantFile("/d/f", []byte("data"), 0666, 0, 0)
			srv, err := vfNewSrv(fs, ExportOptions{AttrCacheTimeout: 1, EnableRateLimiting: rl})
			if err != nil {
				rec.Infra(err.Error())
				return
			}
			c := srv.client()
			root, _ := c.mnt("/")
			dl, _ := c.lookup(root, "d")
			fl, _ := c.lookup(vfFH(dl.FH), "f")
			if dl == nil || fl == nil || fl.Status != 0 {
				rec.Infra("lookups")
				srv.Close()
				return
			}
			dh, fh := vfFH(dl.FH), vfFH(fl.FH)
			parked, open := make(chan struct{}), make(chan struct{})
			pcli := srv.client()
			if pc.atFS {
				var once sync.Once
				fs.SetHook(func(op *refs.Op, ph refs.Phase) error {
					if ph == refs.Before && op.Name == "Lstat" && op.Path == "/d" {
						once.Do(func() { close(parked); <-open })
					}
					return nil
				})
			} else {
				pcli.BodyWrap = func(r io.Reader) io.Reader { return &vfGateReader{r: r, parked: parked, open: open} }
			}
			reqDone := make(chan error, 1)
			go func() { reqDone <- pc.call(pcli, root, dh, fh) }()
			select {
			case <-parked:
			case <-time.After(20 * time.Second):
				// this procedure reads no arguments through the reader (or never reached the backend)
				rec.Distinct("more-park-points|" + desc + "|never-parked")
				close(open)
				srv.Close()
				continue
			}
			updDone := make(chan error, 1)
			go func() {
				p := *srv.nfs.policy.Load()
				p.AllowedIPs = []string{"127.0.0.1", "10.9.9.9"}
				updDone <- srv.nfs.UpdatePolicyOptions(p)
			}()
			// the update must wait for the admitted request: if it returns while the request is still
			// parked, that is the violation, whenever it happens
			early := false
			select {
			case <-updDone:
				early = true
			case <-time.After(300 * time.Millisecond):
			}
			rec.Eval(1)
			if early {
				rec.Violate("C16/update-returned-while-a-request-admitted-under-the-old-policy-was-still-executing/"+pc.name+"/"+where, desc+": UpdatePolicyOptions returned while the request was parked", map[string]any{"case": desc})
			}
			close(open)
			fs.SetHook(nil)
			// now both must finish; if they do not, the verdict is structural
			outcome := "both-finished"
			waitBoth := func() bool {
				deadline := time.After(25 * time.Second)
				gotReq, gotUpd := false, early
				for !(gotReq && gotUpd) {
					select {
					case <-reqDone:
						gotReq = true
					case <-updDone:
						gotUpd = true
					case <-deadline:
						return false
					}
				}
				return true
			}
			if !waitBoth() {
				first := vfC16PolicyLockState(srv.nfs)
				w1 := vfC29LockWaiters()
				time.Sleep(2 * time.Second)
				w2 := vfC29LockWaiters()
				stuck := ""
				for id, st := range w2 {
					if _, was := w1[id]; was {
						stuck = st
					}
				}
				if stuck != "" {
					outcome = "deadlock"
					vfStuckSeen.Store(true)
					rec.Violate("C16/request-and-update-wait-for-each-other/"+pc.name+"/"+where, fmt.Sprintf("%s: after the request's arguments arrived neither the request nor the update finished; policy lock: %s; %s: %s", desc, first, evid.StuckMarker, stuck), map[string]any{"case": desc})
				} else {
					outcome = "slow"
					rec.Inconclusive(1)
				}
				rec.Distinct("more-park-points|" + desc + "|" + outcome)
				return
			}
			rec.Distinct("more-park-points|" + desc + "|" + outcome)
			srv.Close()
		}
	}
}
