//go:build verif

package absnfs

import (
	"crypto/ecdsa"
	"crypto/elliptic"
	"crypto/rand"
	"crypto/tls"
	"crypto/x509"
	"crypto/x509/pkix"
	"encoding/pem"
	"fmt"
	"io"
	"math/big"
	"net"
	"os"
	"path/filepath"
	"testing"
	"time"

	"verif.local/lib/evid"
	"verif.local/lib/refs"
	"verif.local/lib/rfc"
	"verif.local/lib/xdrw"
)

// C30: the TLS listener enforces the configured security floor.
// Oracle: real crypto/tls clients on loopback; "completes" = a NULL RPC is
// answered (with TLS 1.3 a rejected client certificate only shows on first
// read); the peer certificate's serial number tells which certificate was
// served.

type vfPKI struct {
	dir                          string
	ca1, ca2                     *x509.Certificate
	ca1Key, ca2Key               *ecdsa.PrivateKey
	ca1File                      string
	srvCert, srvKey              string // paths
	srv2Cert, srv2Key            string
	clientCA1, clientCA2, selfSg tls.Certificate
	roots                        *x509.CertPool
}

func vfMkCert(serial int64, cn string, isCA bool, parent *x509.Certificate, parentKey *ecdsa.PrivateKey, client bool) ([]byte, *ecdsa.PrivateKey, *x509.Certificate) {
	key, _ := ecdsa.GenerateKey(elliptic.P256(), rand.Reader)
	tpl := &x509.Certificate{SerialNumber: big.NewInt(serial), Subject: pkix.Name{CommonName: cn}, NotBefore: time.Now().Add(-time.Hour), NotAfter: time.Now().Add(24 * time.Hour),
		KeyUsage: x509.KeyUsageDigitalSignature, BasicConstraintsValid: true, IsCA: isCA, IPAddresses: []net.IP{net.ParseIP("127.0.0.1")}, DNSNames: []string{"localhost"}}
	if isCA {
		tpl.KeyUsage |= x509.KeyUsageCertSign
	}
	if isCA {
		// no extended key usage on CA certificates: it would constrain what they can issue
	} else if client {
		tpl.ExtKeyUsage = []x509.ExtKeyUsage{x509.ExtKeyUsageClientAuth}
	} else {
		tpl.ExtKeyUsage = []x509.ExtKeyUsage{x509.ExtKeyUsageServerAuth}
	}
	if parent == nil {
		parent, parentKey = tpl, key
	}
	der, _ := x509.CreateCertificate(rand.Reader, tpl, parent, &key.PublicKey, parentKey)
	c, _ := x509.ParseCertificate(der)
	return der, key, c
}

func vfWritePEM(path string, typ string, der []byte) {
	os.WriteFile(path, pem.EncodeToMemory(&pem.Block{Type: typ, Bytes: der}), 0600)
}

func vfKeyDER(k *ecdsa.PrivateKey) []byte { b, _ := x509.MarshalECPrivateKey(k); return b }

func vfNewPKI() (*vfPKI, error) {
	dir, err := os.MkdirTemp(os.Getenv("VERIF_SCRATCH_DIR"), "pki")
	if err != nil {
		return nil, err
	}
	p := &vfPKI{dir: dir}
	var d []byte
	d, p.ca1Key, p.ca1 = vfMkCert(1, "verif CA1", true, nil, nil, false)
	p.ca1File = filepath.Join(dir, "ca1.pem")
	vfWritePEM(p.ca1File, "CERTIFICATE", d)
	_, p.ca2Key, p.ca2 = vfMkCert(2, "verif CA2", true, nil, nil, false)
	mkSrv := func(serial int64, name string) (string, string) {
		der, key, _ := vfMkCert(serial, name, false, p.ca1, p.ca1Key, false)
		cf, kf := filepath.Join(dir, name+".pem"), filepath.Join(dir, name+".key")
		vfWritePEM(cf, "CERTIFICATE", der)
		vfWritePEM(kf, "EC PRIVATE KEY", vfKeyDER(key))
		return cf, kf
	}
	p.srvCert, p.srvKey = mkSrv(100, "server-one")
	p.srv2Cert, p.srv2Key = mkSrv(200, "server-two")
	mkCl := func(serial int64, ca *x509.Certificate, caKey *ecdsa.PrivateKey) tls.Certificate {
		der, key, _ := vfMkCert(serial, "client", false, ca, caKey, true)
		return tls.Certificate{Certificate: [][]byte{der}, PrivateKey: key}
	}
	p.clientCA1 = mkCl(301, p.ca1, p.ca1Key)
	p.clientCA2 = mkCl(302, p.ca2, p.ca2Key)
	p.selfSg = mkCl(303, nil, nil)
	p.roots = x509.NewCertPool()
	p.roots.AddCert(p.ca1)
	return p, nil
}

// vfTLSNull dials with the given client settings and performs a NULL RPC.
// Returns (completed, negotiated version, server cert serial).
// vfTLSNoSNI makes vfTLSNull dial like a client that addresses the server by IP literal: no
// server_name extension is sent; the chain is verified by hand against the same roots.
var vfTLSNoSNI bool

func vfTLSNull(port int, roots *x509.CertPool, minV, maxV uint16, cert *tls.Certificate, recordMarking bool) (bool, uint16, int64, error) {
	cfg := &tls.Config{RootCAs: roots, ServerName: "localhost", MinVersion: minV, MaxVersion: maxV}
	if vfTLSNoSNI {
		cfg.ServerName = ""
		cfg.InsecureSkipVerify = true
		cfg.VerifyPeerCertificate = func(raw [][]byte, _ [][]*x509.Certificate) error {
			if len(raw) == 0 {
				return fmt.Errorf("no server certificate")
			}
			c, err := x509.ParseCertificate(raw[0])
			if err != nil {
				return err
			}
			_, err = c.Verify(x509.VerifyOptions{Roots: roots, KeyUsages: []x509.ExtKeyUsage{x509.ExtKeyUsageServerAuth}})
			return err
		}
	}
	if cert != nil {
		// present this certificate whatever CAs the server says it accepts (a Go client
		// would otherwise silently send none when the issuer is not on the list)
		cfg.GetClientCertificate = func(*tls.CertificateRequestInfo) (*tls.Certificate, error) { return cert, nil }
	}
	d := &net.Dialer{Timeout: 10 * time.Second}
	conn, err := tls.DialWithDialer(d, "tcp", fmt.Sprintf("127.0.0.1:%d", port), cfg)
	if err != nil {
		return false, 0, 0, err
	}
	defer conn.Close()
	st := conn.ConnectionState()
	var serial int64
	if len(st.PeerCertificates) > 0 {
		serial = st.PeerCertificates[0].SerialNumber.Int64()
	}
	conn.SetDeadline(time.Now().Add(15 * time.Second))
	msg := xdrw.CallHeader(4711, vfProgNFS, 3, 0, xdrw.Cred{})
	if recordMarking {
		msg = xdrw.Record(msg)
	}
	if _, err := conn.Write(msg); err != nil {
		return false, st.Version, serial, err
	}
	need := 24
	if recordMarking {
		need = 28
	}
	buf := make([]byte, need)
	if _, err := io.ReadFull(conn, buf); err != nil {
		return false, st.Version, serial, err
	}
	if recordMarking {
		buf = buf[4:]
	}
	rep, derr := rfc.DecodeReply(buf)
	return derr == nil && rep.XID == 4711, st.Version, serial, nil
}

func TestVerif_C30(t *testing.T) {
	rec := evid.New("C30")
	rec.Rule = "keys and certificates generated at check time (two CAs, two server certs, client certs signed by each CA and self-signed); server MinVersion in {0,1.0,1.1,1.2,1.3} x MaxVersion in {0,1.1,1.2,1.3} x 5 ClientAuth values x CA {none, CA1} x cipher list {default, TLS1.2 subset}; clients pinned to each of TLS 1.0-1.3 x {no cert, self-signed, CA1, CA2}; certificate rotation through GetExportOptions().TLS.ReloadCertificates(); distinct = (server config class, client version, client cert, completed) tuples"
	defer rec.Write()
	pki, err := vfNewPKI()
	if err != nil {
		rec.Infra(err.Error())
		return
	}
	defer os.RemoveAll(pki.dir)
	// The host's trust store is part of the environment: make it deterministic and hostile. It
	// holds exactly CA2 - a CA the server was never configured with. A client certificate issued by
	// CA2 must be refused whatever the host trusts for other purposes. (Has to happen before
	// anything in this process loads the system pool; the clients pass explicit roots.)
	sysBundle := filepath.Join(pki.dir, "host-trust-store.pem")
	vfWritePEM(sysBundle, "CERTIFICATE", pki.ca2.Raw)
	emptyDir := filepath.Join(pki.dir, "empty-cert-dir")
	os.Mkdir(emptyDir, 0700)
	os.Setenv("SSL_CERT_FILE", sysBundle)
	os.Setenv("SSL_CERT_DIR", emptyDir)
	rec.Set("host_trust_store", "exactly CA2 (SSL_CERT_FILE), which no server configuration names")
	mins := []uint16{0, tls.VersionTLS10, tls.VersionTLS11, tls.VersionTLS12, tls.VersionTLS13}
	maxs := []uint16{0, tls.VersionTLS11, tls.VersionTLS12, tls.VersionTLS13}
	auths := []tls.ClientAuthType{tls.NoClientCert, tls.RequestClientCert, tls.RequireAnyClientCert, tls.VerifyClientCertIfGiven, tls.RequireAndVerifyClientCert}
	clientVers := []uint16{tls.VersionTLS10, tls.VersionTLS11, tls.VersionTLS12, tls.VersionTLS13}
	clientCerts := []struct {
		name string
		c    *tls.Certificate
	}{{"none", nil}, {"self-signed", &pki.selfSg}, {"CA1", &pki.clientCA1}, {"CA2", &pki.clientCA2}}
	n := 0
	for _, minV := range mins {
		for _, maxV := range maxs {
			for ai, auth := range auths {
				for _, withCA := range []bool{false, true} {
					for _, subset := range []bool{false, true} {
						n++
						if evid.Tier() == "quick" && (n+ai)%3 != 0 && !(auth == tls.RequireAndVerifyClientCert && withCA && minV <= tls.VersionTLS12 && !subset) {
							continue
						}
						tc := &TLSConfig{Enabled: true, CertFile: pki.srvCert, KeyFile: pki.srvKey, ClientAuth: auth, MinVersion: minV, MaxVersion: maxV}
						if withCA {
							tc.CAFile = pki.ca1File
						}
						if subset {
							tc.CipherSuites = []uint16{tls.TLS_ECDHE_ECDSA_WITH_AES_128_GCM_SHA256, tls.TLS_ECDHE_ECDSA_WITH_AES_256_GCM_SHA384}
						}
						vfC30Config(rec, pki, tc, clientVers, clientCerts)
					}
				}
			}
		}
	}
	vfC30Rotation(rec, pki)
	vfC30Relisten(rec, pki)
	vfC30TLSOnlyUpdate(rec, pki)
	vfC30ChainRotation(rec, pki)
}

func vfC30Start(tc *TLSConfig) (*AbsfsNFS, *Server, error) {
	fs := refs.New()
	n, err := New(fs, ExportOptions{TLS: tc})
	if err != nil {
		return nil, nil, err
	}
	vfQuiet(n)
	s, err := NewServer(ServerOptions{Hostname: "127.0.0.1", UseRecordMarking: true})
	if err != nil {
		return nil, nil, err
	}
	s.logger.SetOutput(io.Discard)
	s.SetHandler(n)
	if err := s.Listen(); err != nil {
		n.Close()
		return nil, nil, err
	}
	return n, s, nil
}

func vfC30Config(rec *evid.Rec, pki *vfPKI, tc *TLSConfig, clientVers []uint16, clientCerts []struct {
	name string
	c    *tls.Certificate
}) {
	desc := fmt.Sprintf("min=%#x max=%#x auth=%s ca=%v ciphers=%d", tc.MinVersion, tc.MaxVersion, tc.GetClientAuthString(), tc.CAFile != "", len(tc.CipherSuites))
	evid.Journal(desc)
	n, s, err := vfC30Start(tc)
	if err != nil {
		rec.Distinct("config-refused|" + fmt.Sprintf("min=%#x max=%#x", tc.MinVersion, tc.MaxVersion))
		rec.Eval(1)
		return // a configuration the server does not accept is outside the property
	}
	defer func() { s.Stop(); n.Close() }()
	port := s.GetPort()
	for _, cv := range clientVers {
		for _, cc := range clientCerts {
			rec.Eval(1)
			done, ver, _, _ := vfTLSNull(port, pki.roots, cv, cv, cc.c, true)
			cdesc := fmt.Sprintf("%s client: version %#x cert %s", desc, cv, cc.name)
			if done {
				if ver < tls.VersionTLS12 {
					rec.Violate(fmt.Sprintf("C30/handshake-completed-below-tls12/version=%#x", ver), cdesc, nil)
				}
				if tc.MinVersion != 0 && ver < tc.MinVersion || tc.MaxVersion != 0 && ver > tc.MaxVersion {
					rec.Violate("C30/handshake-outside-configured-version-range", fmt.Sprintf("%s negotiated %#x", cdesc, ver), nil)
				}
				verified := tc.CAFile != "" && (tc.ClientAuth == tls.RequireAndVerifyClientCert || tc.ClientAuth == tls.VerifyClientCertIfGiven && cc.c != nil)
				if verified && cc.name != "CA1" {
					rec.Violate("C30/client-without-ca-signed-certificate-served/auth="+tc.GetClientAuthString()+"/client-cert="+cc.name, cdesc, nil)
				}
			}
			rec.Distinct(fmt.Sprintf("min>=1.2:%v|max:%#x|auth=%s|ca=%v|client-ver=%#x|cert=%s|completed=%v", tc.MinVersion >= tls.VersionTLS12 || tc.MinVersion == 0, tc.MaxVersion, tc.GetClientAuthString(), tc.CAFile != "", cv, cc.name, done))
		}
	}
}

func vfC30Rotation(rec *evid.Rec, pki *vfPKI) {
	// The rotation step is "ReloadCertificates on the TLS settings returned by GetExportOptions".
	// Scenarios vary WHEN those settings were obtained (after Listen, or before it), WHAT happened
	// to the server between Listen and the rotation (nothing, or one of the runtime updates, each
	// fed what the server itself reports), and rotate twice (100 -> 200 -> 100).
	between := []string{"nothing", "UpdateExportOptions", "UpdateTuningOptions", "UpdatePolicyOptions", "GetExportOptions-called-earlier"}
	for _, fetched := range []string{"after-Listen", "before-Listen"} {
		for _, btw := range between {
			vfC30RotationScenario(rec, pki, fetched, btw)
		}
	}
}

// vfC30Relisten: the listener is stopped and started again on the same AbsfsNFS (a new Server, or
// Unexport/Export) after the CA file's content was replaced: the restarted listener verifies client
// certificates against the CA that is configured NOW (the file's current content).
func vfC30Relisten(rec *evid.Rec, pki *vfPKI) {
	caPath := filepath.Join(pki.dir, "live-ca.pem")
	b, _ := os.ReadFile(pki.ca1File)
	os.WriteFile(caPath, b, 0600)
	fs := refs.New()
	n, err := New(fs, ExportOptions{TLS: &TLSConfig{Enabled: true, CertFile: pki.srvCert, KeyFile: pki.srvKey, CAFile: caPath, ClientAuth: tls.RequireAndVerifyClientCert, MinVersion: tls.VersionTLS12, MaxVersion: tls.VersionTLS13}})
	if err != nil {
		rec.Infra("relisten setup: " + err.Error())
		return
	}
	vfQuiet(n)
	defer n.Close()
	start := func() *Server {
		s, err := NewServer(ServerOptions{Hostname: "127.0.0.1", UseRecordMarking: true})
		if err != nil {
			rec.Set("relisten_start_error", err.Error())
			return nil
		}
		s.logger.SetOutput(io.Discard)
		s.SetHandler(n)
		if err := s.Listen(); err != nil {
			rec.Set("relisten_start_error", err.Error())
			return nil
		}
		return s
	}
	s1 := start()
	if s1 == nil {
		rec.Inconclusive(1)
		return
	}
	ok1, _, _, _ := vfTLSNull(s1.GetPort(), pki.roots, tls.VersionTLS12, tls.VersionTLS13, &pki.clientCA1, true)
	bad1, _, _, _ := vfTLSNull(s1.GetPort(), pki.roots, tls.VersionTLS12, tls.VersionTLS13, &pki.clientCA2, true)
	s1.Stop()
	if !ok1 || bad1 {
		rec.Distinct("relisten|first-listener-unexpected")
		return // the matrix above judges a single listener
	}
	// the administrator replaces the CA: clients of CA2 from now on
	vfWritePEM(caPath, "CERTIFICATE", pki.ca2.Raw)
	s2 := start()
	if s2 == nil {
		rec.Inconclusive(1)
		return
	}
	defer s2.Stop()
	rec.Eval(2)
	oldServed, _, _, _ := vfTLSNull(s2.GetPort(), pki.roots, tls.VersionTLS12, tls.VersionTLS13, &pki.clientCA1, true)
	newServed, _, _, nerr := vfTLSNull(s2.GetPort(), pki.roots, tls.VersionTLS12, tls.VersionTLS13, &pki.clientCA2, true)
	if oldServed {
		rec.Violate("C30/client-without-ca-signed-certificate-served/restarted-listener-uses-the-replaced-ca", "the CA file was replaced (CA1 -> CA2) and the listener restarted on the same AbsfsNFS: a client whose certificate chains to the REPLACED CA1 is served", nil)
	}
	if !newServed {
		rec.Violate("C30/client-of-the-configured-ca-refused/restarted-listener", fmt.Sprintf("after the CA file was replaced and the listener restarted, a client of the CA now in the file is refused: %v", nerr), nil)
	}
	rec.Distinct(fmt.Sprintf("relisten|old-ca-served=%v|new-ca-served=%v", oldServed, newServed))
}

func vfC30RotationScenario(rec *evid.Rec, pki *vfPKI, fetched, btw string) {
	name := "fetched=" + fetched + "/between=" + btw
	evid.Journal("rotation " + name)
	certPath, keyPath := filepath.Join(pki.dir, "live.pem"), filepath.Join(pki.dir, "live.key")
	cp := func(src, dst string) { b, _ := os.ReadFile(src); os.WriteFile(dst, b, 0600) }
	cp(pki.srvCert, certPath)
	cp(pki.srvKey, keyPath)
	fs := refs.New()
	n, err := New(fs, ExportOptions{TLS: &TLSConfig{Enabled: true, CertFile: certPath, KeyFile: keyPath, MinVersion: tls.VersionTLS12, MaxVersion: tls.VersionTLS13}})
	if err != nil {
		rec.Infra("rotation setup: " + err.Error())
		return
	}
	vfQuiet(n)
	var early *TLSConfig
	if fetched == "before-Listen" {
		early = n.GetExportOptions().TLS
	}
	s, err := NewServer(ServerOptions{Hostname: "127.0.0.1", UseRecordMarking: true})
	if err != nil {
		rec.Infra("rotation setup: " + err.Error())
		return
	}
	s.logger.SetOutput(io.Discard)
	s.SetHandler(n)
	if err := s.Listen(); err != nil {
		n.Close()
		rec.Infra("rotation setup: " + err.Error())
		return
	}
	defer func() { s.Stop(); n.Close() }()
	port := s.GetPort()
	done, _, serial, err := vfTLSNull(port, pki.roots, tls.VersionTLS12, tls.VersionTLS13, nil, true)
	if !done || serial != 100 {
		rec.Infra(fmt.Sprintf("rotation %s: initial handshake done=%v serial=%d err=%v", name, done, serial, err))
		return
	}
	switch btw {
	case "UpdateExportOptions":
		o := n.GetExportOptions()
		o.TransferSize = 32768
		if err := n.UpdateExportOptions(o); err != nil {
			rec.Infra("rotation " + name + ": " + err.Error())
			return
		}
	case "UpdateTuningOptions":
		n.UpdateTuningOptions(func(t *TuningOptions) { t.TransferSize = 32768 })
	case "UpdatePolicyOptions":
		p := *n.policy.Load()
		p.MaxFileSize = 1 << 30
		if err := n.UpdatePolicyOptions(p); err != nil {
			rec.Infra("rotation " + name + ": " + err.Error())
			return
		}
	case "GetExportOptions-called-earlier":
		_ = n.GetExportOptions()
		_ = n.GetExportOptions().TLS
	}
	want := []struct {
		cert, key string
		serial    int64
	}{{pki.srv2Cert, pki.srv2Key, 200}, {pki.srvCert, pki.srvKey, 100}}
	for round, w := range want {
		cp(w.cert, certPath)
		cp(w.key, keyPath)
		tlsOpts := early
		if tlsOpts == nil {
			tlsOpts = n.GetExportOptions().TLS
		}
		if tlsOpts == nil {
			rec.Violate("C30/rotation/GetExportOptions-returns-no-TLS-settings", name, nil)
			return
		}
		if err := tlsOpts.ReloadCertificates(); err != nil {
			rec.Violate("C30/rotation/ReloadCertificates-failed", name+": "+err.Error(), nil)
			return
		}
		rec.Eval(2)
		// a client that names the server (SNI) and one that dials the IP literal (no SNI): both
		// are new handshakes and both see the reloaded certificate
		vfTLSNoSNI = true
		nsDone, _, nsSerial, nsErr := vfTLSNull(port, pki.roots, tls.VersionTLS12, tls.VersionTLS13, nil, true)
		vfTLSNoSNI = false
		if nsDone && int64(nsSerial) != w.serial {
			rec.Violate("C30/rotation/new-handshake-presents-old-certificate/client-without-server-name", fmt.Sprintf("%s round %d: a client that sends no server_name (it dials the IP address) is presented serial %d after the reload, the reloaded certificate has %d", name, round+1, nsSerial, w.serial), nil)
		} else if !nsDone {
			rec.Violate("C30/rotation/handshake-fails-after-reload/client-without-server-name", fmt.Sprintf("%s round %d: %v", name, round+1, nsErr), nil)
		}
		done, _, serial, err = vfTLSNull(port, pki.roots, tls.VersionTLS12, tls.VersionTLS13, nil, true)
		if !done {
			rec.Violate("C30/rotation/handshake-fails-after-reload", fmt.Sprintf("%s round %d: %v", name, round+1, err), nil)
		} else if int64(serial) != w.serial {
			sig := "C30/rotation/new-handshake-presents-old-certificate"
			if fetched != "after-Listen" || btw != "nothing" {
				sig += "/" + name
			}
			rec.Violate(sig, fmt.Sprintf("%s round %d: after overwriting the certificate files and calling ReloadCertificates() on the TLS settings returned by GetExportOptions, a new handshake presents serial %d, the reloaded certificate has %d", name, round+1, serial, w.serial), nil)
		}
		rec.Distinct(fmt.Sprintf("rotation|%s|round=%d|reloaded-served=%v", name, round+1, int64(serial) == w.serial))
	}
	rec.Sample(map[string]any{"rotation": name + ": serial 100 -> files overwritten (200) -> ReloadCertificates -> handshake -> files overwritten (100) -> ReloadCertificates -> handshake"})
}

// vfC30TLSOnlyUpdate: TLS is on without client verification; a runtime update changes nothing but
// the TLS settings (client certificates now required, verified against CA1); the listener is then
// restarted on the same AbsfsNFS. If the update call reported success, the new requirement is in
// force: a client without a certificate, or with one from another CA, is not served, and
// GetExportOptions reports what was set.
func vfC30TLSOnlyUpdate(rec *evid.Rec, pki *vfPKI) {
	for _, via := range []string{"UpdateExportOptions", "UpdatePolicyOptions"} {
		fs := refs.New()
		base := &TLSConfig{Enabled: true, CertFile: pki.srvCert, KeyFile: pki.srvKey, MinVersion: tls.VersionTLS12, MaxVersion: tls.VersionTLS13}
		n, err := New(fs, ExportOptions{TLS: base})
		if err != nil {
			rec.Infra("tls-only-update setup: " + err.Error())
			return
		}
		vfQuiet(n)
		start := func() *Server {
			s, err := NewServer(ServerOptions{Hostname: "127.0.0.1", UseRecordMarking: true})
			if err != nil {
				return nil
			}
			s.logger.SetOutput(io.Discard)
			s.SetHandler(n)
			if err := s.Listen(); err != nil {
				return nil
			}
			return s
		}
		s1 := start()
		if s1 == nil {
			rec.Inconclusive(1)
			n.Close()
			continue
		}
		open1, _, _, _ := vfTLSNull(s1.GetPort(), pki.roots, tls.VersionTLS12, tls.VersionTLS13, nil, true)
		s1.Stop()
		if !open1 {
			rec.Distinct("tls-only-update|" + via + "|first-listener-unexpected")
			n.Close()
			continue
		}
		strict := &TLSConfig{Enabled: true, CertFile: pki.srvCert, KeyFile: pki.srvKey, CAFile: pki.ca1File, ClientAuth: tls.RequireAndVerifyClientCert, MinVersion: tls.VersionTLS12, MaxVersion: tls.VersionTLS13}
		var uerr error
		if via == "UpdateExportOptions" {
			o := n.GetExportOptions()
			o.TLS = strict
			uerr = n.UpdateExportOptions(o)
		} else {
			p := *n.policy.Load()
			p.TLS = strict
			uerr = n.UpdatePolicyOptions(p)
		}
		if uerr != nil {
			// refused as a whole: nothing to demand of the new listener
			rec.Distinct("tls-only-update|" + via + "|update-refused")
			n.Close()
			continue
		}
		s2 := start()
		if s2 == nil {
			rec.Inconclusive(1)
			n.Close()
			continue
		}
		rec.Eval(3)
		noCert, _, _, _ := vfTLSNull(s2.GetPort(), pki.roots, tls.VersionTLS12, tls.VersionTLS13, nil, true)
		otherCA, _, _, _ := vfTLSNull(s2.GetPort(), pki.roots, tls.VersionTLS12, tls.VersionTLS13, &pki.clientCA2, true)
		rightCA, _, _, rerr := vfTLSNull(s2.GetPort(), pki.roots, tls.VersionTLS12, tls.VersionTLS13, &pki.clientCA1, true)
		if noCert || otherCA {
			rec.Violate("C30/client-without-ca-signed-certificate-served/after-a-runtime-update-of-the-tls-settings-only/"+via, fmt.Sprintf("%s (accepted) changed only the TLS settings to RequireAndVerifyClientCert with CA1; the listener was restarted: client without certificate served: %v, client of CA2 served: %v", via, noCert, otherCA), nil)
		}
		if !rightCA {
			rec.Violate("C30/client-of-the-configured-ca-refused/after-a-runtime-update-of-the-tls-settings-only/"+via, fmt.Sprintf("a client of CA1 is refused: %v", rerr), nil)
		}
		if got := n.GetExportOptions().TLS; got == nil || got.ClientAuth != tls.RequireAndVerifyClientCert {
			rec.Violate("C30/accepted-tls-update-not-reported/"+via, fmt.Sprintf("GetExportOptions().TLS after the accepted update: %+v", got), nil)
		}
		rec.Distinct(fmt.Sprintf("tls-only-update|%s|no-cert=%v|other-ca=%v|right-ca=%v", via, noCert, otherCA, rightCA))
		s2.Stop()
		n.Close()
	}
}

// vfC30ChainRotation: the server certificate file holds a chain (leaf + intermediate). The CA
// re-issues its intermediate under another root and ships a new bundle: the SAME leaf followed by
// the new intermediate. After ReloadCertificates has reported success, new handshakes present the
// bundle that is in the file now: a client that trusts only the new root completes its handshake.
func vfC30ChainRotation(rec *evid.Rec, pki *vfPKI) {
	intKey, _ := ecdsa.GenerateKey(elliptic.P256(), rand.Reader)
	mkInt := func(serial int64, root *x509.Certificate, rootKey *ecdsa.PrivateKey) (*x509.Certificate, []byte) {
		tpl := &x509.Certificate{SerialNumber: big.NewInt(serial), Subject: pkix.Name{CommonName: "verif intermediate"}, NotBefore: time.Now().Add(-time.Hour), NotAfter: time.Now().Add(24 * time.Hour),
			KeyUsage: x509.KeyUsageDigitalSignature | x509.KeyUsageCertSign, BasicConstraintsValid: true, IsCA: true}
		der, err := x509.CreateCertificate(rand.Reader, tpl, root, &intKey.PublicKey, rootKey)
		if err != nil {
			return nil, nil
		}
		c, _ := x509.ParseCertificate(der)
		return c, der
	}
	int1, int1DER := mkInt(501, pki.ca1, pki.ca1Key)
	_, int2DER := mkInt(502, pki.ca2, pki.ca2Key)
	if int1 == nil || int2DER == nil {
		rec.Inconclusive(1)
		return
	}
	leafDER, leafKey, _ := vfMkCert(600, "server-chain", false, int1, intKey, false)
	chainFile, keyFile := filepath.Join(pki.dir, "chain.pem"), filepath.Join(pki.dir, "chain.key")
	writeChain := func(intDER []byte) {
		b := pem.EncodeToMemory(&pem.Block{Type: "CERTIFICATE", Bytes: leafDER})
		b = append(b, pem.EncodeToMemory(&pem.Block{Type: "CERTIFICATE", Bytes: intDER})...)
		os.WriteFile(chainFile, b, 0600)
	}
	writeChain(int1DER)
	vfWritePEM(keyFile, "EC PRIVATE KEY", vfKeyDER(leafKey))
	n, s, err := vfC30Start(&TLSConfig{Enabled: true, CertFile: chainFile, KeyFile: keyFile, MinVersion: tls.VersionTLS12, MaxVersion: tls.VersionTLS13})
	if err != nil {
		rec.Set("chain_rotation_start_error", err.Error())
		rec.Inconclusive(1)
		return
	}
	defer func() { s.Stop(); n.Close() }()
	port := s.GetPort()
	roots1, roots2 := x509.NewCertPool(), x509.NewCertPool()
	roots1.AddCert(pki.ca1)
	roots2.AddCert(pki.ca2)
	before1, _, _, _ := vfTLSNull(port, roots1, tls.VersionTLS12, tls.VersionTLS13, nil, true)
	if !before1 {
		rec.Distinct("chain-rotation|first-chain-not-served")
		return // the chain file as such is not served; nothing to learn about its rotation
	}
	writeChain(int2DER)
	tlsOpts := n.GetExportOptions().TLS
	if tlsOpts == nil {
		rec.Inconclusive(1)
		return
	}
	if err := tlsOpts.ReloadCertificates(); err != nil {
		rec.Distinct("chain-rotation|reload-refused")
		return
	}
	rec.Eval(2)
	after2, _, _, err2 := vfTLSNull(port, roots2, tls.VersionTLS12, tls.VersionTLS13, nil, true)
	if !after2 {
		rec.Violate("C30/rotation/new-handshake-presents-old-chain", fmt.Sprintf("the certificate file was replaced by the same leaf with a re-issued intermediate (now chaining to CA2) and ReloadCertificates reported success; a client that trusts only CA2 cannot complete a new handshake: %v", err2), nil)
	}
	rec.Distinct(fmt.Sprintf("chain-rotation|new-root-client-served=%v", after2))
}
