//go:build verif

package absnfs

// All access to unexported identifiers of package absnfs that the monitors
// need is concentrated in this file.

import (
	"runtime"
	"bytes"
	"fmt"
	"io"
	"log"
	"net"
	"os"
	"strings"
	"sync"
	"sync/atomic"
	"time"

	"github.com/absfs/absfs"
	"verif.local/lib/evid"
	"verif.local/lib/refs"
	"verif.local/lib/rfc"
	"verif.local/lib/xdrw"
)

func init() {
	// The package logs through the std logger to stderr; keep the child log small.
	if os.Getenv("VERIF_LOGS") == "" {
		log.SetOutput(io.Discard)
	}
}

type vfSrv struct {
	fs  *refs.FS
	bfs absfs.SymlinkFileSystem
	nfs *AbsfsNFS
	srv *Server
	ph  *NFSProcedureHandler
}

// vfNewSrv builds the same object graph Export()/Listen() build, without a
// listener: AbsfsNFS + Server + NFSProcedureHandler.
func vfNewSrv(fs *refs.FS, opts ExportOptions) (*vfSrv, error) {
	return vfNewSrvOn(fs, fs, opts)
}

func vfNewSrvOn(rf *refs.FS, fs absfs.SymlinkFileSystem, opts ExportOptions) (*vfSrv, error) {
	n, err := New(fs, opts)
	if err != nil {
		return nil, err
	}
	vfQuiet(n)
	s, err := NewServer(ServerOptions{Name: "verif", Hostname: "127.0.0.1", UseRecordMarking: true})
	if err != nil {
		return nil, err
	}
	s.logger = log.New(io.Discard, "", 0)
	s.SetHandler(n)
	return &vfSrv{fs: rf, bfs: fs, nfs: n, srv: s, ph: &NFSProcedureHandler{server: s}}, nil
}

func vfQuiet(n *AbsfsNFS) {
	if os.Getenv("VERIF_LOGS") == "" {
		n.logger = log.New(io.Discard, "", 0)
	}
}

// vfStuckSeen is set once a request was found structurally stuck (see rawCall): shutting such a
// server down would wait for the stuck request for ever, so it is abandoned instead.
var vfStuckSeen atomic.Bool

func (s *vfSrv) Close() {
	if vfStuckSeen.Load() {
		return
	}
	s.nfs.Close()
}

// vfGuardAPI runs an API call on the server object that must come back while nothing else is in
// flight (the caller guarantees that: no request parked at a backend gate, no other update). The
// clock only decides when to look: if the call has not returned after 20 s, two goroutine dumps 2 s
// apart are compared, and only when the calling goroutine sits in a mutex acquisition in both is
// it a verdict (a lock that was never given back): the violation is recorded with StuckMarker,
// which writes the record and ends the process. Anything else is inconclusive (false is returned
// and the caller gives the server up).
func vfGuardAPI(rec *evid.Rec, sig, what string, f func()) bool {
	done := make(chan struct{})
	var pv any
	go func() {
		defer close(done)
		defer func() { pv = recover() }()
		vfGuardedAPICall(f)
	}()
	select {
	case <-done:
		if pv != nil {
			panic(pv)
		}
		return true
	case <-time.After(20 * time.Second):
	}
	waiting := func() string {
		buf := make([]byte, 8<<20)
		buf = buf[:runtime.Stack(buf, true)]
		for _, g := range strings.Split(string(buf), "\n\n") {
			if strings.Contains(g, "vfGuardedAPICall") && (strings.Contains(g, "sync.(*RWMutex)") || strings.Contains(g, "sync.(*Mutex)")) {
				lines := strings.Split(g, "\n")
				return strings.Join(lines[:min64i(len(lines), 14)], "\n")
			}
		}
		return ""
	}
	first := waiting()
	time.Sleep(2 * time.Second)
	second := waiting()
	select {
	case <-done:
		return true
	default:
	}
	if first != "" && second != "" {
		vfStuckSeen.Store(true)
		rec.Violate(sig, what+": the call has not returned and its goroutine sits in a lock acquisition in two goroutine dumps 2 s apart while nothing else is in flight - "+evid.StuckMarker, map[string]any{"goroutine": second})
	}
	rec.Inconclusive(1)
	return false
}

//go:noinline
func vfGuardedAPICall(f func()) { f() }

// vfUpdatesWithoutSquash performs the runtime updates a program makes when it only wants to change
// something else: option literals that do not name Squash at all. The squash mode is fixed at
// construction ("cannot change Squash mode at runtime"); whether the server accepts or refuses these
// calls, the mode in force afterwards must be the configured one. Errors are returned for the record.
func vfUpdatesWithoutSquash(n *AbsfsNFS) []string {
	var out []string
	note := func(what string, err error) {
		if err != nil {
			out = append(out, what+": refused")
		} else {
			out = append(out, what+": accepted")
		}
	}
	note("UpdatePolicyOptions(PolicyOptions{MaxFileSize})", n.UpdatePolicyOptions(PolicyOptions{MaxFileSize: 1 << 40}))
	note("UpdateExportOptions(ExportOptions{TransferSize})", n.UpdateExportOptions(ExportOptions{TransferSize: 65536}))
	o := n.GetExportOptions()
	o.Squash = ""
	o.MaxFileSize = 1 << 41
	note("UpdateExportOptions(GetExportOptions() with Squash cleared)", n.UpdateExportOptions(o))
	return out
}

func vfSetMaxHandles(n *AbsfsNFS, m int) {
	n.fileMap.Lock()
	n.fileMap.maxHandles = m
	n.fileMap.Unlock()
}

func vfNewFileMap(max int) *FileHandleMap {
	return &FileHandleMap{
		handles:     make(map[uint64]absfs.File),
		pathHandles: make(map[string]uint64),
		nextHandle:  1,
		freeHandles: NewUint64MinHeap(),
		maxHandles:  max,
	}
}

func vfNode(fs absfs.SymlinkFileSystem, p string) *NFSNode {
	return &NFSNode{SymlinkFileSystem: fs, path: p, attrs: &NFSAttrs{}}
}

func vfNodePath(f absfs.File) (string, bool) {
	n, ok := f.(*NFSNode)
	if !ok {
		return "", false
	}
	return n.path, true
}

// vfHandleTable returns id->path and path->id under the table's lock.
func vfHandleTable(fm *FileHandleMap) (map[uint64]string, map[string]uint64) {
	fm.RLock()
	defer fm.RUnlock()
	h := map[uint64]string{}
	for id, f := range fm.handles {
		if n, ok := f.(*NFSNode); ok {
			h[id] = n.path
		}
	}
	p := map[string]uint64{}
	for k, v := range fm.pathHandles {
		p[k] = v
	}
	return h, p
}

func vfPolicyPtr(n *AbsfsNFS) *PolicyOptions { return n.policy.Load() }

// vfDraining reports whether a policy update currently holds (or waits for)
// the policy write lock.
func vfDraining(n *AbsfsNFS) bool {
	if n.policyRWMu.TryRLock() {
		n.policyRWMu.RUnlock()
		return false
	}
	return true
}

func vfConnCounts(s *Server) (count int, tracked int) {
	s.connMutex.Lock()
	defer s.connMutex.Unlock()
	return s.connCount, len(s.activeConns)
}

func vfBackdateConns(s *Server, d time.Duration, pred func(net.Conn) bool) int {
	s.connMutex.Lock()
	defer s.connMutex.Unlock()
	n := 0
	for c, st := range s.activeConns {
		if pred == nil || pred(c) {
			st.lastActivity = st.lastActivity.Add(-d)
			n++
		}
	}
	return n
}

// vfIdleByRecord returns the remote addresses of tracked connections whose recorded last activity is
// older than d (read under the server's own lock).
func vfIdleByRecord(s *Server, d time.Duration) map[string]bool {
	s.connMutex.Lock()
	defer s.connMutex.Unlock()
	out := map[string]bool{}
	for c, st := range s.activeConns {
		if time.Since(st.lastActivity) > d {
			out[c.RemoteAddr().String()] = true
		}
	}
	return out
}

// ---------------- call transport over HandleCall ----------------

type vfShapeErr struct{ msg string }

func (e *vfShapeErr) Error() string { return e.msg }

type vfClient struct {
	s    *vfSrv
	IP   string
	Port int
	Cred xdrw.Cred
	mu   sync.Mutex
	xid  uint32
	// PreParsed, when set, is handed to HandleCall as AuthContext.AuthSys.
	PreParsed *AuthSysCredential
	LastCtx   *AuthContext
	// BodyWrap, when set, wraps the reader the handler decodes its arguments from (a slow or
	// segmented client: the arguments arrive while the request is already admitted).
	BodyWrap func(io.Reader) io.Reader
}

func vfRootCred() xdrw.Cred { return xdrw.AuthSys(1, "verif", 0, 0, nil) }

func (s *vfSrv) client() *vfClient {
	return &vfClient{s: s, IP: "127.0.0.1", Port: 700, Cred: vfRootCred(), xid: 1000}
}

const (
	vfProgNFS   = 100003
	vfProgMount = 100005
)

// rawCall sends prog/vers/proc with the given argument bytes exactly the way
// the record-marking connection loop does: the whole message is decoded with
// DecodeRPCCall, the remainder is the body reader, HandleCall runs, and the
// reply is encoded with EncodeRPCReply. Returns the reply bytes.
func (c *vfClient) rawCall(prog, vers, proc uint32, args []byte) (uint32, []byte, error) {
	c.mu.Lock()
	c.xid++
	xid := c.xid
	c.mu.Unlock()
	msg := append(xdrw.CallHeader(xid, prog, vers, proc, c.Cred), args...)
	rd := bytes.NewReader(msg)
	call, err := DecodeRPCCall(rd)
	if err != nil {
		return xid, nil, fmt.Errorf("DecodeRPCCall: %w", err)
	}
	var body io.Reader = bytes.NewReader(msg[len(msg)-rd.Len():])
	if c.BodyWrap != nil {
		body = c.BodyWrap(body)
	}
	ctx := &AuthContext{ClientIP: c.IP, ClientPort: c.Port, Credential: &call.Credential, AuthSys: c.PreParsed}
	c.LastCtx = ctx
	t0 := time.Now()
	reply, err := c.s.ph.HandleCall(call, body, ctx)
	if err != nil {
		if el := time.Since(t0); el >= 5*time.Second && strings.Contains(err.Error(), "timed out") {
			// ... unless the request is structurally stuck: handler goroutines that sit in a lock
			// acquisition, the very same ones again two seconds later. That is a deadlock (or a
			// lock that was never given back), a verdict for whichever monitor sent the request.
			first := vfC29LockWaiters()
			if len(first) > 0 {
				time.Sleep(2 * time.Second)
				second := vfC29LockWaiters()
				for id, st := range second {
					if _, was := first[id]; was {
						vfStuckSeen.Store(true)
						return xid, nil, fmt.Errorf("HandleCall: %w - "+evid.StuckMarker+": a handler goroutine has been waiting for a lock in two goroutine dumps 2 s apart (deadlock or a lock never released): %s", err, strings.SplitN(st, "\n", 6)[min64i(4, len(strings.SplitN(st, "\n", 6))-1)])
					}
				}
			}
			// the server's own wall-clock timeout (30 s by default) expired on a request that got at
			// least 5 s: on a loaded machine that is no verdict about anything but the clock.
			// evid records a violation carrying this marker as an inconclusive episode instead.
			return xid, nil, fmt.Errorf("HandleCall: %w [%s after %.1fs]", err, evid.WallClockMarker, el.Seconds())
		}
		return xid, nil, fmt.Errorf("HandleCall: %w", err)
	}
	var buf bytes.Buffer
	if err := EncodeRPCReply(&buf, reply); err != nil {
		return xid, nil, fmt.Errorf("EncodeRPCReply: %w", err)
	}
	return xid, buf.Bytes(), nil
}

// nfs performs an NFSv3 call and strictly decodes the reply.
func (c *vfClient) nfs(proc uint32, args []byte) (*rfc.Reply, *rfc.Res, error) {
	xid, raw, err := c.rawCall(vfProgNFS, 3, proc, args)
	if err != nil {
		return nil, nil, err
	}
	rep, err := rfc.DecodeReply(raw)
	if err != nil {
		return nil, nil, &vfShapeErr{fmt.Sprintf("rpc reply: %v", err)}
	}
	if rep.XID != xid {
		return rep, nil, &vfShapeErr{fmt.Sprintf("xid %d != %d", rep.XID, xid)}
	}
	if rep.Denied || rep.AcceptStat != 0 {
		return rep, nil, nil
	}
	res, err := rfc.DecodeNFS(proc, rep.Body)
	if err != nil {
		return rep, res, &vfShapeErr{fmt.Sprintf("proc %d result: %v", proc, err)}
	}
	return rep, res, nil
}

func (c *vfClient) mount(proc uint32, args []byte) (*rfc.Reply, *rfc.MountRes, error) {
	xid, raw, err := c.rawCall(vfProgMount, 3, proc, args)
	if err != nil {
		return nil, nil, err
	}
	rep, err := rfc.DecodeReply(raw)
	if err != nil {
		return nil, nil, &vfShapeErr{fmt.Sprintf("rpc reply: %v", err)}
	}
	if rep.XID != xid {
		return rep, nil, &vfShapeErr{fmt.Sprintf("xid %d != %d", rep.XID, xid)}
	}
	if rep.Denied || rep.AcceptStat != 0 {
		return rep, nil, nil
	}
	res, err := rfc.DecodeMount(proc, rep.Body)
	if err != nil {
		return rep, res, &vfShapeErr{fmt.Sprintf("mount proc %d result: %v", proc, err)}
	}
	return rep, res, nil
}

func vfFH(b []byte) uint64 {
	if len(b) != 8 {
		return 0
	}
	var v uint64
	for _, x := range b {
		v = v<<8 | uint64(x)
	}
	return v
}

// mnt mounts "/" and returns the root handle.
func (c *vfClient) mnt(p string) (uint64, error) {
	_, res, err := c.mount(1, (&xdrw.W{}).Str(p).B)
	if err != nil {
		return 0, err
	}
	if res == nil || res.Status != 0 {
		return 0, fmt.Errorf("MNT %q failed: %+v", p, res)
	}
	return vfFH(res.FH), nil
}

// simple typed wrappers; res may be nil when the RPC layer rejected the call.
func (c *vfClient) getattr(h uint64) (*rfc.Res, error) {
	_, r, err := c.nfs(1, xdrw.ArgFH(h))
	return r, err
}
func (c *vfClient) setattr(h uint64, s xdrw.Sattr3) (*rfc.Res, error) {
	_, r, err := c.nfs(2, xdrw.ArgSetattr(h, s, false, 0, 0))
	return r, err
}
func (c *vfClient) lookup(h uint64, name string) (*rfc.Res, error) {
	_, r, err := c.nfs(3, xdrw.ArgDirop(h, name))
	return r, err
}
func (c *vfClient) access(h uint64, mask uint32) (*rfc.Res, error) {
	_, r, err := c.nfs(4, xdrw.ArgAccess(h, mask))
	return r, err
}
func (c *vfClient) readlink(h uint64) (*rfc.Res, error) {
	_, r, err := c.nfs(5, xdrw.ArgFH(h))
	return r, err
}
func (c *vfClient) read(h uint64, off uint64, count uint32) (*rfc.Res, error) {
	_, r, err := c.nfs(6, xdrw.ArgRead(h, off, count))
	return r, err
}
func (c *vfClient) write(h uint64, off uint64, stable uint32, data []byte) (*rfc.Res, error) {
	_, r, err := c.nfs(7, xdrw.ArgWrite(h, off, uint32(len(data)), stable, data))
	return r, err
}
func (c *vfClient) create(h uint64, name string, how uint32, s xdrw.Sattr3, verf [8]byte) (*rfc.Res, error) {
	_, r, err := c.nfs(8, xdrw.ArgCreate(h, name, how, s, verf))
	return r, err
}
func (c *vfClient) mkdir(h uint64, name string, s xdrw.Sattr3) (*rfc.Res, error) {
	_, r, err := c.nfs(9, xdrw.ArgMkdir(h, name, s))
	return r, err
}
func (c *vfClient) symlink(h uint64, name, target string, s xdrw.Sattr3) (*rfc.Res, error) {
	_, r, err := c.nfs(10, xdrw.ArgSymlink(h, name, s, target))
	return r, err
}
func (c *vfClient) remove(h uint64, name string) (*rfc.Res, error) {
	_, r, err := c.nfs(12, xdrw.ArgDirop(h, name))
	return r, err
}
func (c *vfClient) rmdir(h uint64, name string) (*rfc.Res, error) {
	_, r, err := c.nfs(13, xdrw.ArgDirop(h, name))
	return r, err
}
func (c *vfClient) rename(fh uint64, fn string, th uint64, tn string) (*rfc.Res, error) {
	_, r, err := c.nfs(14, xdrw.ArgRename(fh, fn, th, tn))
	return r, err
}
func (c *vfClient) readdir(h, cookie uint64, count uint32) (*rfc.Res, error) {
	_, r, err := c.nfs(16, xdrw.ArgReaddir(h, cookie, [8]byte{}, count))
	return r, err
}
func (c *vfClient) readdirplus(h, cookie uint64, dircount, maxcount uint32) (*rfc.Res, error) {
	_, r, err := c.nfs(17, xdrw.ArgReaddirplus(h, cookie, [8]byte{}, dircount, maxcount))
	return r, err
}
func (c *vfClient) fsinfo(h uint64) (*rfc.Res, error) {
	_, r, err := c.nfs(19, xdrw.ArgFH(h))
	return r, err
}
func (c *vfClient) commit(h, off uint64, count uint32) (*rfc.Res, error) {
	_, r, err := c.nfs(21, xdrw.ArgCommit(h, off, count))
	return r, err
}

// vfFileID is the fileid the server derives for a path (FNV-1a of the path),
// recomputed independently.
func vfFileID(p string) uint64 {
	h := uint64(14695981039346656037)
	for i := 0; i < len(p); i++ {
		h ^= uint64(p[i])
		h *= 1099511628211
	}
	return h
}

var sattrNone = xdrw.Sattr3{}

type rfcRes = rfc.Res

func vfCacheHits(n *AbsfsNFS) (attr, dir, neg uint64) {
	m := n.metrics
	if m == nil {
		return
	}
	m.mutex.RLock()
	defer m.mutex.RUnlock()
	return m.attrCacheHits, m.dirCacheHits, m.negativeCacheHits
}

// ---------------- the real connection loop over net.Pipe ----------------

type vfAddrConn struct {
	net.Conn
	remote net.Addr
}

func (c *vfAddrConn) RemoteAddr() net.Addr { return c.remote }

type vfPipe struct {
	c    net.Conn
	done chan struct{}
	xid  uint32
}

// pipe starts the server's real record-marking connection loop on one end of
// a net.Pipe and returns the client end. The server sees the given TCP peer.
func (s *vfSrv) pipe(ip string, port int) *vfPipe {
	cl, sv := net.Pipe()
	wrapped := &vfAddrConn{Conn: sv, remote: &net.TCPAddr{IP: net.ParseIP(ip), Port: port}}
	p := &vfPipe{c: cl, done: make(chan struct{}), xid: 5000}
	go func() {
		defer close(p.done)
		s.srv.handleConnectionWithRecordMarking(wrapped, s.ph)
	}()
	return p
}

func (p *vfPipe) close() {
	p.c.Close()
	select {
	case <-p.done:
	case <-time.After(10 * time.Second):
	}
}

func (p *vfPipe) send(msg []byte) error {
	p.c.SetWriteDeadline(time.Now().Add(20 * time.Second))
	_, err := p.c.Write(xdrw.Record(msg))
	return err
}

// recv reads one reply record (all fragments).
func (p *vfPipe) recv(d time.Duration) ([]byte, error) {
	p.c.SetReadDeadline(time.Now().Add(d))
	var out []byte
	for {
		var h [4]byte
		if _, err := io.ReadFull(p.c, h[:]); err != nil {
			return nil, err
		}
		v := uint32(h[0])<<24 | uint32(h[1])<<16 | uint32(h[2])<<8 | uint32(h[3])
		n := int(v & 0x7fffffff)
		if n > 4<<20 {
			return nil, fmt.Errorf("reply fragment of %d bytes", n)
		}
		buf := make([]byte, n)
		if _, err := io.ReadFull(p.c, buf); err != nil {
			return nil, err
		}
		out = append(out, buf...)
		if v&0x80000000 != 0 {
			return out, nil
		}
	}
}

func (p *vfPipe) call(prog, vers, proc uint32, cred xdrw.Cred, args []byte) (uint32, []byte, error) {
	p.xid++
	if err := p.send(append(xdrw.CallHeader(p.xid, prog, vers, proc, cred), args...)); err != nil {
		return p.xid, nil, err
	}
	b, err := p.recv(30 * time.Second)
	return p.xid, b, err
}
