//go:build verif

package absnfs

import (
	"fmt"
	"math/rand"
	"os"
	"path"
	"sort"
	"strings"
	"time"

	"verif.local/lib/evid"
	"verif.local/lib/refs"
	"verif.local/lib/rfc"
	"verif.local/lib/xdrw"
)

// Shared engine of C02 (namespace refinement + cache transparency) and C04
// (attribute consistency). One operation sequence is generated from a model
// tree (a second refs filesystem) and executed in lockstep on K servers that
// differ only in cache configuration, each over its own backend.

type vfTreeCfg struct {
	name string
	opts ExportOptions
}

func vfTreeConfigs(all bool) []vfTreeCfg {
	base := func(ttl time.Duration, dir, neg bool) vfTreeCfg {
		return vfTreeCfg{fmt.Sprintf("attr=%v,dir=%v,neg=%v", ttl, dir, neg),
			ExportOptions{AttrCacheTimeout: ttl, EnableDirCache: dir, CacheNegativeLookups: neg}}
	}
	if !all {
		return []vfTreeCfg{base(1, false, false), base(5*time.Second, false, false), base(5*time.Second, true, false), base(5*time.Second, true, true)}
	}
	var out []vfTreeCfg
	for _, ttl := range []time.Duration{1, 5 * time.Second} {
		for _, d := range []bool{false, true} {
			for _, n := range []bool{false, true} {
				out = append(out, base(ttl, d, n))
			}
		}
	}
	return out
}

type vfLH struct { // logical handle
	path string
	ino  uint64   // model inode the path held when the handle was issued
	val  []uint64 // per-server handle value
}

type vfTree struct {
	rec    *evid.Rec
	prop   string
	ep     int
	rng    *rand.Rand
	model  *refs.FS
	srv    []*vfSrv
	cl     []*vfClient
	cfg    []vfTreeCfg
	hs     []*vfLH
	ops    []string
	obs    map[string][]vfObs // server:path -> observations while the path held one object
	ledIno map[string]uint64
	dead   bool
	forced *vfForced // scripted step (nil = seeded random step)
}

// vfForced pins the choices of one step (used by the scripted scenarios).
type vfForced struct {
	k            int // selects the procedure (see the switch in step)
	h, h2        *vfLH
	name, name2  string
	target       string
	plus         bool
}

func (t *vfTree) fail(sig, what string) {
	t.rec.Violate(sig, what, map[string]any{"episode": t.ep, "configs": t.cfgNames(), "ops": append([]string(nil), t.ops...)})
}

func (t *vfTree) cfgNames() []string {
	var n []string
	for _, c := range t.cfg {
		n = append(n, c.name)
	}
	return n
}

func vfStructSnap(f *refs.FS) map[string]string {
	out := map[string]string{}
	for p, e := range f.Snapshot() {
		switch e.Kind {
		case refs.KFile:
			out[p] = fmt.Sprintf("file size=%d", e.Size)
		case refs.KDir:
			out[p] = "dir"
		default:
			out[p] = "symlink->" + e.Target
		}
	}
	return out
}

func vfSnapDiff(a, b map[string]string) string {
	var d []string
	for p, v := range a {
		if w, ok := b[p]; !ok {
			d = append(d, "model has "+p+" ("+v+"), backend does not")
		} else if w != v {
			d = append(d, p+": model "+v+", backend "+w)
		}
	}
	for p, v := range b {
		if _, ok := a[p]; !ok {
			d = append(d, "backend has "+p+" ("+v+"), model does not")
		}
	}
	sort.Strings(d)
	if len(d) > 4 {
		d = d[:4]
	}
	return strings.Join(d, "; ")
}

func (t *vfTree) modelIno(p string) uint64 {
	e, ok := t.model.Peek(p)
	if !ok {
		return 0
	}
	return e.Ino
}

// unambiguous reports whether the path of h still holds the object it held
// when h was issued.
func (t *vfTree) unambiguous(h *vfLH) bool { return h.ino != 0 && t.modelIno(h.path) == h.ino }

func (t *vfTree) newHandle(p string, vals []uint64) *vfLH {
	h := &vfLH{path: p, ino: t.modelIno(p), val: vals}
	t.hs = append(t.hs, h)
	return h
}

func vfNewTree(rec *evid.Rec, prop string, ep int, cfgs []vfTreeCfg) *vfTree {
	t := &vfTree{rec: rec, prop: prop, ep: ep, rng: evid.Rng(int64(len(prop))*1000+2, int64(ep)), model: refs.New(), cfg: cfgs,
		obs: map[string][]vfObs{}, ledIno: map[string]uint64{}}
	t.model.KeepLog(false)
	var roots []uint64
	for _, c := range cfgs {
		fs := refs.New()
		s, err := vfNewSrv(fs, c.opts)
		if err != nil {
			rec.Infra(err.Error())
			t.dead = true
			return t
		}
		t.srv = append(t.srv, s)
		cl := s.client()
		t.cl = append(t.cl, cl)
		r, err := cl.mnt("/")
		if err != nil {
			rec.Infra(err.Error())
			t.dead = true
			return t
		}
		roots = append(roots, r)
	}
	t.newHandle("/", roots)
	return t
}

func (t *vfTree) close() {
	for _, s := range t.srv {
		s.Close()
	}
}

type vfOut struct {
	st      uint32
	summary string
	res     *rfc.Res
}

func ftypeName(k uint32) string {
	return map[uint32]string{1: "file", 2: "dir", 5: "symlink"}[k]
}

// observe records one attribute block for path p (C04 ledger).
func (t *vfTree) observe(si int, proc, slot, p string, a rfc.Fattr, fileidOnly bool, fileid uint64) {
	if t.prop != "C04" {
		return
	}
	be, ok := t.srv[si].fs.Peek(p)
	if !ok {
		return
	}
	ino := t.modelIno(p)
	kind := map[refs.Kind]string{refs.KFile: "file", refs.KDir: "dir", refs.KLink: "symlink"}[be.Kind]
	t.rec.Distinct(fmt.Sprintf("%s|%s|%s", proc, slot, kind))
	if !fileidOnly {
		fileid = a.Fileid
		wantType := map[refs.Kind]uint32{refs.KFile: 1, refs.KDir: 2, refs.KLink: 5}[be.Kind]
		if a.Type != wantType {
			sig := fmt.Sprintf("C04/type-differs-from-backend/%s.%s/object=%s/reported=%s", proc, slot, kind, ftypeName(a.Type))
			t.fail(sig, fmt.Sprintf("%s %s for %s reports ftype %d, backend lstat says %s", proc, slot, p, a.Type, kind))
		} else {
			wantSize := uint64(be.Size)
			if be.Kind == refs.KDir {
				wantSize = 4096
			} else if be.Kind == refs.KLink {
				wantSize = uint64(len(be.Target))
			}
			if a.Size != wantSize {
				t.fail(fmt.Sprintf("C04/size-differs-from-backend/%s.%s/object=%s", proc, slot, kind), fmt.Sprintf("%s %s for %s reports size %d, backend lstat says %d", proc, slot, p, a.Size, wantSize))
			}
			if a.Mode&0777 != uint32(be.Perm&0777) {
				t.fail(fmt.Sprintf("C04/perm-differs-from-backend/%s.%s/object=%s", proc, slot, kind), fmt.Sprintf("%s %s for %s reports mode %o, backend lstat says %o", proc, slot, p, a.Mode, be.Perm&0777))
			}
		}
	}
	key := fmt.Sprintf("%d:%s", si, p)
	if t.ledIno[key] != ino {
		t.flush(key)
		t.ledIno[key] = ino
	}
	if ino == 0 {
		return
	}
	o := vfObs{slot: proc + "." + slot, kind: kind, fileid: fileid, path: p}
	if !fileidOnly {
		o.ftype = a.Type
	}
	t.obs[key] = append(t.obs[key], o)
}

type vfObs struct {
	slot, kind, path string
	ftype            uint32 // 0 = not reported (fileid-only slot)
	fileid           uint64
}

// flush judges all observations made for one path while it held one object:
// every reply must have reported the same fileid and the same type. The
// deviating reports (those that differ from the majority) are the violations.
func (t *vfTree) flush(key string) {
	obs := t.obs[key]
	delete(t.obs, key)
	if len(obs) < 2 {
		return
	}
	idc := map[uint64]int{}
	tyc := map[uint32]int{}
	for _, o := range obs {
		idc[o.fileid]++
		if o.ftype != 0 {
			tyc[o.ftype]++
		}
	}
	majID, majTy := obs[0].fileid, uint32(0)
	for _, o := range obs { // first value wins ties
		if idc[o.fileid] > idc[majID] {
			majID = o.fileid
		}
		if o.ftype != 0 && (majTy == 0 || tyc[o.ftype] > tyc[majTy]) {
			majTy = o.ftype
		}
	}
	t.rec.Add("ledger_paths_judged", 1)
	t.rec.Add("ledger_observations", len(obs))
	for _, o := range obs {
		if o.fileid != majID {
			z := ""
			if o.fileid == 0 {
				z = "/fileid=0"
			}
			t.fail(fmt.Sprintf("C04/fileid-inconsistent/%s/object=%s%s", o.slot, o.kind, z), fmt.Sprintf("%s reported fileid %d for %s while %d other replies reported %d", o.slot, o.fileid, o.path, idc[majID], majID))
		}
		if o.ftype != 0 && o.ftype != majTy {
			t.fail(fmt.Sprintf("C04/type-inconsistent/%s/object=%s/reported=%s", o.slot, o.kind, ftypeName(o.ftype)), fmt.Sprintf("%s reported ftype %d for %s while other replies reported %d", o.slot, o.ftype, o.path, majTy))
		}
	}
}

func (t *vfTree) flushAll() {
	for k := range t.obs {
		t.flush(k)
	}
}

func (t *vfTree) obsPost(si int, proc, slot, p string, po rfc.PostOp) {
	if po.Present {
		t.observe(si, proc, slot, p, po.A, false, 0)
	}
}

// pickDirHandle returns a handle to use as a directory argument: never one
// whose model object is a symlink (excluded from verdicts by design).
func (t *vfTree) pickHandle(notSymlink bool) *vfLH {
	for tries := 0; tries < 20; tries++ {
		var h *vfLH
		if t.rng.Intn(10) < 7 {
			// prefer recent handles
			lo := len(t.hs) - 6
			if lo < 0 {
				lo = 0
			}
			h = t.hs[lo+t.rng.Intn(len(t.hs)-lo)]
		} else {
			h = t.hs[t.rng.Intn(len(t.hs))]
		}
		if notSymlink {
			if e, ok := t.model.Peek(h.path); ok && e.Kind == refs.KLink {
				continue
			}
			// a symlink anywhere on the path makes POSIX resolution differ from NFS semantics too
			if vfPathHasSymlink(t.model, h.path) {
				continue
			}
		}
		return h
	}
	return t.hs[0]
}

func vfPathHasSymlink(m *refs.FS, p string) bool {
	for p != "/" && p != "." {
		if e, ok := m.Peek(p); ok && e.Kind == refs.KLink {
			return true
		}
		p = path.Dir(p)
	}
	return false
}

var vfTreeNames = []string{"a", "b", "c", "d"}

// step runs one operation on every server. Returns false when the episode
// must stop.
// reconfigure flips the cache switches of every server at runtime (UpdateTuningOptions): the
// caches stay transparent whatever their settings are and whenever they change.
func (t *vfTree) reconfigure() {
	for i, s := range t.srv {
		flipDir, flipNeg := t.rng.Intn(2) == 0, t.rng.Intn(2) == 0
		if t.forced != nil { // scripted: switch the directory cache OFF where it is on
			flipDir, flipNeg = true, false
		}
		s.nfs.UpdateTuningOptions(func(tu *TuningOptions) {
			if flipDir {
				tu.EnableDirCache = !tu.EnableDirCache
			}
			if flipNeg {
				tu.CacheNegativeLookups = !tu.CacheNegativeLookups
			}
		})
		_ = i
	}
	t.ops = append(t.ops, "RECONFIGURE (cache switches flipped at runtime on every server)")
	t.rec.Add("runtime_cache_reconfigurations", 1)
}

func (t *vfTree) step() bool {
	if t.forced == nil && t.rng.Intn(45) == 0 {
		t.reconfigure()
		return true
	}
	k := t.rng.Intn(100)
	name := vfTreeNames[t.rng.Intn(len(vfTreeNames))]
	h := t.pickHandle(true)
	if f := t.forced; f != nil {
		k, name, h = f.k, f.name, f.h
	}
	child := path.Join(h.path, name)
	depthOK := strings.Count(child, "/") <= 3
	_, childExists := t.model.Peek(child)
	unamb := t.unambiguous(h)
	K := len(t.srv)
	outs := make([]vfOut, K)
	var proc string
	// judge compares server 0 with the model's verdict (ok/fail), when decidable.
	judge := func(modelOK bool, decidable bool) {
		if !decidable || t.prop != "C02" {
			return
		}
		ok0 := outs[0].st == 0
		if ok0 != modelOK {
			t.fail(fmt.Sprintf("%s/outcome-disagrees-with-model/proc=%s/model=%s/status=%d", "C02", proc, map[bool]string{true: "ok", false: "fail"}[modelOK], outs[0].st),
				fmt.Sprintf("%s: model says %v, server (%s) answered status %d", t.ops[len(t.ops)-1], modelOK, t.cfg[0].name, outs[0].st))
		}
	}
	run := func(f func(i int) (*rfc.Res, error), summarize func(i int, r *rfc.Res) string) bool {
		for i := 0; i < K; i++ {
			t.rec.Eval(1)
			r, err := f(i)
			if err != nil || r == nil {
				if _, shape := err.(*vfShapeErr); shape {
					// reply shape is C14's business; stop this episode quietly
					t.rec.Add("episodes_stopped_on_undecodable_reply", 1)
					return false
				}
				t.fail(t.prop+"/no-reply/proc="+proc, fmt.Sprintf("%v", err))
				return false
			}
			outs[i] = vfOut{st: r.Status, res: r}
			if summarize != nil {
				outs[i].summary = summarize(i, r)
			}
		}
		if t.prop == "C02" {
			for i := 1; i < K; i++ {
				if outs[i].st != outs[0].st || outs[i].summary != outs[0].summary {
					t.fail(fmt.Sprintf("C02/cache-changes-reply/proc=%s/baseline-status=%d/cached-status=%d", proc, outs[0].st, outs[i].st),
						fmt.Sprintf("%s: [%s] -> status %d %s; [%s] -> status %d %s", t.ops[len(t.ops)-1], t.cfg[0].name, outs[0].st, outs[0].summary, t.cfg[i].name, outs[i].st, outs[i].summary))
					return false
				}
			}
		}
		return true
	}
	attrSum := func(po rfc.PostOp) string {
		if !po.Present {
			return "-"
		}
		s := fmt.Sprintf("type=%d", po.A.Type)
		if po.A.Type == 1 {
			s += fmt.Sprintf(" size=%d", po.A.Size)
		}
		return s
	}
	checkTrees := func() bool {
		ms := vfStructSnap(t.model)
		for i, s := range t.srv {
			if d := vfSnapDiff(ms, vfStructSnap(s.fs)); d != "" {
				if t.prop == "C02" {
					t.fail(fmt.Sprintf("C02/backend-tree-differs-from-model/after=%s/status=%d", proc, outs[i].st), fmt.Sprintf("after %s on [%s]: %s", t.ops[len(t.ops)-1], t.cfg[i].name, d))
				}
				return false
			}
		}
		return true
	}
	setattrW, accessW, readW := 0, 0, 0
	if t.prop == "C04" {
		setattrW, accessW, readW = 12, 4, 4
	}
	switch {
	case k < 14: // LOOKUP
		proc = "LOOKUP"
		t.ops = append(t.ops, fmt.Sprintf("LOOKUP %s %q", h.path, name))
		vals := make([]uint64, K)
		if !run(func(i int) (*rfc.Res, error) { return t.cl[i].lookup(h.val[i], name) }, func(i int, r *rfc.Res) string {
			if r.Status == 0 {
				vals[i] = vfFH(r.FH)
				t.obsPost(i, proc, "obj", child, r.Obj)
			}
			if unamb {
				t.obsPost(i, proc, "dir", h.path, r.Dir)
			}
			return attrSum(r.Obj)
		}) {
			return false
		}
		he, hok := t.model.Peek(h.path)
		judge(childExists && hok && he.Kind == refs.KDir, unamb)
		if outs[0].st == 0 {
			if childExists {
				t.newHandle(child, vals)
			} else if unamb {
				return false // already reported by judge
			}
		}
	case k < 24: // CREATE (on names the model does not hold; C03 covers existing names - except the one case below)
		if childExists && depthOK && unamb && t.forced == nil {
			// UNCHECKED CREATE with an explicit size over an existing regular file ("open with
			// O_TRUNC"): the file is resized, and every cache setting reports the new size at once
			if e, ok := t.model.Peek(child); ok && e.Kind == refs.KFile && t.rng.Intn(2) == 0 {
				proc = "CREATE"
				size := []uint64{0, 3, 40}[t.rng.Intn(3)]
				t.ops = append(t.ops, fmt.Sprintf("CREATE %s %q how=0 size=%d (existing file)", h.path, name, size))
				vals := make([]uint64, K)
				if !run(func(i int) (*rfc.Res, error) {
					return t.cl[i].create(h.val[i], name, 0, xdrw.Sattr3{Size: xdrw.U64p(size)}, [8]byte{})
				}, func(i int, r *rfc.Res) string {
					if r.Status == 0 {
						vals[i] = vfFH(r.FH)
						t.obsPost(i, proc, "obj", child, r.Obj)
					}
					t.obsPost(i, proc, "dir-wcc", h.path, r.Wcc.Post)
					return attrSum(r.Obj)
				}) {
					return false
				}
				if outs[0].st == 0 {
					t.model.Truncate(child, int64(size))
				}
				judge(true, true)
				if !checkTrees() {
					return false
				}
				if outs[0].st == 0 && vals[0] != 0 {
					t.newHandle(child, vals)
				}
				return true
			}
		}
		if childExists || !depthOK {
			return true
		}
		proc = "CREATE"
		how := uint32(t.rng.Intn(2))
		t.ops = append(t.ops, fmt.Sprintf("CREATE %s %q how=%d", h.path, name, how))
		vals := make([]uint64, K)
		if !run(func(i int) (*rfc.Res, error) { return t.cl[i].create(h.val[i], name, how, sattrNone, [8]byte{}) }, func(i int, r *rfc.Res) string {
			if r.Status == 0 {
				vals[i] = vfFH(r.FH)
				t.obsPost(i, proc, "obj", child, r.Obj)
			}
			if unamb {
				t.obsPost(i, proc, "dir-wcc", h.path, r.Wcc.Post)
			}
			return attrSum(r.Obj)
		}) {
			return false
		}
		f, merr := t.model.OpenFile(child, os.O_CREATE|os.O_EXCL|os.O_WRONLY, 0644)
		if merr == nil {
			f.Close()
		}
		judge(merr == nil, unamb)
		if outs[0].st != 0 && merr == nil {
			t.model.Remove(child)
		}
		if !checkTrees() {
			return false
		}
		if outs[0].st == 0 {
			t.newHandle(child, vals)
		}
	case k < 33: // MKDIR
		if !depthOK {
			return true
		}
		proc = "MKDIR"
		t.ops = append(t.ops, fmt.Sprintf("MKDIR %s %q", h.path, name))
		vals := make([]uint64, K)
		if !run(func(i int) (*rfc.Res, error) { return t.cl[i].mkdir(h.val[i], name, sattrNone) }, func(i int, r *rfc.Res) string {
			if r.Status == 0 {
				vals[i] = vfFH(r.FH)
				t.obsPost(i, proc, "obj", child, r.Obj)
			}
			if unamb {
				t.obsPost(i, proc, "dir-wcc", h.path, r.Wcc.Post)
			}
			return attrSum(r.Obj)
		}) {
			return false
		}
		merr := t.model.Mkdir(child, 0755)
		judge(merr == nil, unamb)
		if outs[0].st != 0 && merr == nil {
			t.model.Remove(child)
		}
		if !checkTrees() {
			return false
		}
		if outs[0].st == 0 {
			t.newHandle(child, vals)
		}
	case k < 40: // SYMLINK
		if !depthOK {
			return true
		}
		proc = "SYMLINK"
		// incl. components that merely CONTAIN dots: legal, and not a ".." component
		target := []string{"a", "b", "c/d", "zz", "./a", "a..b", "c/d...e", "..a", "a..", "..."}[t.rng.Intn(10)]
		if t.forced != nil {
			target = t.forced.target
		}
		// symlink_attributes may carry a mode (a link's mode cannot be set, whatever is reported must be
		// what the backend's lstat says)
		linkAttrs := sattrNone
		if lm := []uint32{0, 0, 0640, 0600, 0755, 0777, 0}[t.rng.Intn(7)]; lm != 0 {
			linkAttrs = xdrw.Sattr3{Mode: &lm}
		}
		t.ops = append(t.ops, fmt.Sprintf("SYMLINK %s %q -> %q (mode in symlink_attributes: %v)", h.path, name, target, linkAttrs.Mode != nil))
		vals := make([]uint64, K)
		if !run(func(i int) (*rfc.Res, error) { return t.cl[i].symlink(h.val[i], name, target, linkAttrs) }, func(i int, r *rfc.Res) string {
			if r.Status == 0 {
				vals[i] = vfFH(r.FH)
				t.obsPost(i, proc, "obj", child, r.Obj)
			}
			if unamb {
				t.obsPost(i, proc, "dir-wcc", h.path, r.Wcc.Post)
			}
			return attrSum(r.Obj)
		}) {
			return false
		}
		merr := t.model.Symlink(target, child)
		judge(merr == nil, unamb)
		if outs[0].st != 0 && merr == nil {
			t.model.Remove(child)
		}
		if !checkTrees() {
			return false
		}
		if outs[0].st == 0 {
			t.newHandle(child, vals)
		}
	case k < 49: // REMOVE
		proc = "REMOVE"
		t.ops = append(t.ops, fmt.Sprintf("REMOVE %s %q", h.path, name))
		if !run(func(i int) (*rfc.Res, error) { return t.cl[i].remove(h.val[i], name) }, func(i int, r *rfc.Res) string {
			if unamb {
				t.obsPost(i, proc, "dir-wcc", h.path, r.Wcc.Post)
			}
			return ""
		}) {
			return false
		}
		ce, _ := t.model.Peek(child)
		he, hok := t.model.Peek(h.path)
		dirArgOK := hok && he.Kind == refs.KDir
		if childExists && ce.Kind == refs.KDir {
			// REMOVE of a directory: the RFC leaves it to the server; follow the observed branch
			if outs[0].st == 0 {
				if merr := t.model.Remove(child); merr != nil {
					t.fail("C02/outcome-disagrees-with-model/proc=REMOVE/non-empty-directory-removed", t.ops[len(t.ops)-1])
					return false
				}
			}
		} else {
			want := childExists && dirArgOK
			judge(want, unamb)
			if outs[0].st == 0 {
				t.model.Remove(child)
			}
		}
		if !checkTrees() {
			return false
		}
	case k < 56: // RMDIR
		proc = "RMDIR"
		t.ops = append(t.ops, fmt.Sprintf("RMDIR %s %q", h.path, name))
		if !run(func(i int) (*rfc.Res, error) { return t.cl[i].rmdir(h.val[i], name) }, func(i int, r *rfc.Res) string {
			if unamb {
				t.obsPost(i, proc, "dir-wcc", h.path, r.Wcc.Post)
			}
			return ""
		}) {
			return false
		}
		ce, _ := t.model.Peek(child)
		names, _ := t.model.Names(child)
		he, hok := t.model.Peek(h.path)
		want := childExists && ce.Kind == refs.KDir && len(names) == 0 && hok && he.Kind == refs.KDir
		judge(want, unamb)
		if outs[0].st == 0 && want {
			t.model.Remove(child)
		}
		if !checkTrees() {
			return false
		}
	case k < 66: // RENAME
		proc = "RENAME"
		h2 := t.pickHandle(true)
		name2 := vfTreeNames[t.rng.Intn(len(vfTreeNames))]
		if t.forced != nil {
			h2, name2 = t.forced.h2, t.forced.name2
		}
		child2 := path.Join(h2.path, name2)
		if strings.Count(child2, "/") > 3 {
			return true
		}
		t.ops = append(t.ops, fmt.Sprintf("RENAME %s %q -> %s %q", h.path, name, h2.path, name2))
		if !run(func(i int) (*rfc.Res, error) { return t.cl[i].rename(h.val[i], name, h2.val[i], name2) }, func(i int, r *rfc.Res) string {
			if unamb {
				t.obsPost(i, proc, "from-wcc", h.path, r.Wcc.Post)
			}
			if t.unambiguous(h2) {
				t.obsPost(i, proc, "to-wcc", h2.path, r.Wcc2.Post)
			}
			return ""
		}) {
			return false
		}
		before := t.model.Snapshot()
		merr := t.model.Rename(child, child2)
		judge(merr == nil, unamb && t.unambiguous(h2))
		if outs[0].st != 0 && merr == nil {
			// follow the observed branch: undo (only reachable when a handle was ambiguous or after a reported violation)
			t.model.Rename(child2, child)
			if ok, _ := refs.SnapEqual(before, t.model.Snapshot()); !ok {
				return false
			}
		}
		if !checkTrees() {
			return false
		}
	case k < 74: // READDIR / READDIRPLUS
		plus := t.rng.Intn(2) == 0
		if t.forced != nil {
			plus = t.forced.plus
		}
		proc = map[bool]string{false: "READDIR", true: "READDIRPLUS"}[plus]
		t.ops = append(t.ops, fmt.Sprintf("%s %s", proc, h.path))
		if !run(func(i int) (*rfc.Res, error) {
			if plus {
				return t.cl[i].readdirplus(h.val[i], 0, 32768, 65536)
			}
			return t.cl[i].readdir(h.val[i], 0, 65536)
		}, func(i int, r *rfc.Res) string {
			var ns []string
			for _, e := range r.Entries {
				ns = append(ns, e.Name)
				if unamb {
					t.observe(i, proc, "entry-fileid", path.Join(h.path, e.Name), rfc.Fattr{}, true, e.Fileid)
					if plus && e.Attr.Present {
						t.observe(i, proc, "entry-attr", path.Join(h.path, e.Name), e.Attr.A, false, 0)
					}
				}
			}
			if unamb {
				t.obsPost(i, proc, "dir", h.path, r.Obj)
			}
			sort.Strings(ns)
			return strings.Join(ns, ",")
		}) {
			return false
		}
		he, hok := t.model.Peek(h.path)
		isDir := hok && he.Kind == refs.KDir
		judge(isDir, unamb)
		if unamb && isDir && outs[0].st == 0 && t.prop == "C02" {
			want, _ := t.model.Names(h.path)
			if strings.Join(want, ",") != outs[0].summary {
				t.fail("C02/listing-differs-from-model/proc="+proc, fmt.Sprintf("%s lists [%s], model has [%s]", t.ops[len(t.ops)-1], outs[0].summary, strings.Join(want, ",")))
				return false
			}
		}
	case k < 82: // GETATTR (any handle, including symlinks)
		proc = "GETATTR"
		if t.forced == nil {
			h = t.pickHandle(false)
		}
		unamb = t.unambiguous(h)
		t.ops = append(t.ops, "GETATTR "+h.path)
		if !run(func(i int) (*rfc.Res, error) { return t.cl[i].getattr(h.val[i]) }, func(i int, r *rfc.Res) string {
			if r.Status != 0 {
				return ""
			}
			if unamb {
				t.observe(i, proc, "obj", h.path, r.Attr, false, 0)
			}
			return attrSum(rfc.PostOp{Present: true, A: r.Attr})
		}) {
			return false
		}
		e, ok := t.model.Peek(h.path)
		judge(ok, unamb)
		if unamb && ok && outs[0].st == 0 && t.prop == "C02" {
			want := map[refs.Kind]uint32{refs.KFile: 1, refs.KDir: 2, refs.KLink: 5}[e.Kind]
			if outs[0].res.Attr.Type != want {
				t.fail(fmt.Sprintf("C02/getattr-type-differs-from-model/model=%s/reported=%d", e.Kind, outs[0].res.Attr.Type), t.ops[len(t.ops)-1])
			}
		}
	case k < 88: // READLINK
		proc = "READLINK"
		if t.forced == nil {
			h = t.pickHandle(false)
		}
		unamb = t.unambiguous(h)
		t.ops = append(t.ops, "READLINK "+h.path)
		if !run(func(i int) (*rfc.Res, error) { return t.cl[i].readlink(h.val[i]) }, func(i int, r *rfc.Res) string {
			if unamb {
				t.obsPost(i, proc, "obj", h.path, r.Obj)
			}
			return r.Link
		}) {
			return false
		}
		e, ok := t.model.Peek(h.path)
		judge(ok && e.Kind == refs.KLink, unamb)
		if unamb && ok && e.Kind == refs.KLink && outs[0].st == 0 && outs[0].summary != e.Target {
			t.fail("C02/readlink-target-differs-from-model", fmt.Sprintf("%s returned %q, model has %q", t.ops[len(t.ops)-1], outs[0].summary, e.Target))
		}
	case k < 88+setattrW: // SETATTR mode (C04 only)
		proc = "SETATTR"
		h = t.pickHandle(false)
		unamb = t.unambiguous(h)
		modes := []uint32{0644, 0755, 0, 0777, 04755, 02755, 01777, 0100644, 040755, 0120777, 0600, 0111}
		mode := modes[t.rng.Intn(len(modes))]
		t.ops = append(t.ops, fmt.Sprintf("SETATTR %s mode=%#o", h.path, mode))
		if !run(func(i int) (*rfc.Res, error) { return t.cl[i].setattr(h.val[i], xdrw.Sattr3{Mode: &mode}) }, func(i int, r *rfc.Res) string {
			if unamb {
				t.obsPost(i, proc, "obj-wcc", h.path, r.Wcc.Post)
			}
			return ""
		}) {
			return false
		}
		// follow up through the same handle, which is where a damaged cached type shows
		if unamb {
			for i := 0; i < K; i++ {
				if g, err := t.cl[i].getattr(h.val[i]); err == nil && g != nil && g.Status == 0 {
					t.observe(i, "GETATTR", "obj-after-SETATTR", h.path, g.Attr, false, 0)
				}
				e, _ := t.model.Peek(h.path)
				// (through a file or a link as well: the NOTDIR reply carries the object's attributes)
				if !vfPathHasSymlink(t.model, path.Dir(h.path)) {
					nm := vfTreeNames[t.rng.Intn(4)]
					_, exists := t.model.Peek(path.Join(h.path, nm))
					if l, err := t.cl[i].lookup(h.val[i], nm); err == nil && l != nil {
						if e.Kind == refs.KDir && exists && l.Status == 20 {
							t.fail("C04/directory-no-longer-treated-as-directory-after-SETATTR", fmt.Sprintf("%s then LOOKUP %q through the same handle answered NOTDIR", t.ops[len(t.ops)-1], nm))
						}
						if l.Status == 0 {
							t.obsPost(i, "LOOKUP", "obj-after-SETATTR", path.Join(h.path, nm), l.Obj)
						}
						t.obsPost(i, "LOOKUP", "dir-after-SETATTR", h.path, l.Dir)
					}
				}
			}
		}
	case k < 88+setattrW+accessW:
		proc = "ACCESS"
		h = t.pickHandle(false)
		unamb = t.unambiguous(h)
		t.ops = append(t.ops, "ACCESS "+h.path)
		if !run(func(i int) (*rfc.Res, error) { return t.cl[i].access(h.val[i], 0x3f) }, func(i int, r *rfc.Res) string {
			if unamb {
				t.obsPost(i, proc, "obj", h.path, r.Obj)
			}
			return ""
		}) {
			return false
		}
	case k < 88+setattrW+accessW+readW:
		proc = "READ"
		h = t.pickHandle(false)
		unamb = t.unambiguous(h)
		t.ops = append(t.ops, "READ "+h.path)
		if !run(func(i int) (*rfc.Res, error) { return t.cl[i].read(h.val[i], 0, 16) }, func(i int, r *rfc.Res) string {
			if unamb {
				t.obsPost(i, proc, "obj", h.path, r.Obj)
			}
			return ""
		}) {
			return false
		}
	default: // WRITE a few bytes to a file so that sizes move
		proc = "WRITE"
		if t.forced == nil {
			h = t.pickHandle(false)
		}
		unamb = t.unambiguous(h)
		e, ok := t.model.Peek(h.path)
		if !ok || e.Kind != refs.KFile || !unamb {
			return true
		}
		n := 1 + t.rng.Intn(20)
		t.ops = append(t.ops, fmt.Sprintf("WRITE %s len=%d", h.path, n))
		data := make([]byte, n)
		if !run(func(i int) (*rfc.Res, error) { return t.cl[i].write(h.val[i], 0, 2, data) }, func(i int, r *rfc.Res) string {
			t.obsPost(i, proc, "obj-wcc", h.path, r.Wcc.Post)
			return ""
		}) {
			return false
		}
		if outs[0].st == 0 {
			if f, err := t.model.OpenFile(h.path, os.O_WRONLY, 0); err == nil {
				f.WriteAt(data, 0)
				f.Close()
			}
		}
		if !checkTrees() {
			return false
		}
	}
	if proc != "" && t.prop == "C02" {
		t.rec.Distinct(fmt.Sprintf("%s|child=%v|unambiguous=%v|st=%d", proc, childExists, unamb, outs[0].st))
	}
	return true
}

// ---- scripted scenarios: known cache windows driven through the same engine ----

// handleFor returns the most recently issued logical handle for path p.
func (t *vfTree) handleFor(p string) *vfLH {
	for i := len(t.hs) - 1; i >= 0; i-- {
		if t.hs[i].path == p {
			return t.hs[i]
		}
	}
	return nil
}

var vfScriptK = map[string]int{"LOOKUP": 0, "CREATE": 14, "MKDIR": 24, "SYMLINK": 33, "REMOVE": 40, "RMDIR": 49, "RENAME": 56, "READDIR": 66, "READDIRPLUS": 66, "GETATTR": 74, "READLINK": 82, "WRITE": 99}

// vfScripts: each step is "PROC handle-path name [handle2-path name2 | target]".
var vfScripts = [][]string{
	{"MKDIR / d", "CREATE /d f", "LOOKUP /d f", "RENAME / d / e", "LOOKUP /d f", "GETATTR /d/f", "LOOKUP / e", "LOOKUP /e f", "LOOKUP / d"},
	{"LOOKUP / x", "MKDIR / x", "LOOKUP / x", "LOOKUP /x y", "CREATE /x y", "LOOKUP /x y", "LOOKUP /x z", "SYMLINK /x z zz", "LOOKUP /x z"},
	{"READDIR /", "CREATE / a", "READDIR /", "MKDIR / b", "READDIRPLUS /", "SYMLINK / c zz", "READDIR /", "REMOVE / a", "READDIRPLUS /", "RMDIR / b", "READDIR /", "RENAME / c / d", "READDIR /"},
	{"CREATE / a", "WRITE /a", "LOOKUP / a", "REMOVE / a", "SYMLINK / a zz", "LOOKUP / a", "READLINK /a", "REMOVE / a", "MKDIR / a", "LOOKUP / a", "GETATTR /a", "READDIR /a"},
	{"CREATE / a", "CREATE / b", "WRITE /a", "LOOKUP / a", "LOOKUP / b", "RENAME / a / b", "LOOKUP / b", "LOOKUP / a", "GETATTR /b"},
	{"MKDIR / d", "MKDIR /d e", "CREATE /d/e f", "LOOKUP /d/e f", "READDIR /d/e", "RENAME / d / g", "LOOKUP / g", "LOOKUP /g e", "LOOKUP /g/e f", "READDIR /d/e", "LOOKUP /d e", "LOOKUP /d/e f", "MKDIR / d", "LOOKUP /d e", "READDIR /d"},
	{"MKDIR / d", "LOOKUP /d n", "CREATE / t", "RENAME / t /d n", "LOOKUP /d n", "LOOKUP / t", "READDIR /d"},
	{"SYMLINK / l zz", "LOOKUP / l", "READLINK /l", "REMOVE / l", "CREATE / l", "LOOKUP / l", "READLINK /l", "GETATTR /l"},
	{"MKDIR / d", "READDIR /d", "MKDIR /d s", "READDIRPLUS /d", "RMDIR /d s", "READDIR /d", "CREATE /d s", "READDIR /d", "RENAME /d s / s", "READDIR /d", "READDIR /"},
	{"MKDIR / a", "CREATE /a f", "MKDIR / b", "LOOKUP /b f", "LOOKUP /b g", "RMDIR / b", "RENAME / a / b", "LOOKUP /b f", "LOOKUP /b g", "READDIR /b", "CREATE /b g", "LOOKUP /b g"},
	{"MKDIR / a", "MKDIR /a s", "CREATE /a/s f", "MKDIR / b", "MKDIR /b s", "LOOKUP /b/s f", "RMDIR /b s", "RMDIR / b", "RENAME / a / b", "LOOKUP /b s", "LOOKUP /b/s f", "READDIRPLUS /b/s"},
	{"MKDIR / p", "CREATE /p f", "LOOKUP /p f", "REMOVE /p f", "RMDIR / p", "LOOKUP / p", "MKDIR / p", "LOOKUP /p f", "READDIR /p"},
	// two directory trees of the same shape swapped by RENAME: what was cached two levels below
	// the old name (a file with data) must not be reported for the new occupant (a directory)
	{"MKDIR / a", "MKDIR /a s", "CREATE /a/s f", "WRITE /a/s/f", "LOOKUP /a/s f", "GETATTR /a/s/f", "MKDIR / b", "MKDIR /b s", "MKDIR /b/s f", "RENAME / a / c", "RENAME / b / a",
		"LOOKUP / a", "LOOKUP /a s", "LOOKUP /a/s f", "GETATTR /a/s/f", "READDIRPLUS /a/s", "LOOKUP / c", "LOOKUP /c s", "LOOKUP /c/s f", "GETATTR /c/s/f"},
	// a miss remembered two levels below a name, then another tree renamed onto that name
	{"MKDIR / n", "MKDIR /n s", "LOOKUP /n/s x", "RMDIR /n s", "RMDIR / n", "MKDIR / m", "MKDIR /m s", "CREATE /m/s x", "RENAME / m / n", "LOOKUP / n", "LOOKUP /n s", "LOOKUP /n/s x", "READDIR /n/s"},
	// the directory cache is switched off at runtime after it has served a listing: every kind of
	// mutation that follows must still show in the next listing
	{"MKDIR / d", "READDIR /d", "TOGGLE", "CREATE /d f", "READDIR /d", "MKDIR /d g", "READDIRPLUS /d", "SYMLINK /d s zz", "READDIR /d", "REMOVE /d f", "READDIR /d", "RMDIR /d g", "READDIR /d", "RENAME /d s / s", "READDIR /d", "TOGGLE", "CREATE /d k", "READDIR /d"},
	// a miss remembered BELOW a name that does not exist (asked through handles that outlived a
	// rename); then the name is given to a file (the path below it now fails differently), and to a
	// symlink through which the path below it exists
	{"MKDIR / c", "MKDIR /c s", "RENAME / c / d", "LOOKUP /c/s x", "CREATE / c", "LOOKUP /c/s x", "REMOVE / c",
		"LOOKUP / d", "LOOKUP /d s", "CREATE /d/s x", "LOOKUP /c/s x", "SYMLINK / c d", "LOOKUP /c/s x", "GETATTR /c/s"},
	// the same one level deeper on the source side: entries below the OLD name of a moved tree
	{"MKDIR / a", "MKDIR /a s", "CREATE /a/s f", "LOOKUP /a/s f", "RENAME / a / b", "MKDIR / a", "MKDIR /a s", "LOOKUP / a", "LOOKUP /a s", "LOOKUP /a/s f", "READDIR /a/s", "SYMLINK /a/s f zz", "LOOKUP /a/s f", "READLINK /a/s/f"},
}

// runScript executes one scripted scenario; returns false if it stopped early.
func (t *vfTree) runScript(steps []string) bool {
	for _, st := range steps {
		f := strings.Fields(st)
		if f[0] == "TOGGLE" {
			t.forced = &vfForced{}
			t.reconfigure()
			t.forced = nil
			continue
		}
		fo := &vfForced{k: vfScriptK[f[0]], h: t.handleFor(f[1]), plus: f[0] == "READDIRPLUS"}
		if fo.h == nil {
			return true // the handle was never issued on this run; nothing to do
		}
		if len(f) > 2 {
			fo.name = f[2]
		}
		if f[0] == "SYMLINK" {
			fo.target = f[3]
		}
		if f[0] == "RENAME" {
			fo.h2, fo.name2 = t.handleFor(f[3]), f[4]
			if fo.h2 == nil {
				return true
			}
		}
		t.forced = fo
		ok := t.step()
		t.forced = nil
		if !ok {
			return false
		}
	}
	return true
}
