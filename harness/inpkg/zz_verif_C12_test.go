//go:build verif

package absnfs

import (
	"bytes"
	"fmt"
	"os"
	"testing"
	"time"

	"verif.local/lib/evid"
	"verif.local/lib/refs"
	"verif.local/lib/rfc"
	"verif.local/lib/xdrw"
)

// C12: ACCESS decisions follow UNIX permission rules and never over-grant.
// Oracle: the UNIX class rule applied to the attributes the ACCESS reply
// itself reports (type, mode, uid, gid) and to the caller's effective identity.

func vfAccessRule(isDir bool, mode, fuid, fgid, uid, gid uint32, aux []uint32, ro bool, req uint32) (must uint32, may uint32) {
	var bits uint32
	switch {
	case uid == fuid:
		bits = mode >> 6 & 7
	case gid == fgid:
		bits = mode >> 3 & 7
	default:
		bits = mode & 7
		for _, g := range aux {
			if g == fgid {
				bits = mode >> 3 & 7
			}
		}
	}
	if uid == 0 {
		bits = 7
	}
	var g uint32
	if bits&4 != 0 {
		g |= 0x01
	}
	if isDir && bits&1 != 0 {
		g |= 0x02
	}
	if !ro && bits&2 != 0 {
		g |= 0x04 | 0x08
		if isDir {
			g |= 0x10
		}
	}
	if !isDir && bits&1 != 0 {
		g |= 0x20
	}
	must = g & req
	may = must
	if isDir && bits&1 != 0 { // EXECUTE on a directory has no defined meaning: either answer accepted
		may |= 0x20 & req
	}
	return
}

func TestVerif_C12(t *testing.T) {
	rec := evid.New("C12")
	thorough := evid.Tier() == "thorough"
	nModes := 512
	if thorough {
		nModes = 4096
	}
	rec.Rule = fmt.Sprintf("exhaustive: all %d modes x {file,dir} x 11 caller relations over two ownerships (owner 100:200: owner, owner+group, group, aux group, other, uid 0; owner 0:0: uid 0 as owner, uid 0 with another gid, group, aux group, other) x 64 masks x read-only on/off (1 decision in 16 through HandleCall, the others through the same authentication + handler steps); distinct = (kind, relation, read-only, granted mask) tuples", nModes)
	rec.Exhaustive = true
	defer rec.Write()
	type rel struct {
		name     string
		uid, gid uint32
		aux      []uint32
	}
	// two ownership situations: an ordinary owner, and objects owned by 0:0 (this server's
	// default ownership), where "uid 0" and "owner" coincide
	type ownerCfg struct {
		fuid, fgid uint32
		rels       []rel
	}
	cfgs := []ownerCfg{
		{100, 200, []rel{{"owner", 100, 999, nil}, {"owner+group", 100, 200, nil}, {"group", 101, 200, nil}, {"aux-group", 101, 999, []uint32{5, 200, 7}}, {"other", 101, 999, []uint32{5}}, {"root", 0, 0, nil}}},
		{0, 0, []rel{{"root-is-owner", 0, 0, nil}, {"root-is-owner-other-gid", 0, 999, nil}, {"group-of-root-owned", 101, 0, nil}, {"aux-group-of-root-owned", 101, 999, []uint32{0}}, {"other-of-root-owned", 101, 999, []uint32{5}}}},
	}
	decisions := 0
	nSrv := 0
	for _, oc := range cfgs {
		fuid, fgid, rels := oc.fuid, oc.fgid, oc.rels
		for _, ro := range []bool{false, true} {
			fs := refs.New()
			fs.PlantFile("/f", []byte("x"), 0, int(fuid), int(fgid))
			fs.PlantDir("/d", 0, int(fuid), int(fgid))
			// no squashing, in each spelling the constructor accepts for it
			spell := []string{"none", "None", "", "NONE"}[nSrv%4]
			nSrv++
			srv, err := vfNewSrv(fs, ExportOptions{AttrCacheTimeout: 1, ReadOnly: ro, Squash: spell})
			if err != nil {
				rec.Infra(err.Error())
				return
			}
			c := srv.client()
			root, _ := c.mnt("/")
			hs := map[string]uint64{}
			for _, n := range []string{"f", "d"} {
				l, _ := c.lookup(root, n)
				if l == nil || l.Status != 0 {
					rec.Infra("lookup")
					return
				}
				hs[n] = vfFH(l.FH)
				// plant the owner the server will report for this object
				node, _ := srv.ph.lookupNode(hs[n])
				node.mu.Lock()
				node.attrs.Uid, node.attrs.Gid = fuid, fgid
				node.mu.Unlock()
			}
			clients := make([]*vfClient, len(rels))
			for i, r := range rels {
				clients[i] = srv.client()
				clients[i].Cred = xdrw.AuthSys(1, "h", r.uid, r.gid, r.aux)
			}
			// decide asks the server. One decision in 16 goes through the full HandleCall path;
			// the others perform the same steps (authentication against the policy snapshot,
			// effective ids on the context, then the procedure handler) without the per-call
			// goroutine and timeout machinery, which is what makes the exhaustive sweep affordable.
			decide := func(ri int, h uint64, mask uint32) (*rfc.Res, error) {
				if decisions%16 == 0 {
					return clients[ri].access(h, mask)
				}
				cred := clients[ri].Cred
				ctx := &AuthContext{ClientIP: "127.0.0.1", ClientPort: 700, Credential: &RPCCredential{Flavor: cred.Flavor, Body: cred.Body}}
				ar := ValidateAuthentication(ctx, srv.nfs.policy.Load())
				if !ar.Allowed {
					return nil, fmt.Errorf("authentication refused: %s", ar.Reason)
				}
				ctx.EffectiveUID, ctx.EffectiveGID = ar.UID, ar.GID
				out, err := srv.ph.handleAccess(bytes.NewReader(xdrw.ArgAccess(h, mask)), &RPCReply{}, ctx)
				if err != nil {
					return nil, err
				}
				data, _ := out.Data.([]byte)
				return rfc.DecodeNFS(4, data)
			}
			for m := 0; m < nModes; m++ {
				perm := os.FileMode(m & 0777)
				if m&04000 != 0 {
					perm |= os.ModeSetuid
				}
				if m&02000 != 0 {
					perm |= os.ModeSetgid
				}
				if m&01000 != 0 {
					perm |= os.ModeSticky
				}
				fs.SetPerm("/f", perm)
				fs.SetPerm("/d", perm)
				for _, kind := range []string{"f", "d"} {
					for ri, r := range rels {
						for mask := uint32(0); mask < 64; mask++ {
							decisions++
							res, err := decide(ri, hs[kind], mask)
							if err != nil || res == nil || res.Status != 0 || !res.Obj.Present {
								rec.Violate("C12/access-failed", fmt.Sprintf("%v %+v", err, res), nil)
								return
							}
							a := res.Obj.A
							must, may := vfAccessRule(a.Type == 2, a.Mode, a.UID, a.GID, r.uid, r.gid, r.aux, ro, mask)
							g := res.Access
							desc := fmt.Sprintf("mode=%04o kind=%s relation=%s mask=%#x ro=%v reported(type=%d mode=%o uid=%d gid=%d) granted=%#x want=%#x", m, kind, r.name, mask, ro, a.Type, a.Mode, a.UID, a.GID, g, must)
							if g&^mask != 0 {
								rec.Violate("C12/granted-not-subset-of-request", desc, desc)
							} else if g&^may != 0 {
								bit := g &^ may
								rec.Violate(fmt.Sprintf("C12/over-grant/bit=%#x/kind=%s/relation=%s", bit&-bit, kind, r.name), desc, desc)
							} else if must&^g != 0 {
								bit := must &^ g
								rec.Violate(fmt.Sprintf("C12/under-grant/bit=%#x/kind=%s/relation=%s", bit&-bit, kind, r.name), desc, desc)
							}
							if mask == 63 {
								rec.Distinct(fmt.Sprintf("%s|%s|ro=%v|granted=%#x", kind, r.name, ro, g))
							}
							if a.UID != fuid || a.GID != fgid {
								rec.Add("reported_owner_differs_from_planted", 1)
							}
						}
					}
				}
			}
			srv.Close()
		}
	}
	decisions += vfC12Connection(rec)
	decisions += vfC12AcrossLookups(rec)
	decisions += vfC12Symlinks(rec)
	rec.Eval(decisions)
	rec.Sample(map[string]any{"modes": nModes, "relations": []string{"owner", "owner+group", "group", "aux-group", "other", "root", "root-is-owner", "root-is-owner-other-gid", "group-of-root-owned", "aux-group-of-root-owned", "other-of-root-owned"}, "masks": 64, "decisions": decisions})
}

// vfC12Connection: ACCESS on ONE connection of the real connection loop carrying calls of several
// identities in turn; each decision must follow the class of the credential of that very call.
func vfC12Connection(rec *evid.Rec) int {
	n := 0
	type cr struct {
		uid, gid uint32
		aux      []uint32
	}
	ids := []cr{{1000, 1000, nil}, {3000, 3000, nil}, {4000, 4000, []uint32{2000}}, {0, 0, nil}, {5000, 2000, nil}, {1000, 1000, nil}, {6000, 6000, []uint32{7, 2000, 9}}, {3000, 3000, nil}}
	for _, mode := range []os.FileMode{0640, 0604, 0070, 0751} {
		for _, kind := range []string{"f", "d"} {
			fs := refs.New()
			if kind == "f" {
				fs.PlantFile("/o", []byte("x"), mode, 1000, 2000)
			} else {
				fs.PlantDir("/o", mode, 1000, 2000)
			}
			srv, err := vfNewSrv(fs, ExportOptions{AttrCacheTimeout: 1})
			if err != nil {
				rec.Infra(err.Error())
				return n
			}
			c0 := srv.client()
			root, _ := c0.mnt("/")
			l, _ := c0.lookup(root, "o")
			if l == nil || l.Status != 0 {
				rec.Infra("lookup")
				srv.Close()
				return n
			}
			oh := vfFH(l.FH)
			if node, ok := srv.ph.lookupNode(oh); ok {
				node.mu.Lock()
				node.attrs.Uid, node.attrs.Gid = 1000, 2000
				node.mu.Unlock()
			}
			p := srv.pipe("127.0.0.1", 670)
			for i, k := range ids {
				_, raw, err := p.call(vfProgNFS, 3, 4, xdrw.AuthSys(uint32(i), "h", k.uid, k.gid, k.aux), xdrw.ArgAccess(oh, 0x3f))
				if err != nil {
					rec.Inconclusive(1)
					break
				}
				rep, derr := rfc.DecodeReply(raw)
				if derr != nil || rep.Denied || rep.AcceptStat != 0 {
					continue
				}
				res, derr := rfc.DecodeNFS(4, rep.Body)
				if derr != nil || res.Status != 0 || !res.Obj.Present {
					continue
				}
				n++
				a := res.Obj.A
				must, may := vfAccessRule(a.Type == 2, a.Mode, a.UID, a.GID, k.uid, k.gid, k.aux, false, 0x3f)
				desc := fmt.Sprintf("mode=%04o kind=%s call %d on one connection with AUTH_SYS %d:%d aux %v after %d other identities: granted=%#x want=%#x", mode, kind, i, k.uid, k.gid, k.aux, i, res.Access, must)
				if res.Access&^may != 0 {
					rec.Violate("C12/connection/over-grant", desc, desc)
				} else if must&^res.Access != 0 {
					rec.Violate("C12/connection/under-grant", desc, desc)
				}
				rec.Distinct(fmt.Sprintf("connection|%s|call=%d|granted=%#x", kind, i, res.Access))
			}
			p.close()
			srv.Close()
		}
	}
	return n
}

// vfC12AcrossLookups: the decision is a function of (mode, owner, group, identity, mask). With the
// attribute cache on (so that the owner root assigned by SETATTR stays known), the same question is
// asked before and after LOOKUPs / READDIRPLUS of the object that are served from the cache: nothing
// changed the object, so the answer may not change - and it is the answer for the owner and group
// root assigned (which differ numerically, so that a mix-up of the two shows).
func vfC12AcrossLookups(rec *evid.Rec) int {
	n := 0
	type cr struct {
		name     string
		uid, gid uint32
		aux      []uint32
	}
	ids := []cr{{"owner", 1000, 77, nil}, {"group", 3000, 2000, nil}, {"aux-group", 3001, 5, []uint32{6, 2000}}, {"uid-equals-file-gid", 2000, 9, nil}, {"gid-equals-file-uid", 9, 1000, nil}, {"other", 4000, 4000, nil}}
	for _, mode := range []os.FileMode{0640, 0604, 0460, 0750} {
		for _, kind := range []string{"f", "d"} {
			fs := refs.New()
			if kind == "f" {
				fs.PlantFile("/o", []byte("x"), mode, 0, 0)
			} else {
				fs.PlantDir("/o", mode, 0, 0)
			}
			srv, err := vfNewSrv(fs, ExportOptions{AttrCacheTimeout: time.Hour, EnableDirCache: true, DirCacheTimeout: time.Hour})
			if err != nil {
				rec.Infra(err.Error())
				return n
			}
			root0 := srv.client()
			root, _ := root0.mnt("/")
			l, _ := root0.lookup(root, "o")
			if l == nil || l.Status != 0 {
				rec.Infra("lookup")
				srv.Close()
				return n
			}
			oh := vfFH(l.FH)
			if r, _ := root0.setattr(oh, xdrw.Sattr3{UID: xdrw.U32p(1000), GID: xdrw.U32p(2000)}); r == nil || r.Status != 0 {
				rec.Infra("setattr owner")
				srv.Close()
				return n
			}
			first := map[string]uint32{}
			for round := 0; round < 4; round++ {
				for _, k := range ids {
					c := srv.client()
					c.Cred = xdrw.AuthSys(1, "h", k.uid, k.gid, k.aux)
					res, err := c.access(oh, 0x3f)
					if err != nil || res == nil || res.Status != 0 {
						continue
					}
					n++
					must, may := vfAccessRule(kind == "d", uint32(mode.Perm()), 1000, 2000, k.uid, k.gid, k.aux, false, 0x3f)
					desc := fmt.Sprintf("mode=%04o kind=%s owner 1000:2000 assigned by root through SETATTR; identity %s (%d:%d aux %v); after %d rounds of cache-served LOOKUP/READDIRPLUS: granted=%#x want=%#x", mode.Perm(), kind, k.name, k.uid, k.gid, k.aux, round, res.Access, must)
					if res.Access&^may != 0 {
						rec.Violate("C12/across-lookups/over-grant/relation="+k.name, desc, desc)
					} else if must&^res.Access != 0 {
						rec.Violate("C12/across-lookups/under-grant/relation="+k.name, desc, desc)
					}
					if round == 0 {
						first[k.name] = res.Access
					} else if res.Access != first[k.name] {
						rec.Violate("C12/same-question-different-answer", fmt.Sprintf("%s; the same ACCESS call answered %#x before those lookups", desc, first[k.name]), desc)
					}
					rec.Distinct(fmt.Sprintf("across-lookups|%s|%s|round=%d|granted=%#x", kind, k.name, round, res.Access))
				}
				// cache-served traffic that rebuilds the node from cached attributes
				root0.lookup(root, "o")
				root0.readdirplus(root, 0, 4096, 8192)
				root0.getattr(oh)
			}
			srv.Close()
		}
	}
	return n
}

// vfC12Symlinks: ACCESS on the handle of a symbolic link is about the LINK: whatever it points to
// (a wide-open directory, a file, nothing), LOOKUP and DELETE are directory bits and are never
// granted on it, the granted bits are a subset of the request, and MODIFY/EXTEND never on a
// read-only export.
func vfC12Symlinks(rec *evid.Rec) int {
	n := 0
	for _, ro := range []bool{false, true} {
		fs := refs.New()
		fs.PlantDir("/open", 0777, 0, 0)
		fs.PlantDir("/closed", 0000, 0, 0)
		fs.PlantFile("/file", []byte("x"), 0666, 0, 0)
		fs.PlantSymlink("/to-open-dir", "open")
		fs.PlantSymlink("/to-closed-dir", "closed")
		fs.PlantSymlink("/to-file", "file")
		fs.PlantSymlink("/dangling", "nowhere")
		srv, err := vfNewSrv(fs, ExportOptions{AttrCacheTimeout: 1, ReadOnly: ro})
		if err != nil {
			rec.Infra(err.Error())
			return n
		}
		c0 := srv.client()
		root, _ := c0.mnt("/")
		for _, ln := range []string{"to-open-dir", "to-closed-dir", "to-file", "dangling"} {
			l, _ := c0.lookup(root, ln)
			if l == nil || l.Status != 0 {
				continue
			}
			h := vfFH(l.FH)
			for _, id := range [][2]uint32{{0, 0}, {1000, 1000}, {65534, 65534}} {
				c := srv.client()
				c.Cred = xdrw.AuthSys(1, "h", id[0], id[1], nil)
				for mask := uint32(0); mask < 64; mask++ {
					res, err := c.access(h, mask)
					if err != nil || res == nil {
						continue
					}
					n++
					desc := fmt.Sprintf("ACCESS on the symbolic link /%s (uid %d, mask %#x, read-only=%v): status %d granted %#x", ln, id[0], mask, ro, res.Status, res.Access)
					if res.Status != 0 {
						rec.Distinct(fmt.Sprintf("symlink|%s|ro=%v|status=%d", ln, ro, res.Status))
						continue
					}
					if res.Access&^mask != 0 {
						rec.Violate("C12/granted-not-subset-of-request/object=symlink", desc, desc)
					}
					if res.Access&(0x02|0x10) != 0 {
						rec.Violate("C12/directory-bits-granted-on-a-symbolic-link/target="+ln, desc, desc)
					}
					if ro && res.Access&(0x04|0x08|0x10) != 0 {
						rec.Violate("C12/write-bits-granted-on-read-only-export/object=symlink", desc, desc)
					}
					if mask == 63 {
						rec.Distinct(fmt.Sprintf("symlink|%s|ro=%v|uid=%d|granted=%#x", ln, ro, id[0], res.Access))
					}
				}
			}
		}
		srv.Close()
	}
	return n
}
