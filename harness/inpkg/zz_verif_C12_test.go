//go:build verif

package absnfs

import (
	"fmt"
	"os"
	"testing"

	"verif.local/lib/evid"
	"verif.local/lib/refs"
	"verif.local/lib/xdrw"
)

// C12: ACCESS decisions follow UNIX permission rules and never over-grant.
// Oracle: the UNIX class rule applied to the attributes the ACCESS reply
// itself reports (type, mode, uid, gid) and to the caller's effective identity.

func vfAccessRule(isDir bool, mode, fuid, fgid, uid, gid uint32, aux []uint32, ro bool, req uint32) (must uint32, may uint32) {
	var bits uint32
	switch {
	case uid == fuid:
		bits = mode >> 6 & 7
	case gid == fgid:
		bits = mode >> 3 & 7
	default:
		bits = mode & 7
		for _, g := range aux {
			if g == fgid {
				bits = mode >> 3 & 7
			}
		}
	}
	if uid == 0 {
		bits = 7
	}
	var g uint32
	if bits&4 != 0 {
		g |= 0x01
	}
	if isDir && bits&1 != 0 {
		g |= 0x02
	}
	if !ro && bits&2 != 0 {
		g |= 0x04 | 0x08
		if isDir {
			g |= 0x10
		}
	}
	if !isDir && bits&1 != 0 {
		g |= 0x20
	}
	must = g & req
	may = must
	if isDir && bits&1 != 0 { // EXECUTE on a directory has no defined meaning: either answer accepted
		may |= 0x20 & req
	}
	return
}

func TestVerif_C12(t *testing.T) {
	rec := evid.New("C12")
	thorough := evid.Tier() == "thorough"
	nModes := 512
	if thorough {
		nModes = 4096
	}
	rec.Rule = fmt.Sprintf("exhaustive: all %d modes x {file,dir} x 6 caller relations (owner, owner+group, group, aux group, other, uid 0) x 64 masks x read-only on/off through HandleCall; distinct = (kind, relation, read-only, granted mask) tuples", nModes)
	rec.Exhaustive = true
	defer rec.Write()
	type rel struct {
		name     string
		uid, gid uint32
		aux      []uint32
	}
	const fuid, fgid = 100, 200
	rels := []rel{{"owner", 100, 999, nil}, {"owner+group", 100, 200, nil}, {"group", 101, 200, nil}, {"aux-group", 101, 999, []uint32{5, 200, 7}}, {"other", 101, 999, []uint32{5}}, {"root", 0, 0, nil}}
	decisions := 0
	for _, ro := range []bool{false, true} {
		fs := refs.New()
		fs.PlantFile("/f", []byte("x"), 0, fuid, fgid)
		fs.PlantDir("/d", 0, fuid, fgid)
		srv, err := vfNewSrv(fs, ExportOptions{AttrCacheTimeout: 1, ReadOnly: ro, Squash: "none"})
		if err != nil {
			rec.Infra(err.Error())
			return
		}
		c := srv.client()
		root, _ := c.mnt("/")
		hs := map[string]uint64{}
		for _, n := range []string{"f", "d"} {
			l, _ := c.lookup(root, n)
			if l == nil || l.Status != 0 {
				rec.Infra("lookup")
				return
			}
			hs[n] = vfFH(l.FH)
			// plant the owner the server will report for this object
			node, _ := srv.ph.lookupNode(hs[n])
			node.mu.Lock()
			node.attrs.Uid, node.attrs.Gid = fuid, fgid
			node.mu.Unlock()
		}
		clients := make([]*vfClient, len(rels))
		for i, r := range rels {
			clients[i] = srv.client()
			clients[i].Cred = xdrw.AuthSys(1, "h", r.uid, r.gid, r.aux)
		}
		for m := 0; m < nModes; m++ {
			perm := os.FileMode(m & 0777)
			if m&04000 != 0 {
				perm |= os.ModeSetuid
			}
			if m&02000 != 0 {
				perm |= os.ModeSetgid
			}
			if m&01000 != 0 {
				perm |= os.ModeSticky
			}
			fs.SetPerm("/f", perm)
			fs.SetPerm("/d", perm)
			for _, kind := range []string{"f", "d"} {
				for ri, r := range rels {
					for mask := uint32(0); mask < 64; mask++ {
						decisions++
						res, err := clients[ri].access(hs[kind], mask)
						if err != nil || res == nil || res.Status != 0 || !res.Obj.Present {
							rec.Violate("C12/access-failed", fmt.Sprintf("%v %+v", err, res), nil)
							return
						}
						a := res.Obj.A
						must, may := vfAccessRule(a.Type == 2, a.Mode, a.UID, a.GID, r.uid, r.gid, r.aux, ro, mask)
						g := res.Access
						desc := fmt.Sprintf("mode=%04o kind=%s relation=%s mask=%#x ro=%v reported(type=%d mode=%o uid=%d gid=%d) granted=%#x want=%#x", m, kind, r.name, mask, ro, a.Type, a.Mode, a.UID, a.GID, g, must)
						if g&^mask != 0 {
							rec.Violate("C12/granted-not-subset-of-request", desc, desc)
						} else if g&^may != 0 {
							bit := g &^ may
							rec.Violate(fmt.Sprintf("C12/over-grant/bit=%#x/kind=%s/relation=%s", bit&-bit, kind, r.name), desc, desc)
						} else if must&^g != 0 {
							bit := must &^ g
							rec.Violate(fmt.Sprintf("C12/under-grant/bit=%#x/kind=%s/relation=%s", bit&-bit, kind, r.name), desc, desc)
						}
						if mask == 63 {
							rec.Distinct(fmt.Sprintf("%s|%s|ro=%v|granted=%#x", kind, r.name, ro, g))
						}
						if a.Mode != uint32(m&0777) {
							// the reported mode is what the decision was judged against; note disagreement with the backend once
							rec.Add("reported_mode_differs_from_backend", 1)
						}
					}
				}
			}
		}
		srv.Close()
	}
	rec.Eval(decisions)
	rec.Sample(map[string]any{"modes": nModes, "relations": []string{"owner", "owner+group", "group", "aux-group", "other", "root"}, "masks": 64, "decisions": decisions})
}
