//go:build verif

package absnfs

import (
	"syscall"
	"sync/atomic"
	"sync"
	"os"
	"time"
	"fmt"
	"reflect"
	"strings"
	"testing"

	"verif.local/lib/evid"
	"verif.local/lib/refs"
	"verif.local/lib/rfc"
	"verif.local/lib/xdrw"
)

// C03: CREATE never destroys or silently reuses an existing file.
// Oracle: RFC 1813 3.3.8 outcome table + backend snapshot (content included)
// before/after every request + ghost map name -> verifier of the EXCLUSIVE
// create that made it.

var vfC03Existing = []string{"none", "file", "dir", "symlink-to-file", "dangling-symlink", "exclusive-created"}
var vfC03Modes = []string{"UNCHECKED", "GUARDED", "EXCLUSIVE"}

func TestVerif_C03(t *testing.T) {
	rec := evid.New("C03")
	rec.Rule = "exhaustive matrix create mode x existing object x sattr3 (mode?, size class, uid?, gid?) x verifier x caller, then seeded create/write/create-again histories; distinct = (mode, existing, size class, verifier, outcome) tuples"
	rec.Exhaustive = true
	defer rec.Write()
	vfC03BackendFaults(rec)
	sizes := []int{-1, 0, 3, 100}
	n := 0
	for how := uint32(0); how < 3; how++ {
		for _, ex := range vfC03Existing {
			for _, setMode := range []bool{false, true} {
				for _, sz := range sizes {
					for _, setID := range []int{0, 1, 2, 3} {
						for _, sameVerf := range []bool{true, false} {
							for _, uid := range []uint32{0, 1000} {
								if how == 2 && (setMode || sz != -1 || setID != 0) {
									continue // EXCLUSIVE carries no sattr3
								}
								if how != 2 && ex != "exclusive-created" && !sameVerf {
									continue // verifier irrelevant
								}
								vfC03Case(rec, n, how, ex, setMode, sz, setID, sameVerf, uid)
								n++
							}
						}
					}
				}
			}
		}
	}
	// the existence decision must come from the filesystem, not from a cached "not found"
	for how := uint32(0); how < 3; how++ {
		for _, sz := range []int{-1, 0} {
			fs := refs.New()
			fs.PlantDir("/d", 0755, 0, 0)
			srv, err := vfNewSrv(fs, ExportOptions{AttrCacheTimeout: time.Hour, CacheNegativeLookups: true, NegativeCacheTimeout: time.Hour, EnableDirCache: true})
			if err != nil {
				rec.Infra(err.Error())
				return
			}
			c := srv.client()
			root, _ := c.mnt("/")
			lr, _ := c.lookup(root, "d")
			if lr == nil || lr.Status != 0 {
				rec.Infra("lookup d")
				return
			}
			dir := vfFH(lr.FH)
			c.lookup(dir, "x") // NOENT, remembered by the negative cache
			c.readdir(dir, 0, 4096)
			fs.PlantFile("/d/x", []byte("written behind the server's back"), 0644, 5, 6)
			fs.PlantFile("/d/other", []byte("other-data"), 0644, 0, 0)
			var sa xdrw.Sattr3
			if sz >= 0 && how != 2 {
				sa.Size = xdrw.U64p(uint64(sz))
			}
			before := fs.Snapshot()
			rec.Eval(1)
			desc := fmt.Sprintf("mode=%s size=%d existing=file created out of band after a negatively cached LOOKUP", vfC03Modes[how], sz)
			r, err := c.create(dir, "x", how, sa, [8]byte{9})
			if err == nil && r != nil {
				szArg := sz
				if how == 2 {
					szArg = -1
				}
				vfC03Judge(rec, desc, how, "file", szArg, false, r, before, fs.Snapshot())
				rec.Distinct(fmt.Sprintf("out-of-band|%s|size=%d|st=%d", vfC03Modes[how], sz, r.Status))
			}
			srv.Close()
		}
	}
	// near-miss names: a CREATE of a name that is NOT the existing file's name (it differs by a
	// leading/trailing blank, case, a trailing dot ...) must leave the existing file alone, whatever
	// the server makes of the odd name - and if it answers OK the object exists under exactly that name
	for how := uint32(0); how < 3; how++ {
		for _, nm := range []string{"x ", " x", "x\t", "\tx", "x\n", "x\r", " x ", "x\u00a0", "\u00a0x", "X", "x.", "x~", "x\u200b", "./x"[2:] + "%00", "xx", "x "+"x"} {
			for _, sz := range []int{-1, 0} {
				if how == 2 && sz != -1 {
					continue
				}
				fs, _ := vfC03Setup("file")
				srv, err := vfNewSrv(fs, ExportOptions{AttrCacheTimeout: 1})
				if err != nil {
					rec.Infra(err.Error())
					return
				}
				c := srv.client()
				root, _ := c.mnt("/")
				lr, _ := c.lookup(root, "d")
				if lr == nil || lr.Status != 0 {
					rec.Infra("lookup d")
					srv.Close()
					return
				}
				dir := vfFH(lr.FH)
				c.lookup(dir, "x")
				var sa xdrw.Sattr3
				if sz >= 0 {
					sa.Size = xdrw.U64p(uint64(sz))
				}
				before := fs.Snapshot()
				rec.Eval(1)
				desc := fmt.Sprintf("mode=%s size=%d name=%q next to the existing file \"x\"", vfC03Modes[how], sz, nm)
				r, _ := c.create(dir, nm, how, sa, [8]byte{7})
				after := fs.Snapshot()
				for _, keep := range []string{"/d/x", "/d/other"} {
					if b, a := before[keep], after[keep]; !reflect.DeepEqual(b, a) {
						rec.Violate("C03/existing-object-changed/by-create-of-another-name/mode="+vfC03Modes[how], fmt.Sprintf("%s: %s changed (size %d -> %d)", desc, keep, b.Size, a.Size), desc)
					}
				}
				if r != nil && r.Status == 0 {
					if e, ok := after["/d/"+nm]; !ok || e.Kind != refs.KFile {
						rec.Violate("C03/created-object-not-under-the-requested-name", fmt.Sprintf("%s answered OK, yet the backend has no regular file of exactly that name", desc), desc)
					}
				}
				rec.Distinct(fmt.Sprintf("near-miss-name|%s|size=%d|st=%d", vfC03Modes[how], sz, vfSt(r)))
				srv.Close()
			}
		}
	}
	rec.Set("matrix_cases", n)
	hist := evid.Pick(60, 3000)
	for ep := 0; ep < hist && rec.Violations() < 40; ep++ {
		vfC03History(rec, ep)
	}
}

func vfC03Setup(ex string) (*refs.FS, string) {
	fs := refs.New()
	fs.PlantDir("/d", 0755, 0, 0)
	fs.PlantFile("/d/other", []byte("other-data"), 0644, 0, 0)
	// neighbours whose names are derived from the name about to be created (temporary, backup and
	// lock names an implementation might use on the way): they are somebody's files too
	for _, sib := range []string{"x.tmp", ".x.tmp", "x~", "x.bak", "x.new", "x.lock", ".x.swp", "x.tmp.tmp", ".nfs-x", "x.part", "tmp"} {
		fs.PlantFile("/d/"+sib, []byte("neighbour "+sib), 0640, 7, 8)
	}
	switch ex {
	case "file":
		fs.PlantFile("/d/x", []byte("precious data"), 0640, 5, 6)
	case "dir":
		fs.PlantDir("/d/x", 0750, 5, 6)
		fs.PlantFile("/d/x/child", []byte("c"), 0644, 0, 0)
	case "symlink-to-file":
		fs.PlantFile("/d/target", []byte("target data"), 0644, 5, 6)
		fs.PlantSymlink("/d/x", "target")
	case "dangling-symlink":
		fs.PlantSymlink("/d/x", "nowhere")
	}
	return fs, "x"
}

func vfC03Case(rec *evid.Rec, n int, how uint32, ex string, setMode bool, sz int, setID int, sameVerf bool, uid uint32) {
	fs, name := vfC03Setup(ex)
	srv, err := vfNewSrv(fs, ExportOptions{AttrCacheTimeout: 1})
	if err != nil {
		rec.Infra(err.Error())
		return
	}
	defer srv.Close()
	c := srv.client()
	c.Cred = xdrw.AuthSys(1, "verif", uid, uid, nil)
	root, err := c.mnt("/")
	if err != nil {
		rec.Infra(err.Error())
		return
	}
	lr, err := c.lookup(root, "d")
	if err != nil || lr == nil || lr.Status != 0 {
		rec.Infra(fmt.Sprintf("lookup d: %v", err))
		return
	}
	dir := vfFH(lr.FH)
	creator := [8]byte{1, 2, 3, 4, 5, 6, 7, 8}
	other := [8]byte{9, 9, 9, 9, 9, 9, 9, 9}
	desc := fmt.Sprintf("mode=%s existing=%s setMode=%v size=%d setID=%d sameVerf=%v uid=%d", vfC03Modes[how], ex, setMode, sz, setID, sameVerf, uid)
	if ex == "exclusive-created" {
		r, err := c.create(dir, name, 2, xdrw.Sattr3{}, creator)
		if err != nil || r == nil || r.Status != 0 {
			rec.Violate("C03/exclusive-create-of-fresh-name-failed", fmt.Sprintf("%v %+v", err, r), desc)
			return
		}
		// give it content so that a later rewrite is visible
		w, err := c.write(vfFH(r.FH), 0, 2, []byte("excl data"))
		if err != nil || w == nil || w.Status != 0 {
			rec.Infra(fmt.Sprintf("write after exclusive create: %v %+v", err, w))
			return
		}
	}
	var sa xdrw.Sattr3
	if setMode {
		sa.Mode = xdrw.U32p(0600)
	}
	if sz >= 0 {
		sa.Size = xdrw.U64p(uint64(sz))
	}
	if setID&1 != 0 {
		sa.UID = xdrw.U32p(uid)
	}
	if setID&2 != 0 {
		sa.GID = xdrw.U32p(uid)
	}
	verf := creator
	if !sameVerf {
		verf = other
	}
	before := fs.Snapshot()
	evid.Journal(desc)
	rec.Eval(1)
	r, err := c.create(dir, name, how, sa, verf)
	if err != nil || r == nil {
		rec.Violate("C03/no-reply", fmt.Sprintf("%v", err), desc)
		return
	}
	after := fs.Snapshot()
	vfC03Judge(rec, desc, how, ex, sz, sameVerf, r, before, after)
	rec.Distinct(fmt.Sprintf("%s|%s|size=%d|sameVerf=%v|st=%d", vfC03Modes[how], ex, sz, sameVerf, r.Status))
	if n == 0 {
		rec.Sample(map[string]any{"case": desc, "status": r.Status})
	}
}

// vfC03Judge applies the outcome table to one CREATE on directory /d, name x.
func vfC03Judge(rec *evid.Rec, desc any, how uint32, ex string, sz int, sameVerf bool, r *rfc.Res, before, after map[string]refs.Entry) {
	mode := vfC03Modes[how]
	exists := ex != "none"
	same, diff := refs.SnapEqual(before, after)
	// data-bearing paths whose bytes must survive when no size is given
	dataPaths := map[string]string{"file": "/d/x", "symlink-to-file": "/d/target", "exclusive-created": "/d/x"}
	// whatever the mode and whatever is at the name: the neighbours are not the request's business
	for p, b := range before {
		if !strings.HasPrefix(p, "/d/") || p == "/d/x" || p == "/d/target" || strings.HasPrefix(p, "/d/x/") {
			continue
		}
		if a, ok := after[p]; !ok || !reflect.DeepEqual(a, b) {
			rec.Violate("C03/neighbouring-object-changed-or-destroyed/mode="+mode, fmt.Sprintf("CREATE of \"x\" (%s, existing=%s) changed %s: size %d -> %d, still there: %v", mode, ex, p, b.Size, a.Size, ok), desc)
			break
		}
	}
	if !exists {
		if r.Status != 0 {
			rec.Violate("C03/create-of-fresh-name-failed/mode="+mode, fmt.Sprintf("status %d", r.Status), desc)
		} else if e, ok := after["/d/x"]; !ok || e.Kind != refs.KFile {
			rec.Violate("C03/create-ok-but-no-file/mode="+mode, "no regular file at the name after OK", desc)
		}
		return
	}
	// the name exists
	switch how {
	case 1: // GUARDED
		if r.Status != 17 {
			rec.Violate("C03/guarded-on-existing-not-EXIST/target="+ex, fmt.Sprintf("GUARDED CREATE on existing %s answered status %d, want NFS3ERR_EXIST", ex, r.Status), desc)
		}
		if !same {
			rec.Violate("C03/existing-object-changed/mode=GUARDED/target="+ex, "GUARDED CREATE on an existing name changed the tree: "+diff, desc)
		}
	case 2: // EXCLUSIVE
		retrans := ex == "exclusive-created" && sameVerf
		if r.Status == 0 && !retrans {
			rec.Violate("C03/exclusive-on-existing-not-EXIST/target="+ex, fmt.Sprintf("EXCLUSIVE CREATE (not a retransmission) on existing %s answered OK", ex), desc)
		} else if r.Status != 0 && r.Status != 17 {
			rec.Violate("C03/exclusive-on-existing-wrong-status/target="+ex, fmt.Sprintf("status %d, want EXIST", r.Status), desc)
		}
		if !same {
			rec.Violate("C03/existing-object-changed/mode=EXCLUSIVE/target="+ex, "EXCLUSIVE CREATE on an existing name changed the tree: "+diff, desc)
		}
	case 0: // UNCHECKED: success or failure are both allowed; data must survive unless size given
		if p, ok := dataPaths[ex]; ok && sz < 0 {
			b, a := before[p], after[p]
			if a.Kind != b.Kind || a.Size != b.Size || a.Hash != b.Hash {
				rec.Violate("C03/existing-data-destroyed/mode=UNCHECKED/target="+ex, fmt.Sprintf("UNCHECKED CREATE without size changed the bytes of %s (size %d -> %d)", p, b.Size, a.Size), desc)
			}
		}
		if ex == "dir" {
			if !same {
				rec.Violate("C03/existing-object-changed/mode=UNCHECKED/target=dir", "UNCHECKED CREATE over a directory changed the tree: "+diff, desc)
			}
		}
		if r.Status != 0 && !same {
			rec.Violate("C03/failed-create-changed-tree/mode=UNCHECKED/target="+ex, diff, desc)
		}
	}
	// in every mode, unrelated objects stay as they were
	if before["/d/other"] != after["/d/other"] {
		rec.Violate("C03/unrelated-object-changed", "", desc)
	}
}

// vfC03History: random create / write / create-again / retransmit sequences
// over three names, checking the same table against a live model.
func vfC03History(rec *evid.Rec, ep int) {
	rng := evid.Rng(3, int64(ep))
	fs := refs.New()
	fs.PlantDir("/d", 0755, 0, 0)
	fs.PlantFile("/d/other", []byte("other-data"), 0644, 0, 0)
	srv, err := vfNewSrv(fs, ExportOptions{AttrCacheTimeout: []time.Duration{1, 5e9}[rng.Intn(2)], CacheNegativeLookups: rng.Intn(2) == 0})
	if err != nil {
		rec.Infra(err.Error())
		return
	}
	defer srv.Close()
	c := srv.client()
	root, _ := c.mnt("/")
	lr, err := c.lookup(root, "d")
	if err != nil || lr == nil || lr.Status != 0 {
		rec.Infra("lookup d")
		return
	}
	dir := vfFH(lr.FH)
	names := []string{"a", "b", "c"}
	exclVerf := map[string][8]byte{} // name -> verifier of the EXCLUSIVE create that made it
	var ops []string
	for i := 0; i < 25; i++ {
		name := names[rng.Intn(3)]
		p := "/d/" + name
		_, exists := fs.Peek(p)
		switch rng.Intn(5) {
		case 0: // remove
			if exists {
				ops = append(ops, "REMOVE "+name)
				c.remove(dir, name)
				if _, still := fs.Peek(p); !still {
					delete(exclVerf, name)
				}
			}
		case 1: // write some data through a looked-up handle
			if exists {
				l, err := c.lookup(dir, name)
				if err == nil && l != nil && l.Status == 0 {
					ops = append(ops, "WRITE "+name)
					c.write(vfFH(l.FH), 0, 2, []byte(fmt.Sprintf("data-%d-%d", ep, i)))
				}
			}
		default:
			how := uint32(rng.Intn(3))
			var verf [8]byte
			verf[0] = byte(rng.Intn(3))
			var sa xdrw.Sattr3
			sz := -1
			if how != 2 && rng.Intn(4) == 0 {
				sz = 0
				sa.Size = xdrw.U64p(0)
			}
			ops = append(ops, fmt.Sprintf("CREATE %s %s verf=%d size=%d (exists=%v)", vfC03Modes[how], name, verf[0], sz, exists))
			before := fs.Snapshot()
			rec.Eval(1)
			r, err := c.create(dir, name, how, sa, verf)
			if err != nil || r == nil {
				rec.Violate("C03/no-reply", fmt.Sprintf("%v", err), ops)
				return
			}
			after := fs.Snapshot()
			ex := "none"
			sameVerf := false
			if exists {
				ex = "file"
				if v, ok := exclVerf[name]; ok {
					ex = "exclusive-created"
					sameVerf = v == verf
				}
			}
			// rename paths so the judge sees /d/x
			rb, ra := map[string]refs.Entry{}, map[string]refs.Entry{}
			for k, v := range before {
				if k == p {
					k = "/d/x"
				}
				rb[k] = v
			}
			for k, v := range after {
				if k == p {
					k = "/d/x"
				}
				ra[k] = v
			}
			vfC03Judge(rec, append([]string(nil), ops...), how, ex, sz, sameVerf, r, rb, ra)
			if !exists && r.Status == 0 && how == 2 {
				exclVerf[name] = verf
			}
			rec.Distinct(fmt.Sprintf("hist|%s|%s|sameVerf=%v|st=%d", vfC03Modes[how], ex, sameVerf, r.Status))
		}
	}
}

// vfC03BackendFaults: CREATE of a name that is an existing regular file with data, in every mode
// (no size in the request), while exactly one backend call of the request fails - any call, reads
// included (a transient error of the backend). Whatever the server answers, the existing file is
// still there with its bytes and its mode: no error path may clean up what the request did not create.
func vfC03BackendFaults(rec *evid.Rec) {
	for how := uint32(0); how < 3; how++ {
		for _, cached := range []bool{false, true} {
			setup := func() (*refs.FS, *vfSrv, *vfClient, uint64, bool) {
				fs := refs.New()
				fs.PlantDir("/d", 0777, 0, 0)
				fs.PlantFile("/d/keep", []byte("precious bytes"), 0640, 1000, 1000)
				o := ExportOptions{AttrCacheTimeout: 1}
				if cached {
					o = ExportOptions{AttrCacheTimeout: time.Hour, EnableDirCache: true, CacheNegativeLookups: true}
				}
				srv, err := vfNewSrv(fs, o)
				if err != nil {
					rec.Infra(err.Error())
					return nil, nil, nil, 0, false
				}
				c := srv.client()
				root, _ := c.mnt("/")
				dl, _ := c.lookup(root, "d")
				if dl == nil || dl.Status != 0 {
					rec.Infra("lookup /d")
					srv.Close()
					return nil, nil, nil, 0, false
				}
				return fs, srv, c, vfFH(dl.FH), true
			}
			create := func(c *vfClient, dh uint64) *rfc.Res {
				r, _ := c.create(dh, "keep", how, sattrNone, [8]byte{9, 9, 9, 9, 9, 9, 9, 9})
				return r
			}
			fs, srv, c, dh, ok := setup()
			if !ok {
				return
			}
			var calls []string
			var mu sync.Mutex
			fs.SetHook(func(op *refs.Op, ph refs.Phase) error {
				if ph == refs.Before {
					mu.Lock()
					calls = append(calls, op.Name)
					mu.Unlock()
				}
				return nil
			})
			create(c, dh)
			fs.SetHook(nil)
			srv.Close()
			for k, callName := range calls {
				fs, srv, c, dh, ok := setup()
				if !ok {
					return
				}
				var n atomic.Int32
				fs.SetHook(func(op *refs.Op, ph refs.Phase) error {
					if ph == refs.Before && int(n.Add(1))-1 == k {
						return &os.PathError{Op: strings.ToLower(op.Name), Path: op.Path, Err: syscall.EIO}
					}
					return nil
				})
				r := create(c, dh)
				fs.SetHook(nil)
				rec.Eval(1)
				b, present := fs.Bytes("/d/keep")
				e, _ := fs.Snapshot()["/d/keep"]
				status := "no-reply"
				if r != nil {
					status = fmt.Sprint(r.Status)
				}
				if !present || string(b) != "precious bytes" || e.Perm&0777 != 0640 {
					rec.Violate(fmt.Sprintf("C03/existing-object-changed-or-destroyed/mode=%s/backend-call-failed=%s", []string{"UNCHECKED", "GUARDED", "EXCLUSIVE"}[how], callName), fmt.Sprintf("CREATE (%s, no size) of an existing file answered status %s while backend call #%d (%s) failed with EIO; afterwards the file is present: %v, bytes %q (were %q), mode %o (was 640)", []string{"UNCHECKED", "GUARDED", "EXCLUSIVE"}[how], status, k, callName, present, b, "precious bytes", e.Perm&0777), map[string]any{"mode": how, "failed_call": fmt.Sprintf("#%d %s", k, callName), "caches": cached, "backend_calls": calls})
				}
				rec.Distinct(fmt.Sprintf("backend-fault|how=%d|caches=%v|call=%s|status=%s", how, cached, callName, status))
				srv.Close()
			}
		}
	}
}
