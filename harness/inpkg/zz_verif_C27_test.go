//go:build verif

package absnfs

import (
	"reflect"
	"fmt"
	"io"
	"log"
	"net"
	"sort"
	"strconv"
	"strings"
	"sync"
	"testing"
	"time"

	"verif.local/lib/evid"
	"verif.local/lib/rfc"
	"verif.local/lib/xdrw"
)

// C27: portmapper registry semantics and loopback-only modification.
// Oracle: a map model (program, version, protocol) -> port, compared with
// GetMappings() after every call; strict reply decoding.

type vfStrAddr string

func (a vfStrAddr) Network() string { return "tcp" }
func (a vfStrAddr) String() string  { return string(a) }

type vfPmKey struct{ prog, vers, prot uint32 }

func vfUaddrPort(u string) (uint32, bool) {
	parts := strings.Split(u, ".")
	if len(parts) < 3 {
		return 0, false
	}
	hi, e1 := strconv.Atoi(parts[len(parts)-2])
	lo, e2 := strconv.Atoi(parts[len(parts)-1])
	if e1 != nil || e2 != nil || hi < 0 || hi > 255 || lo < 0 || lo > 255 {
		return 0, false
	}
	return uint32(hi*256 + lo), true
}

func TestVerif_C27(t *testing.T) {
	rec := evid.New("C27")
	rec.Rule = "seeded sequences of SET/UNSET/GETPORT/GETADDR/DUMP over portmap v2 and rpcbind v3/v4 (plus an unsupported version) from loopback and non-loopback peers (v4, v6, mapped, zoned), with valid, IPv6-uaddr, malformed and truncated arguments; model registry compared with GetMappings() after every call; plus a real TCP portmapper; distinct = (version, procedure, peer class, argument shape, outcome) tuples"
	defer rec.Write()
	peers := []struct {
		addr     string
		loopback bool
		decided  bool
	}{
		{"127.0.0.1:900", true, true}, {"[::1]:900", true, true}, {"127.9.9.9:900", true, true}, {"[::ffff:127.0.0.1]:900", true, true},
		{"10.0.0.5:900", false, true}, {"192.168.1.1:1", false, true}, {"[2001:db8::1]:900", false, true}, {"[::ffff:10.0.0.1]:900", false, true},
		{"[fe80::1%eth0]:900", false, true}, {"weird-non-tcp-address", false, false},
		// addresses that merely contain a 127 / 0x7f00 somewhere
		{"[2001:db8::7f00:1]:900", false, true}, {"[64:ff9b::7f00:1]:900", false, true}, {"[fe80::7f00:1%eth0]:900", false, true}, {"[2001:db8::127]:900", false, true},
		{"1.2.3.127:900", false, true}, {"128.0.0.1:900", false, true}, {"126.255.255.255:900", false, true}, {"[::ffff:128.0.0.1]:900", false, true},
		{"127.255.255.254:1", true, true}, {"[::ffff:127.1.2.3]:900", true, true},
	}
	vfC27Scripted(rec)
	eps := evid.Pick(80, 3000)
	for ep := 0; ep < eps && rec.Violations() < 30; ep++ {
		rng := evid.Rng(27, int64(ep))
		pm := NewPortmapper()
		pm.logger = log.New(io.Discard, "", 0)
		pm.SetListenAddr("127.0.0.1")
		model := map[vfPmKey]uint32{}
		var ops []string
		fail := func(sig, what string) {
			rec.Violate(sig, what, map[string]any{"episode": ep, "ops": append([]string(nil), ops...)})
		}
		syncModel := func() {
			model = map[vfPmKey]uint32{}
			for _, m := range pm.GetMappings() {
				model[vfPmKey{m.Program, m.Version, m.Protocol}] = m.Port
			}
		}
		same := func() bool {
			ms := pm.GetMappings()
			if len(ms) != len(model) {
				return false
			}
			for _, m := range ms {
				if p, ok := model[vfPmKey{m.Program, m.Version, m.Protocol}]; !ok || p != m.Port {
					return false
				}
			}
			return true
		}
		for i := 0; i < 40; i++ {
			vers := []uint32{2, 3, 4, 2, 3, 5}[rng.Intn(6)]
			proc := uint32(rng.Intn(6))
			peer := peers[rng.Intn(len(peers))]
			prog := uint32(100003 + rng.Intn(3))
			pv := uint32(1 + rng.Intn(3))
			prot := []uint32{6, 17, 6, 17, 6, 17, 132, 33}[rng.Intn(8)]
			if prot != 6 && prot != 17 {
				vers = 2 // SCTP, DCCP: only the version-2 procedures can name such a protocol
			}
			port := uint32(1 + rng.Intn(65535))
			shape := []string{"valid", "valid", "valid", "ipv6-uaddr", "malformed", "truncated"}[rng.Intn(6)]
			netid := map[uint32]string{6: "tcp", 17: "udp"}[prot]
			var args []byte
			if vers == 2 {
				args = (&xdrw.W{}).U32(prog).U32(pv).U32(prot).U32(port).B
			} else {
				uaddr := fmt.Sprintf("127.0.0.1.%d.%d", port/256, port%256)
				if shape == "ipv6-uaddr" {
					uaddr = fmt.Sprintf("::1.%d.%d", port/256, port%256)
					netid += "6"
				} else if shape == "malformed" {
					uaddr = "not-a-uaddr"
				}
				args = (&xdrw.W{}).U32(prog).U32(pv).Str(netid).Str(uaddr).Str("owner").B
			}
			if shape == "truncated" && len(args) > 4 {
				args = args[:4*rng.Intn(len(args)/4)]
			}
			key := vfPmKey{prog, pv, prot}
			xid := uint32(1000 + i)
			msg := append(xdrw.CallHeader(xid, 100000, vers, proc, xdrw.Cred{}), args...)
			var remote net.Addr = vfStrAddr(peer.addr)
			if a, err := net.ResolveTCPAddr("tcp", peer.addr); err == nil && !strings.Contains(peer.addr, "%") {
				remote = a
			}
			op := fmt.Sprintf("v%d proc=%d from %s %s prog=%d vers=%d prot=%d port=%d", vers, proc, peer.addr, shape, prog, pv, prot, port)
			ops = append(ops, op)
			beforeLive := pm.GetMappings()
			before := append([]PortMapping(nil), beforeLive...) // what GetMappings said, by value
			rec.Eval(1)
			raw, err := pm.handleCall(msg, remote)
			if !vfSameMappings(before, beforeLive) {
				fail("C27/GetMappings-result-changed-after-it-was-returned", fmt.Sprintf("%s: the slice GetMappings() returned before the call reads %v now, it read %v", op, beforeLive, before))
			}
			pcls := "non-loopback"
			if peer.loopback {
				pcls = "loopback"
			} else if !peer.decided {
				pcls = "undecided"
			}
			if err != nil {
				rec.Distinct(fmt.Sprintf("v%d|proc=%d|%s|%s|no-reply", vers, proc, pcls, shape))
				continue
			}
			changed := !vfSameMappings(before, pm.GetMappings())
			if changed && !peer.loopback && peer.decided {
				fail(fmt.Sprintf("C27/non-loopback-peer-changed-registry/vers=%d/proc=%d", vers, proc), op)
				syncModel()
			}
			rep, derr := rfc.DecodeReply(raw)
			if derr != nil {
				fail(fmt.Sprintf("C27/reply-undecodable/vers=%d/%s", vers, vfDigits.ReplaceAllString(derr.Error(), "N")), op+": "+derr.Error())
				syncModel()
				continue
			}
			if rep.XID != xid {
				fail("C27/xid-not-echoed", op)
			}
			out := fmt.Sprintf("accept=%d", rep.AcceptStat)
			if !rep.Denied && rep.AcceptStat == 0 {
				mutOK := peer.loopback
				switch {
				case proc == 0:
					if len(rep.Body) != 0 {
						fail("C27/null-reply-has-body", op)
					}
				case proc == 1 || proc == 2:
					b, berr := rfc.DecodeBool(rep.Body)
					if berr != nil {
						fail(fmt.Sprintf("C27/set-unset-result-undecodable/vers=%d", vers), op+": "+berr.Error())
						syncModel()
						break
					}
					out = fmt.Sprintf("bool=%v", b)
					full := shape == "valid" || shape == "ipv6-uaddr" && vers == 2 || shape == "malformed" && vers == 2
					if b && !changed && proc == 1 && full || b && proc == 1 && shape == "ipv6-uaddr" {
						// answered true: the registry must hold the key with the port
						if p, ok := vfLookup(pm.GetMappings(), key); !ok || p != port {
							fail(fmt.Sprintf("C27/set-answered-true-but-not-registered/vers=%d/%s", vers, shape), op)
						}
					}
					if b && proc == 2 {
						if _, ok := vfLookup(pm.GetMappings(), key); ok && (shape == "valid" || vers == 2 && shape != "truncated") {
							fail(fmt.Sprintf("C27/unset-answered-true-but-still-registered/vers=%d", vers), op)
						}
					}
					if !b && changed {
						fail(fmt.Sprintf("C27/answered-false-but-registry-changed/vers=%d/proc=%d", vers, proc), op)
					}
					if b && !mutOK && peer.decided {
						fail(fmt.Sprintf("C27/non-loopback-peer-told-true/vers=%d/proc=%d", vers, proc), op)
					}
					// the model follows what the reply claims
					if b && shape != "truncated" {
						if proc == 1 {
							if p, ok := vfLookup(pm.GetMappings(), key); ok {
								model[key] = p
							}
						} else {
							delete(model, key)
							// UNSET may also remove the other protocol of the same program/version
							for _, m := range []uint32{6, 17} {
								if _, ok := vfLookup(pm.GetMappings(), vfPmKey{prog, pv, m}); !ok {
									delete(model, vfPmKey{prog, pv, m})
								}
							}
						}
					}
				case proc == 3 && vers == 2:
					v, derr := rfc.DecodeU32(rep.Body)
					if derr != nil {
						fail("C27/getport-result-undecodable", op+": "+derr.Error())
						break
					}
					if shape == "valid" || shape == "malformed" || shape == "ipv6-uaddr" {
						if v != model[key] {
							fail("C27/getport-disagrees-with-registry", fmt.Sprintf("%s: answered %d, registry has %d", op, v, model[key]))
						}
					}
					out = fmt.Sprintf("port-found=%v", v != 0)
				case proc == 3:
					s, derr := rfc.DecodeString(rep.Body)
					if derr != nil {
						fail("C27/getaddr-result-undecodable", op+": "+derr.Error())
						break
					}
					if shape == "valid" || shape == "malformed" {
						want := model[key]
						got, ok := vfUaddrPort(s)
						if want == 0 && s != "" || want != 0 && (!ok || got != want) {
							fail("C27/getaddr-disagrees-with-registry", fmt.Sprintf("%s: answered %q, registry has port %d", op, s, want))
						}
					}
					out = fmt.Sprintf("uaddr-found=%v", s != "")
				case proc == 4:
					var ents []rfc.PmapEntry
					var derr error
					if vers == 2 {
						ents, derr = rfc.DecodePmapDump(rep.Body)
					} else {
						ents, derr = rfc.DecodeRpcbDump(rep.Body)
					}
					if derr != nil {
						fail(fmt.Sprintf("C27/dump-result-undecodable/vers=%d", vers), op+": "+derr.Error())
						break
					}
					if why := vfC27DumpAgrees(vers, ents, model); why != "" {
						fail(fmt.Sprintf("C27/dump-disagrees-with-registry/vers=%d", vers), op+": "+why)
					}
					out = fmt.Sprintf("entries=%d", min64i(len(ents), 3))
				}
			}
			if shape == "truncated" {
				syncModel() // how much of a cut argument list still counts is not prescribed
			}
			if !same() {
				if !changed || peer.loopback {
					fail(fmt.Sprintf("C27/registry-differs-from-model/vers=%d/proc=%d/%s", vers, proc, shape), fmt.Sprintf("%s: GetMappings=%v model=%v", op, pm.GetMappings(), model))
				}
				syncModel()
			}
			rec.Distinct(fmt.Sprintf("v%d|proc=%d|%s|%s|%s", vers, proc, pcls, shape, out))
			// read everything back (every second step): all three DUMP variants and the two lookups
			// of the key just used must tell what GetMappings() holds now - whatever happened
			// before (a reply served earlier must not outlive a later change of the registry)
			if rng.Intn(2) == 0 {
				if what := vfC27ReadBack(pm, key, uint32(5000+i)); what != "" {
					fail("C27/read-back-disagrees-with-registry/"+strings.SplitN(what, ":", 2)[0], op+" then "+what)
				}
				rec.Add("read_backs", 1)
			}
		}
		if ep == 0 {
			rec.Sample(map[string]any{"ops": ops})
		}
	}
	// ---- concurrent DUMPs against SET/UNSET (race detector on): every DUMP reply is a registry
	// state that existed: no key listed twice, every listed port one that was registered for it ----
	for ep := 0; ep < evid.Pick(4, 60); ep++ {
		pm := NewPortmapper()
		pm.logger = log.New(io.Discard, "", 0)
		lo, _ := net.ResolveTCPAddr("tcp", "127.0.0.1:901")
		stop := make(chan struct{})
		var wg sync.WaitGroup
		wg.Add(1)
		go func() {
			defer wg.Done()
			for i := 0; ; i++ {
				select {
				case <-stop:
					return
				default:
				}
				prog := uint32(100003 + i%4)
				args := (&xdrw.W{}).U32(prog).U32(3).U32(6).U32(uint32(2000 + i%7)).B
				proc := uint32(1 + (i/4)%2) // SET ... UNSET ...
				pm.handleCall(append(xdrw.CallHeader(uint32(i), 100000, 2, proc, xdrw.Cred{}), args...), lo)
			}
		}()
		dumps := 0
		for i := 0; i < 400; i++ {
			vers := []uint32{2, 3, 4}[i%3]
			raw, err := pm.handleCall(xdrw.CallHeader(uint32(9000+i), 100000, vers, 4, xdrw.Cred{}), lo)
			if err != nil {
				continue
			}
			rep, derr := rfc.DecodeReply(raw)
			if derr != nil || rep.Denied || rep.AcceptStat != 0 {
				continue
			}
			var ents []rfc.PmapEntry
			if vers == 2 {
				ents, derr = rfc.DecodePmapDump(rep.Body)
			} else {
				ents, derr = rfc.DecodeRpcbDump(rep.Body)
			}
			if derr != nil {
				rec.Violate(fmt.Sprintf("C27/dump-result-undecodable/vers=%d", vers), "concurrent with SET/UNSET: "+derr.Error(), nil)
				continue
			}
			dumps++
			seen := map[string]bool{}
			for _, e := range ents {
				if vers != 2 {
					e.Prot = map[string]uint32{"tcp": 6, "udp": 17, "tcp6": 6, "udp6": 17}[e.Netid]
					e.Port, _ = vfUaddrPort(e.Addr)
				}
				k := fmt.Sprintf("%d/%d/%d", e.Prog, e.Vers, e.Prot)
				if seen[k] {
					rec.Violate("C27/dump-lists-a-key-twice/concurrent-with-SET-UNSET", fmt.Sprintf("v%d DUMP lists %s twice: %+v", vers, k, ents), nil)
				}
				seen[k] = true
				if e.Prog >= 100003 && e.Prog <= 100006 && e.Vers == 3 && e.Prot == 6 && (e.Port < 2000 || e.Port > 2006) {
					rec.Violate("C27/dump-reports-a-port-never-registered/concurrent-with-SET-UNSET", fmt.Sprintf("v%d DUMP: %+v", vers, e), nil)
				}
			}
		}
		close(stop)
		wg.Wait()
		rec.Eval(dumps)
		rec.Distinct(fmt.Sprintf("concurrent-dump|dumps>0=%v", dumps > 0))
	}
	// ---- concurrent SET/UNSET by several loopback peers, each on its own keys (DUMP readers running):
	// a peer's keys are touched by nobody else, so the final registry must be the union of what the
	// replies told each peer about its own keys ----
	for ep := 0; ep < evid.Pick(6, 120); ep++ {
		pm := NewPortmapper()
		pm.logger = log.New(io.Discard, "", 0)
		lo, _ := net.ResolveTCPAddr("tcp", "127.0.0.1:902")
		const peers = 6
		finals := make([]map[vfPmKey]uint32, peers)
		var bad sync.Map
		var wg sync.WaitGroup
		stop := make(chan struct{})
		var rd sync.WaitGroup
		for r := 0; r < 2; r++ {
			rd.Add(1)
			go func(r int) {
				defer rd.Done()
				for i := 0; ; i++ {
					select {
					case <-stop:
						return
					default:
					}
					pm.handleCall(xdrw.CallHeader(uint32(70000+i), 100000, []uint32{2, 3, 4}[i%3], 4, xdrw.Cred{}), lo)
				}
			}(r)
		}
		for w := 0; w < peers; w++ {
			wg.Add(1)
			go func(w int) {
				defer wg.Done()
				rng := evid.Rng(2727, int64(ep), int64(w))
				mine := map[vfPmKey]uint32{}
				for i := 0; i < 150; i++ {
					k := vfPmKey{uint32(200000 + w), uint32(1 + rng.Intn(12)), 6}
					port := uint32(3000 + rng.Intn(1000))
					proc := uint32(1 + rng.Intn(2))
					args := (&xdrw.W{}).U32(k.prog).U32(k.vers).U32(k.prot).U32(port).B
					raw, err := pm.handleCall(append(xdrw.CallHeader(uint32(w*1000+i), 100000, 2, proc, xdrw.Cred{}), args...), lo)
					if err != nil {
						bad.Store(fmt.Sprintf("peer %d: no reply: %v", w, err), true)
						return
					}
					rep, derr := rfc.DecodeReply(raw)
					if derr != nil || rep.Denied || rep.AcceptStat != 0 {
						bad.Store(fmt.Sprintf("peer %d: call not accepted", w), true)
						return
					}
					// the peer follows what the replies claim: TRUE to SET - the key is registered with
					// this port; TRUE to UNSET - it is gone; FALSE - nothing changed
					if v, _ := rfc.DecodeU32(rep.Body); v != 0 {
						if proc == 1 {
							mine[k] = port
						} else {
							delete(mine, k)
						}
					}
				}
				finals[w] = mine
			}(w)
		}
		wg.Wait()
		close(stop)
		rd.Wait()
		rec.Eval(peers * 150)
		bad.Range(func(k, _ any) bool {
			rec.Violate("C27/loopback-call-not-answered/concurrent-peers-on-disjoint-keys", k.(string), nil)
			return false
		})
		want := map[vfPmKey]uint32{}
		for _, m := range finals {
			for k, p := range m {
				want[k] = p
			}
		}
		got := map[vfPmKey]uint32{}
		for _, m := range pm.GetMappings() {
			if m.Program >= 200000 {
				got[vfPmKey{m.Program, m.Version, m.Protocol}] = m.Port
			}
		}
		if !reflect.DeepEqual(got, want) {
			rec.Violate("C27/registry-differs-from-the-union-of-the-peers-histories/concurrent-peers-on-disjoint-keys", fmt.Sprintf("after %d peers ran SET/UNSET on disjoint keys: registry has %d of their entries, their histories leave %d; registry=%v histories=%v", peers, len(got), len(want), got, want), nil)
		}
		rec.Distinct(fmt.Sprintf("concurrent-peers|agree=%v", reflect.DeepEqual(got, want)))
	}
	// ---- real TCP portmapper on a high port, loopback client ----
	pm := NewPortmapper()
	pm.logger = log.New(io.Discard, "", 0)
	var port int
	for _, p := range []int{45111, 45112, 45113, 45114} {
		if err := pm.StartOnPort(p); err == nil {
			port = p
			break
		}
	}
	if port == 0 {
		rec.Inconclusive(1)
		return
	}
	defer pm.Stop()
	conn, err := net.DialTimeout("tcp", fmt.Sprintf("127.0.0.1:%d", port), 10*time.Second)
	if err != nil {
		rec.Inconclusive(1)
		return
	}
	defer conn.Close()
	conn.SetDeadline(time.Now().Add(30 * time.Second))
	call := func(vers, proc uint32, args []byte) (*rfc.Reply, error) {
		conn.Write(xdrw.Record(append(xdrw.CallHeader(4242, 100000, vers, proc, xdrw.Cred{}), args...)))
		var h [4]byte
		if _, err := io.ReadFull(conn, h[:]); err != nil {
			return nil, err
		}
		n := (uint32(h[0])<<24 | uint32(h[1])<<16 | uint32(h[2])<<8 | uint32(h[3])) & 0x7fffffff
		b := make([]byte, n)
		if _, err := io.ReadFull(conn, b); err != nil {
			return nil, err
		}
		return rfc.DecodeReply(b)
	}
	rec.Eval(3)
	if r, err := call(2, 1, (&xdrw.W{}).U32(200001).U32(1).U32(6).U32(7777).B); err != nil || r.AcceptStat != 0 {
		rec.Violate("C27/tcp/set-from-loopback-failed", fmt.Sprintf("%v", err), nil)
	} else if b, _ := rfc.DecodeBool(r.Body); !b || pm.GetPort(200001, 1, 6) != 7777 {
		rec.Violate("C27/tcp/set-from-loopback-not-registered", "", nil)
	}
	if r, err := call(2, 3, (&xdrw.W{}).U32(200001).U32(1).U32(6).U32(0).B); err != nil || r.AcceptStat != 0 {
		rec.Violate("C27/tcp/getport-failed", fmt.Sprintf("%v", err), nil)
	} else if v, _ := rfc.DecodeU32(r.Body); v != 7777 {
		rec.Violate("C27/tcp/getport-wrong", fmt.Sprintf("%d", v), nil)
	}
	if r, err := call(2, 4, nil); err != nil || r.AcceptStat != 0 {
		rec.Violate("C27/tcp/dump-failed", fmt.Sprintf("%v", err), nil)
	} else if ents, derr := rfc.DecodePmapDump(r.Body); derr != nil || len(ents) != len(pm.GetMappings()) {
		rec.Violate("C27/tcp/dump-wrong", fmt.Sprintf("%v", derr), nil)
	}
	rec.Distinct("tcp|loopback|set-getport-dump")
}

func vfLookup(ms []PortMapping, k vfPmKey) (uint32, bool) {
	for _, m := range ms {
		if m.Program == k.prog && m.Version == k.vers && m.Protocol == k.prot {
			return m.Port, true
		}
	}
	return 0, false
}

func vfSameMappings(a, b []PortMapping) bool {
	if len(a) != len(b) {
		return false
	}
	key := func(m PortMapping) string { return fmt.Sprint(m.Program, m.Version, m.Protocol, m.Port) }
	var ka, kb []string
	for _, m := range a {
		ka = append(ka, key(m))
	}
	for _, m := range b {
		kb = append(kb, key(m))
	}
	sort.Strings(ka)
	sort.Strings(kb)
	return strings.Join(ka, "|") == strings.Join(kb, "|")
}

// vfC27ReadBack asks a loopback peer for DUMP (v2, v3, v4), GETPORT (v2) and GETADDR (v3) and
// compares every answer with GetMappings(). It returns "" or "<facet>: <what differs>".
func vfC27ReadBack(pm *Portmapper, key vfPmKey, xid uint32) string {
	reg := map[vfPmKey]uint32{}
	for _, m := range pm.GetMappings() {
		reg[vfPmKey{m.Program, m.Version, m.Protocol}] = m.Port
	}
	lo, _ := net.ResolveTCPAddr("tcp", "127.0.0.1:777")
	call := func(vers, proc uint32, args []byte) ([]byte, string) {
		raw, err := pm.handleCall(append(xdrw.CallHeader(xid, 100000, vers, proc, xdrw.Cred{}), args...), lo)
		if err != nil {
			return nil, fmt.Sprintf("no reply: %v", err)
		}
		rep, derr := rfc.DecodeReply(raw)
		if derr != nil || rep.Denied || rep.AcceptStat != 0 {
			return nil, fmt.Sprintf("not accepted: %v", derr)
		}
		return rep.Body, ""
	}
	for _, vers := range []uint32{2, 3, 4} {
		body, e := call(vers, 4, nil)
		if e != "" {
			return fmt.Sprintf("dump-v%d: %s", vers, e)
		}
		var ents []rfc.PmapEntry
		var derr error
		if vers == 2 {
			ents, derr = rfc.DecodePmapDump(body)
		} else {
			ents, derr = rfc.DecodeRpcbDump(body)
		}
		if derr != nil {
			return fmt.Sprintf("dump-v%d: undecodable: %v", vers, derr)
		}
		if why := vfC27DumpAgrees(vers, ents, reg); why != "" {
			return fmt.Sprintf("dump-v%d: %s", vers, why)
		}
	}
	body, e := call(2, 3, (&xdrw.W{}).U32(key.prog).U32(key.vers).U32(key.prot).U32(0).B)
	if e != "" {
		return "getport: " + e
	}
	if v, derr := rfc.DecodeU32(body); derr != nil || v != reg[key] {
		return fmt.Sprintf("getport: answered %d (%v), registry has %d", v, derr, reg[key])
	}
	netid := map[uint32]string{6: "tcp", 17: "udp"}[key.prot]
	if netid == "" {
		return "" // no netid names this protocol: GETADDR cannot ask for it
	}
	body, e = call(3, 3, (&xdrw.W{}).U32(key.prog).U32(key.vers).Str(netid).Str("").Str("").B)
	if e != "" {
		return "getaddr: " + e
	}
	sv, derr := rfc.DecodeString(body)
	got, ok := vfUaddrPort(sv)
	if want := reg[key]; derr != nil || want == 0 && sv != "" || want != 0 && (!ok || got != want) {
		return fmt.Sprintf("getaddr: answered %q (%v), registry has port %d", sv, derr, want)
	}
	return ""
}

// vfC27DumpAgrees compares a decoded DUMP with the registry. The version-2 list carries protocol
// numbers and must be the registry exactly. The rpcbind lists carry netids: every tcp/udp
// registration must appear exactly once with its port; a registration of another protocol, which no
// netid of this server names, may be left out or reported under whatever netid the server picks (it is
// matched by program, version and port) - but nothing else may appear.
func vfC27DumpAgrees(vers uint32, ents []rfc.PmapEntry, reg map[vfPmKey]uint32) string {
	if vers == 2 {
		if len(ents) != len(reg) {
			return fmt.Sprintf("%d entries, registry has %d", len(ents), len(reg))
		}
		seen := map[vfPmKey]bool{}
		for _, e := range ents {
			k := vfPmKey{e.Prog, e.Vers, e.Prot}
			if p, ok := reg[k]; !ok || p != e.Port || seen[k] {
				return fmt.Sprintf("reports (%d,%d,%d) -> %d, registry says %d (present=%v, repeated=%v)", e.Prog, e.Vers, e.Prot, e.Port, p, ok, seen[k])
			}
			seen[k] = true
		}
		return ""
	}
	if len(ents) > len(reg) {
		return fmt.Sprintf("%d entries, registry has %d", len(ents), len(reg))
	}
	seen := map[vfPmKey]bool{}
	for _, e := range ents {
		prot := map[string]uint32{"tcp": 6, "udp": 17, "tcp6": 6, "udp6": 17}[e.Netid]
		port, _ := vfUaddrPort(e.Addr)
		k := vfPmKey{e.Prog, e.Vers, prot}
		if p, ok := reg[k]; ok && p == port && !seen[k] {
			seen[k] = true
			continue
		}
		other := false
		for rk, rp := range reg {
			if rk.prot != 6 && rk.prot != 17 && rk.prog == e.Prog && rk.vers == e.Vers && rp == port {
				other = true
			}
		}
		if !other {
			return fmt.Sprintf("reports (%d,%d,%q) -> %d, which is not a registration", e.Prog, e.Vers, e.Netid, port)
		}
	}
	for k, p := range reg {
		if (k.prot == 6 || k.prot == 17) && !seen[k] {
			return fmt.Sprintf("registration (%d,%d,%d) -> %d is missing from the list", k.prog, k.vers, k.prot, p)
		}
	}
	return ""
}

// vfC27Scripted: the short histories every registry goes through, each followed by the full
// read-back (DUMP v2/v3/v4, GETPORT, GETADDR against GetMappings): a key set, listed, set again with
// another port (through the wire and through RegisterService), listed, unset, listed, set again.
func vfC27Scripted(rec *evid.Rec) {
	for _, viaAPI := range []bool{false, true} {
		pm := NewPortmapper()
		pm.logger = log.New(io.Discard, "", 0)
		lo, _ := net.ResolveTCPAddr("tcp", "127.0.0.1:903")
		key := vfPmKey{100003, 3, 6}
		other := vfPmKey{100005, 3, 17}
		set := func(k vfPmKey, port uint32, xid uint32) {
			if viaAPI {
				pm.RegisterService(k.prog, k.vers, k.prot, port)
				return
			}
			pm.handleCall(append(xdrw.CallHeader(xid, 100000, 2, 1, xdrw.Cred{}), (&xdrw.W{}).U32(k.prog).U32(k.vers).U32(k.prot).U32(port).B...), lo)
		}
		unset := func(k vfPmKey, xid uint32) {
			if viaAPI {
				pm.UnregisterService(k.prog, k.vers, k.prot)
				return
			}
			pm.handleCall(append(xdrw.CallHeader(xid, 100000, 2, 2, xdrw.Cred{}), (&xdrw.W{}).U32(k.prog).U32(k.vers).U32(k.prot).U32(0).B...), lo)
		}
		steps := []struct {
			name string
			do   func()
		}{
			{"SET key->2049", func() { set(key, 2049, 1) }},
			{"SET other->635", func() { set(other, 635, 2) }},
			{"SET key->2050 (registered key, another port)", func() { set(key, 2050, 3) }},
			{"SET key->2051 (again)", func() { set(key, 2051, 4) }},
			{"UNSET other", func() { unset(other, 5) }},
			{"SET other->636", func() { set(other, 636, 6) }},
			{"UNSET key", func() { unset(key, 7) }},
			{"SET key->2049", func() { set(key, 2049, 8) }},
		}
		for i, st := range steps {
			st.do()
			rec.Eval(1)
			// list before and after every step: a listing that was produced once must not be served again
			// after the registry changed
			for _, k := range []vfPmKey{key, other} {
				if what := vfC27ReadBack(pm, k, uint32(8000+10*i)); what != "" {
					rec.Violate("C27/read-back-disagrees-with-registry/scripted/"+strings.SplitN(what, ":", 2)[0], fmt.Sprintf("after %q (through the Go API: %v): %s", st.name, viaAPI, what), map[string]any{"step": st.name, "via_api": viaAPI})
				}
			}
			rec.Distinct(fmt.Sprintf("scripted|api=%v|step=%d", viaAPI, i))
		}
	}
}
