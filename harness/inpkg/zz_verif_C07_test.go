//go:build verif

package absnfs

import (
	"fmt"
	"path"
	"strings"
	"testing"

	"verif.local/lib/evid"
	"verif.local/lib/refs"
	"verif.local/lib/xdrw"
)

// C07: the backend only sees clean in-export paths; symlink targets stay contained.
// Oracle: online assertion on every backend call made while a request is
// running: the path argument is absolute and normalized, and is either the
// path of a handle named in the request or that path plus ONE component that
// passes an independent validator.

func vfNameValid(n string) bool {
	if n == "" || len(n) > 255 || n == "." || n == ".." {
		return false
	}
	return !strings.ContainsAny(n, "/\\\x00")
}

func vfTargetEscapes(t string) bool {
	if strings.HasPrefix(t, "/") {
		return true
	}
	for _, c := range strings.Split(t, "/") {
		if c == ".." {
			return true
		}
	}
	return false
}

type vfC07 struct {
	rec     *evid.Rec
	fs      *refs.FS
	srv     *vfSrv
	c       *vfClient
	handles map[string]uint64 // path -> handle
	checked int
}

// check verifies the backend calls logged since lo for a request that named
// the handle paths hp (1 or 2) and the names nm.
func (m *vfC07) check(lo int, proc string, hp []string, names []string, desc string) {
	ops := m.fs.LogSlice(lo, m.fs.LogLen())
	for _, op := range ops {
		for _, p := range []string{op.Path, op.Path2} {
			if p == "" {
				continue
			}
			m.checked++
			if !refs.CleanAbs(p) {
				m.rec.Violate("C07/backend-path-not-clean-absolute/proc="+proc, fmt.Sprintf("%s passed %q to backend %s", desc, p, op.Name), desc)
				continue
			}
			ok := false
			for _, h := range hp {
				if p == h {
					ok = true
				}
				if path.Dir(p) == h && p != h {
					base := path.Base(p)
					if vfNameValid(base) {
						// the extra component must be one of the names in the request, or (for
						// listing procedures) an existing directory entry
						for _, n := range names {
							if n == base {
								ok = true
							}
						}
						if proc == "READDIR" || proc == "READDIRPLUS" {
							ok = true
						}
					}
				}
			}
			if !ok {
				m.rec.Violate("C07/backend-path-outside-handle-plus-one-name/proc="+proc, fmt.Sprintf("%s made backend %s touch %q (handle paths %v)", desc, op.Name, p, hp), desc)
			}
		}
	}
}

func TestVerif_C07(t *testing.T) {
	rec := evid.New("C07")
	rec.Rule = "bounded-exhaustive names over the alphabet {a . / \\ NUL space 0xFF %} up to length 3 (quick) or 4 (thorough) plus boundary lengths, in every name-taking procedure; symlink targets: all sequences of <=4 components from {a .. . empty} with/without leading slash; hostile READLINK targets planted in the backend; MNT dirpaths. distinct = (procedure, name class, status) tuples"
	defer rec.Write()
	fs := refs.New()
	fs.PlantDir("/d", 0755, 0, 0)
	fs.PlantDir("/d/sub", 0755, 0, 0)
	fs.PlantFile("/d/a", []byte("a"), 0644, 0, 0)
	fs.PlantFile("/top", []byte("top secret"), 0644, 0, 0)
	srv, err := vfNewSrv(fs, ExportOptions{AttrCacheTimeout: 1})
	if err != nil {
		rec.Infra(err.Error())
		return
	}
	defer srv.Close()
	c := srv.client()
	root, err := c.mnt("/")
	if err != nil {
		rec.Infra(err.Error())
		return
	}
	lr, _ := c.lookup(root, "d")
	if lr == nil || lr.Status != 0 {
		rec.Infra("lookup d")
		return
	}
	dh := vfFH(lr.FH)
	lr, _ = c.lookup(dh, "sub")
	sh := vfFH(lr.FH)
	m := &vfC07{rec: rec, fs: fs, srv: srv, c: c}

	alpha := []string{"a", ".", "/", "\\", "\x00", " ", "\xff", "%"}
	maxLen := evid.Pick(3, 4)
	var names []string
	var gen func(prefix string, n int)
	gen = func(prefix string, n int) {
		if n == 0 {
			return
		}
		for _, ch := range alpha {
			s := prefix + ch
			names = append(names, s)
			gen(s, n-1)
		}
	}
	names = append(names, "")
	gen("", maxLen)
	for _, l := range []int{254, 255, 256, 1000, 8192, 8193} {
		names = append(names, strings.Repeat("n", l))
	}
	// the limit is 255 BYTES: multibyte names whose character count and byte count fall on
	// different sides of it (2-, 3- and 4-byte UTF-8 sequences)
	for _, u := range []string{"\u00e9", "\u20ac", "\U0001F600"} {
		for _, nb := range []int{252, 254, 255, 256, 258, 260, 510, 1020} {
			k := nb / len(u)
			names = append(names, strings.Repeat(u, k), strings.Repeat("a", nb-k*len(u))+strings.Repeat(u, k))
		}
		names = append(names, strings.Repeat(u, 255), strings.Repeat(u, 256))
	}
	names = append(names, "..", "../top", "a/../../top", "sub/../a", strings.Repeat("../", 50)+"top", "a\x00b", "..\\top")
	rng := evid.Rng(7)
	for i := 0; i < 100; i++ {
		b := make([]byte, 1+rng.Intn(300))
		for j := range b {
			b[j] = byte(rng.Intn(256))
		}
		names = append(names, string(b))
	}
	rec.Set("names_tried", len(names))
	cls := func(n string) string {
		switch {
		case n == "":
			return "empty"
		case n == "." || n == "..":
			return "dot"
		case len(n) > 255:
			return "too-long"
		case strings.ContainsAny(n, "/\\"):
			return "separator"
		case strings.Contains(n, "\x00"):
			return "nul"
		}
		return "valid"
	}
	dp := []string{"/d"}
	for _, n := range names {
		desc := fmt.Sprintf("name=%q", n)
		one := func(proc string, f func() (uint32, error)) {
			lo := fs.LogLen()
			evid.Journal(proc + " " + desc)
			rec.Eval(1)
			st, err := f()
			if err != nil {
				if _, shape := err.(*vfShapeErr); !shape {
					// RPC-level rejection (e.g. GARBAGE_ARGS for NUL/too long strings) is fine
					st = 99999
				}
			}
			m.check(lo, proc, dp, []string{n}, proc+" "+desc)
			if st == 0 && !vfNameValid(n) {
				rec.Violate("C07/invalid-name-accepted/proc="+proc, fmt.Sprintf("%s %s answered OK", proc, desc), desc)
			}
			rec.Distinct(fmt.Sprintf("%s|%s|st=%d", proc, cls(n), st))
		}
		st := func(r interface{ GetStatus() uint32 }, err error) (uint32, error) { return 0, nil }
		_ = st
		one("LOOKUP", func() (uint32, error) { r, e := c.lookup(dh, n); return vfSt(r), e })
		one("CREATE", func() (uint32, error) { r, e := c.create(dh, n, 0, sattrNone, [8]byte{}); return vfSt(r), e })
		one("MKDIR", func() (uint32, error) { r, e := c.mkdir(dh, n, sattrNone); return vfSt(r), e })
		one("SYMLINK", func() (uint32, error) { r, e := c.symlink(dh, n, "a", sattrNone); return vfSt(r), e })
		one("MKNOD", func() (uint32, error) { _, r, e := c.nfs(11, xdrw.ArgMknod(dh, n, 6)); return vfSt(r), e })
		one("LINK", func() (uint32, error) { _, r, e := c.nfs(15, xdrw.ArgLink(dh, dh, n)); return vfSt(r), e })
		// RENAME: hostile name on each side
		lo := fs.LogLen()
		rec.Eval(2)
		r1, _ := c.rename(dh, n, sh, "dst")
		m.check(lo, "RENAME", []string{"/d", "/d/sub"}, []string{n, "dst"}, "RENAME from "+desc)
		if vfSt(r1) == 0 && !vfNameValid(n) {
			rec.Violate("C07/invalid-name-accepted/proc=RENAME-from", desc, desc)
		}
		lo = fs.LogLen()
		r2, _ := c.rename(dh, "a", sh, n)
		m.check(lo, "RENAME", []string{"/d", "/d/sub"}, []string{"a", n}, "RENAME to "+desc)
		if vfSt(r2) == 0 && !vfNameValid(n) {
			rec.Violate("C07/invalid-name-accepted/proc=RENAME-to", desc, desc)
		}
		if vfSt(r2) == 0 { // move it back
			c.rename(sh, n, dh, "a")
		}
		rec.Distinct(fmt.Sprintf("RENAME|%s|st=%d,%d", cls(n), vfSt(r1), vfSt(r2)))
		one("REMOVE", func() (uint32, error) { r, e := c.remove(dh, n); return vfSt(r), e })
		one("RMDIR", func() (uint32, error) { r, e := c.rmdir(dh, n); return vfSt(r), e })
		// the sentinel outside /d must never be touched
		if b, ok := fs.Bytes("/top"); !ok || string(b) != "top secret" {
			rec.Violate("C07/object-outside-directory-modified", desc, desc)
			fs.PlantFile("/top", []byte("top secret"), 0644, 0, 0)
		}
		if _, ok := fs.Peek("/d/a"); !ok {
			fs.PlantFile("/d/a", []byte("a"), 0644, 0, 0)
		}
	}

	// symlink targets
	comps := []string{"a", "..", ".", ""}
	var targets []string
	var tg func(parts []string, n int)
	tg = func(parts []string, n int) {
		if len(parts) > 0 {
			t := strings.Join(parts, "/")
			targets = append(targets, t, "/"+t, t+"/")
		}
		if n == 0 {
			return
		}
		for _, c := range comps {
			tg(append(append([]string(nil), parts...), c), n-1)
		}
	}
	tg(nil, 4)
	targets = append(targets, "/", "/etc/passwd", "a/b/c", "../../etc/passwd", "a/../../x", "..", "...", "..a", "a..", "\x00", strings.Repeat("a/", 2000)+"..")
	rec.Set("symlink_targets_tried", len(targets))
	for i, tgt := range targets {
		name := fmt.Sprintf("ln%d", i)
		lo := fs.LogLen()
		rec.Eval(1)
		r, err := c.symlink(dh, name, tgt, sattrNone)
		m.check(lo, "SYMLINK", dp, []string{name}, fmt.Sprintf("SYMLINK target=%q", tgt))
		if err == nil && vfSt(r) == 0 {
			if vfTargetEscapes(tgt) {
				rec.Violate("C07/escaping-symlink-target-accepted", fmt.Sprintf("SYMLINK target %q answered OK", tgt), tgt)
			}
		}
		if e, ok := fs.Peek("/d/" + name); ok && e.Kind == refs.KLink && vfTargetEscapes(e.Target) {
			rec.Violate("C07/escaping-symlink-stored-in-backend", fmt.Sprintf("backend holds symlink with target %q", e.Target), tgt)
		}
		k := "contained"
		if vfTargetEscapes(tgt) {
			k = "escaping"
		}
		rec.Distinct(fmt.Sprintf("SYMLINK-target|%s|st=%d", k, vfSt(r)))
		c.remove(dh, name)
	}
	// READLINK on links planted directly in the backend
	for i, tgt := range []string{"../x", "a/../../x", "..", "ok/target", "/abs/olute", "a/..", "../", "x/../.."} {
		name := fmt.Sprintf("planted%d", i)
		fs.PlantSymlink("/d/"+name, tgt)
		l, _ := c.lookup(dh, name)
		if l == nil || l.Status != 0 {
			continue
		}
		rec.Eval(1)
		r, err := c.readlink(vfFH(l.FH))
		if err == nil && r != nil && r.Status == 0 && !strings.HasPrefix(r.Link, "/") && vfTargetEscapes(r.Link) {
			rec.Violate("C07/readlink-returned-relative-dotdot-target", fmt.Sprintf("READLINK returned %q", r.Link), tgt)
		}
		rec.Distinct(fmt.Sprintf("READLINK|%q|st=%d", tgt, vfSt(r)))
	}
	// MNT with hostile dirpaths: backend paths must stay clean
	for _, p := range []string{"/", "/d", "/d/../top", "/../..", "d", "", "//d//", "/d/./sub", "/d\x00", strings.Repeat("/x", 3000)} {
		lo := fs.LogLen()
		rec.Eval(1)
		c.mount(1, (&xdrw.W{}).Str(p).B)
		for _, op := range fs.LogSlice(lo, fs.LogLen()) {
			m.checked++
			if !refs.CleanAbs(op.Path) {
				rec.Violate("C07/backend-path-not-clean-absolute/proc=MNT", fmt.Sprintf("MNT %q passed %q to the backend", p, op.Path), p)
			}
		}
		rec.Distinct(fmt.Sprintf("MNT|%q", p[:min64i(len(p), 12)]))
	}
	if bp := fs.BadPaths(); len(bp) > 0 {
		rec.Violate("C07/backend-path-not-clean-absolute/any", fmt.Sprintf("%q", bp[0]), bp)
	}
	rec.Set("backend_path_arguments_checked", m.checked)
	rec.Sample(map[string]any{"names": names[1:10], "targets": targets[:8]})
}

func vfSt(r interface{}) uint32 {
	switch v := r.(type) {
	case *rfcRes:
		if v == nil {
			return 99998
		}
		return v.Status
	}
	return 99997
}
