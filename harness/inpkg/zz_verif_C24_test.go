//go:build verif

package absnfs

import (
	"sync/atomic"
	"strings"
	"fmt"
	"reflect"
	"testing"
	"time"

	"verif.local/lib/evid"
	"verif.local/lib/refs"
	"verif.local/lib/xdrw"
)

// C24: runtime reconfiguration keeps the server serviceable and is all-or-nothing.
// Oracle: the configuration a fresh server reports when constructed with the
// same option struct (so the oracle tracks the code's own defaults); deep
// comparison of GetExportOptions around rejected updates; serviceability
// probes over HandleCall.

func vfC24RandOpts(rng interface{ Intn(int) int }, base ExportOptions) ExportOptions {
	o := base
	pickInt := func(valid int) int { return []int{0, -1, valid, valid}[rng.Intn(4)] }
	pickDur := func(valid time.Duration) time.Duration { return []time.Duration{0, -time.Second, valid, valid}[rng.Intn(4)] }
	o.TransferSize = pickInt([]int{4096, 32768, 131072}[rng.Intn(3)])
	o.AttrCacheTimeout = pickDur(3 * time.Second)
	o.AttrCacheSize = pickInt(50)
	o.NegativeCacheTimeout = pickDur(2 * time.Second)
	o.DirCacheTimeout = pickDur(4 * time.Second)
	o.DirCacheMaxEntries = pickInt(20)
	o.DirCacheMaxDirSize = pickInt(30)
	o.MaxWorkers = pickInt(3)
	o.MaxConnections = pickInt(7)
	o.IdleTimeout = pickDur(time.Minute)
	o.SendBufferSize = pickInt(8192)
	o.ReceiveBufferSize = pickInt(8192)
	o.CacheNegativeLookups = rng.Intn(2) == 0
	switch rng.Intn(3) {
	case 0:
		o.Timeouts = nil
	case 1:
		o.Timeouts = &TimeoutConfig{ReadTimeout: pickDur(5 * time.Second), DefaultTimeout: pickDur(5 * time.Second), LookupTimeout: pickDur(time.Second)}
	default:
		o.Timeouts = &TimeoutConfig{ReadTimeout: time.Second, WriteTimeout: time.Second, LookupTimeout: time.Second, ReaddirTimeout: time.Second, CreateTimeout: time.Second, RemoveTimeout: time.Second, RenameTimeout: time.Second, HandleTimeout: time.Second, DefaultTimeout: 2 * time.Second}
	}
	// logging configurations, including ones no logger can be built from (the update call decides
	// whether it accepts them; whatever it does, the next update and Close must still work)
	switch rng.Intn(6) {
	case 0:
		o.Log = &LogConfig{Level: "info", Format: "xml", Output: "/dev/null"}
	case 1:
		o.Log = &LogConfig{Level: "debug", Format: "json", Output: "/dev/null"}
	case 2:
		o.Log = &LogConfig{Level: "info", Format: "text", Output: "/nonexistent-verif-dir/x.log"}
	case 3:
		o.Log = &LogConfig{Level: "warn", Format: "text", Output: "/dev/null"}
	default:
		o.Log = nil
	}
	// rate limiting switched on without a configuration of its own (the defaults are far above what
	// the probes send), and off again
	switch rng.Intn(4) {
	case 0:
		o.EnableRateLimiting, o.RateLimitConfig = true, nil
	case 1:
		o.EnableRateLimiting = false
	}
	// fields of the policy half, with values a validation might balk at (the probes stay servable)
	o.MaxFileSize = []int64{0, 0, -1, 1 << 30, 1 << 40}[rng.Intn(5)]
	switch rng.Intn(4) {
	case 0:
		o.AllowedIPs = []string{"127.0.0.1", "not-an-address", "10.0.0.0/33"}
	case 1:
		o.AllowedIPs = []string{"127.0.0.1"}
	default:
		o.AllowedIPs = nil
	}
	return o
}

// vfTuningView extracts the fields C24 speaks about.
func vfTuningView(o ExportOptions) map[string]any {
	m := map[string]any{
		"TransferSize": o.TransferSize, "AttrCacheTimeout": o.AttrCacheTimeout, "AttrCacheSize": o.AttrCacheSize,
		"NegativeCacheTimeout": o.NegativeCacheTimeout, "DirCacheTimeout": o.DirCacheTimeout, "DirCacheMaxEntries": o.DirCacheMaxEntries,
		"DirCacheMaxDirSize": o.DirCacheMaxDirSize, "MaxWorkers": o.MaxWorkers, "MaxConnections": o.MaxConnections, "IdleTimeout": o.IdleTimeout,
		"SendBufferSize": o.SendBufferSize, "ReceiveBufferSize": o.ReceiveBufferSize,
	}
	if o.Timeouts == nil {
		m["Timeouts"] = "nil"
	} else {
		m["Timeouts"] = *o.Timeouts
	}
	return m
}

func TestVerif_C24(t *testing.T) {
	rec := evid.New("C24")
	rec.Rule = "seeded sequences of 1-6 calls among UpdateExportOptions / UpdateTuningOptions / UpdatePolicyOptions with option structs whose numeric, duration and pointer fields are independently zero / negative / nil / valid, with and without a Squash change; after every call GetExportOptions is compared with what a fresh server constructed from the same struct reports, READ/WRITE/LOOKUP probes are made, and rejected updates are compared field by field; distinct = (call kind, field classes, accepted/rejected, probe outcome) tuples"
	defer rec.Write()
	n := evid.Pick(150, 8000)
	for s := 0; s < n && rec.Violations() < 25; s++ {
		vfC24Seq(rec, s)
	}
}

func vfC24Seq(rec *evid.Rec, s int) {
	rng := evid.Rng(24, int64(s))
	fs := refs.New()
	fs.PlantFile("/f", make([]byte, 200000), 0666, 0, 0)
	srv, err := vfNewSrv(fs, ExportOptions{Squash: "root", EnableDirCache: true})
	if err != nil {
		rec.Infra(err.Error())
		return
	}
	defer func() {
		defer func() { recover() }()
		srv.Close()
	}()
	c := srv.client()
	c.Cred = xdrw.AuthSys(1, "h", 1000, 1000, nil)
	root, _ := c.mnt("/")
	l, _ := c.lookup(root, "f")
	if l == nil || l.Status != 0 {
		rec.Infra("lookup")
		return
	}
	fh := vfFH(l.FH)
	// one connection of the real loop (record marking, worker pool) stays open across the updates
	pp := srv.pipe("127.0.0.1", 760)
	defer pp.close()
	var ops []string
	fail := func(sig, what string) {
		rec.Violate(sig, what, map[string]any{"seq": s, "ops": append([]string(nil), ops...)})
	}
	steps := 1 + rng.Intn(6)
	for i := 0; i < steps; i++ {
		kind := []string{"UpdateExportOptions", "UpdateExportOptions", "UpdateTuningOptions", "UpdatePolicyOptions", "UpdateExportOptions+SquashChange", "UpdatePolicyOptions+SquashChange",
			"UpdateExportOptions+SquashSpelling", "UpdateExportOptions(edited-in-place)", "UpdateExportOptions(edited-in-place)+SquashChange", "UpdatePolicyOptions+SquashUnset"}[rng.Intn(10)]
		before := srv.nfs.GetExportOptions()
		// value snapshots: `before` itself may share memory with the live configuration (that is
		// one of the things being checked), so comparisons use copies taken now
		beforeView := vfTuningView(before)
		beforePolicy := fmt.Sprintf("ro=%v secure=%v squash=%q maxfile=%d ips=%v rl=%v", before.ReadOnly, before.Secure, before.Squash, before.MaxFileSize, before.AllowedIPs, before.EnableRateLimiting)
		var want map[string]any // expected tuning view after the call (nil = unchanged)
		fieldCls := "-"
		cls := func(o ExportOptions) string {
			sign := func(v int) string {
				switch {
				case v < 0:
					return "neg"
				case v == 0:
					return "zero"
				}
				return "pos"
			}
			to := "nil"
			if o.Timeouts != nil {
				to = "partial"
				if o.Timeouts.WriteTimeout > 0 && o.Timeouts.ReadTimeout > 0 {
					to = "full"
				}
			}
			return fmt.Sprintf("ts=%s workers=%s attrsize=%s timeouts=%s", sign(o.TransferSize), sign(o.MaxWorkers), sign(o.AttrCacheSize), to)
		}
		var cerr error
		rejected := false
		hung := false
		desc := kind
		func() {
			defer func() {
				if r := recover(); r != nil {
					fail("C24/panic-during-update/"+kind, fmt.Sprint(r))
				}
			}()
			switch kind {
			case "UpdateExportOptions(edited-in-place)", "UpdateExportOptions(edited-in-place)+SquashChange":
				// the natural read-modify-write: take the reported options and edit them where they
				// are, including through the Timeouts pointer ("0 = give me the default")
				o := srv.nfs.GetExportOptions()
				if o.Timeouts != nil {
					for _, f := range []*time.Duration{&o.Timeouts.ReadTimeout, &o.Timeouts.WriteTimeout, &o.Timeouts.LookupTimeout, &o.Timeouts.DefaultTimeout, &o.Timeouts.ReaddirTimeout} {
						if rng.Intn(2) == 0 {
							*f = []time.Duration{0, -time.Second, 7 * time.Second}[rng.Intn(3)]
						}
					}
				}
				for i := range o.AllowedIPs {
					o.AllowedIPs[i] = "203.0.113.9"
				}
				o.TransferSize = []int{0, 8192, 16384}[rng.Intn(3)]
				fieldCls = cls(o)
				desc = fmt.Sprintf("%s %v", kind, vfTuningView(o))
				ops = append(ops, desc)
				evid.Journal(ops)
				// nothing has been submitted yet: the configuration in force must be what it was
				if mid := vfTuningView(srv.nfs.GetExportOptions()); !reflect.DeepEqual(mid, beforeView) {
					fail("C24/editing-the-reported-options-changes-the-configuration-in-force", fmt.Sprintf("before any update call: %v -> %v", beforeView, mid))
				}
				if lr, lerr := c.lookup(root, "f"); lerr != nil || lr == nil || lr.Status != 0 {
					fail("C24/editing-the-reported-options-breaks-service", fmt.Sprintf("LOOKUP after editing the struct returned by GetExportOptions, before any update: %v %d", lerr, vfSt(lr)))
				}
				// the allow-list edit was only there to see whether the reported slice is shared; what
				// is submitted keeps the probe client admitted
				o.AllowedIPs = append([]string(nil), before.AllowedIPs...)
				if kind == "UpdateExportOptions(edited-in-place)+SquashChange" {
					o.Squash = "all"
					rejected = true
				}
				if !vfGuardAPI(rec, "C24/update-call-never-returns/"+kind, "after "+strings.Join(ops, "; "), func() { cerr = srv.nfs.UpdateExportOptions(o) }) {
					hung = true
					return
				}
				if !rejected {
					ref, rerr := New(refs.New(), o)
					if rerr == nil {
						vfQuiet(ref)
						want = vfTuningView(ref.GetExportOptions())
						ref.Close()
					}
				}
			case "UpdateExportOptions+SquashSpelling":
				// same mode, other spelling: accepted as a whole or rejected as a whole
				o := vfC24RandOpts(rng, before)
				fieldCls = cls(o)
				o.Squash = []string{"Root", "ROOT", "rOOt", " root"}[rng.Intn(4)]
				desc = fmt.Sprintf("%s squash=%q %v", kind, o.Squash, vfTuningView(o))
				ops = append(ops, desc)
				evid.Journal(ops)
				if !vfGuardAPI(rec, "C24/update-call-never-returns/"+kind, "after "+strings.Join(ops, "; "), func() { cerr = srv.nfs.UpdateExportOptions(o) }) {
					hung = true
					return
				}
				if cerr != nil {
					rejected = true
				} else {
					ref, rerr := New(refs.New(), o)
					if rerr == nil {
						vfQuiet(ref)
						want = vfTuningView(ref.GetExportOptions())
						ref.Close()
					}
				}
			case "UpdateExportOptions", "UpdateExportOptions+SquashChange":
				o := vfC24RandOpts(rng, before)
				fieldCls = cls(o)
				if kind == "UpdateExportOptions+SquashChange" {
					o.Squash = "all"
					rejected = true
				}
				desc = fmt.Sprintf("%s %v", kind, vfTuningView(o))
				ops = append(ops, desc)
				evid.Journal(ops)
				if !vfGuardAPI(rec, "C24/update-call-never-returns/"+kind, "after "+strings.Join(ops, "; "), func() { cerr = srv.nfs.UpdateExportOptions(o) }) {
					hung = true
					return
				}
				if !rejected {
					ref, rerr := New(refs.New(), o)
					if rerr == nil {
						vfQuiet(ref)
						want = vfTuningView(ref.GetExportOptions())
						ref.Close()
					}
				}
			case "UpdateTuningOptions":
				o := vfC24RandOpts(rng, before)
				fieldCls = cls(o)
				desc = fmt.Sprintf("%s %v", kind, vfTuningView(o))
				ops = append(ops, desc)
				evid.Journal(ops)
				if !vfGuardAPI(rec, "C24/update-call-never-returns/"+kind, "after "+strings.Join(ops, "; "), func() {
					srv.nfs.UpdateTuningOptions(func(t *TuningOptions) {
						nt := tuningFromExportOptions(&o)
						*t = *nt
					})
				}) {
					hung = true
					return
				}
				ref, rerr := New(refs.New(), o)
				if rerr == nil {
					vfQuiet(ref)
					want = vfTuningView(ref.GetExportOptions())
					ref.Close()
				}
			default:
				p := *srv.nfs.policy.Load()
				p.ReadOnly = false
				p.MaxFileSize = int64(rng.Intn(3)) * 1 << 30
				if kind == "UpdatePolicyOptions+SquashChange" {
					p.Squash = "none"
					rejected = true
				}
				if kind == "UpdatePolicyOptions+SquashUnset" {
					// a policy literal that does not name Squash: refused, or accepted with the mode kept
					p.Squash = ""
				}
				ops = append(ops, kind)
				evid.Journal(ops)
				if !vfGuardAPI(rec, "C24/update-call-never-returns/"+kind, "after "+strings.Join(ops, "; "), func() { cerr = srv.nfs.UpdatePolicyOptions(p) }) {
					hung = true
					return
				}
			}
		}()
		if hung {
			return
		}
		rec.Eval(1)
		after := srv.nfs.GetExportOptions()
		if rejected {
			if cerr == nil {
				fail("C24/squash-change-accepted/"+kind, desc)
			}
			if mw, _, _ := srv.nfs.workerPool.Stats(); before.MaxWorkers > 0 && mw != before.MaxWorkers {
				fail("C24/rejected-update-changed-configuration/"+kind+"/component=worker-pool", fmt.Sprintf("the update returned %q yet the pool went from %d to %d workers", cerr, before.MaxWorkers, mw))
			}
			afterPolicy := fmt.Sprintf("ro=%v secure=%v squash=%q maxfile=%d ips=%v rl=%v", after.ReadOnly, after.Secure, after.Squash, after.MaxFileSize, after.AllowedIPs, after.EnableRateLimiting)
			if av := vfTuningView(after); !reflect.DeepEqual(beforeView, av) || beforePolicy != afterPolicy {
				var diff []string
				for k := range beforeView {
					if !reflect.DeepEqual(beforeView[k], av[k]) {
						diff = append(diff, fmt.Sprintf("%s: %v -> %v", k, beforeView[k], av[k]))
					}
				}
				if beforePolicy != afterPolicy {
					diff = append(diff, beforePolicy+" -> "+afterPolicy)
				}
				fail("C24/rejected-update-changed-configuration/"+kind, fmt.Sprintf("the update returned %q yet changed: %v", cerr, diff))
			}
		} else if cerr != nil {
			// the server may refuse values it does not like - but then as a whole
			rec.Add("updates_refused_by_the_server", 1)
			afterPolicy := fmt.Sprintf("ro=%v secure=%v squash=%q maxfile=%d ips=%v rl=%v", after.ReadOnly, after.Secure, after.Squash, after.MaxFileSize, after.AllowedIPs, after.EnableRateLimiting)
			if av := vfTuningView(after); !reflect.DeepEqual(beforeView, av) || beforePolicy != afterPolicy {
				var diff []string
				for k := range beforeView {
					if !reflect.DeepEqual(beforeView[k], av[k]) {
						diff = append(diff, fmt.Sprintf("%s: %v -> %v", k, beforeView[k], av[k]))
					}
				}
				if beforePolicy != afterPolicy {
					diff = append(diff, beforePolicy+" -> "+afterPolicy)
				}
				fail("C24/rejected-update-changed-configuration/"+kind+"/refused-by-the-server", fmt.Sprintf("%s returned %q yet changed: %v", desc, cerr, diff))
			}
		} else if want != nil {
			got := vfTuningView(after)
			for k, w := range want {
				if !reflect.DeepEqual(got[k], w) {
					fail("C24/option-differs-from-construction-default/field="+k+"/"+kind, fmt.Sprintf("after %s GetExportOptions().%s = %v; a server constructed with the same struct reports %v", kind, k, got[k], w))
				}
			}
		}
		// the squash mode is fixed at construction: no update call, accepted or refused, changes it
		normSquash := func(v string) string {
			v = strings.ToLower(strings.TrimSpace(v))
			if v == "" {
				v = "none"
			}
			return v
		}
		if normSquash(after.Squash) != normSquash(before.Squash) {
			fail("C24/update-changed-the-squash-mode/"+kind, fmt.Sprintf("%s (returned error: %v): Squash in force went from %q to %q", desc, cerr, before.Squash, after.Squash))
		}
		// reported configuration == components in force
		if a := srv.nfs.attrCache.MaxSize(); after.AttrCacheSize > 0 && a != after.AttrCacheSize {
			fail("C24/reported-option-not-in-force/AttrCacheSize", fmt.Sprintf("reported %d, cache capacity %d", after.AttrCacheSize, a))
		}
		if mw, _, _ := srv.nfs.workerPool.Stats(); after.MaxWorkers > 0 && mw != after.MaxWorkers {
			fail("C24/reported-option-not-in-force/MaxWorkers", fmt.Sprintf("reported %d, pool has %d", after.MaxWorkers, mw))
		}
		// serviceability probes
		probe := "ok"
		func() {
			defer func() {
				if r := recover(); r != nil {
					probe = "panic"
					fail("C24/server-panics-after-update/"+kind, fmt.Sprintf("probe after %s: %v", desc, r))
				}
			}()
			lr, lerr := c.lookup(root, "f")
			if lerr != nil || lr == nil || lr.Status != 0 {
				probe = "lookup-failed"
				fail("C24/lookup-fails-after-update/"+kind, fmt.Sprintf("after %s: %v %+v", desc, lerr, lr))
				return
			}
			rr, rerr := c.read(fh, 0, 150000)
			switch {
			case rerr != nil || rr == nil || rr.Status != 0:
				probe = "read-failed"
				fail("C24/read-fails-after-update/"+kind, fmt.Sprintf("after %s: %v %+v", desc, rerr, vfSt(rr)))
			case rr.Count == 0:
				probe = "read-empty"
				fail("C24/read-returns-no-data-after-update/"+kind, fmt.Sprintf("after %s: READ of 150000 bytes at offset 0 of a 200000-byte file returned 0 bytes (reported TransferSize %d)", desc, after.TransferSize))
			case after.TransferSize > 0 && int(rr.Count) != min64i(150000, after.TransferSize):
				probe = "read-clamp-differs"
				fail("C24/reported-option-not-in-force/TransferSize", fmt.Sprintf("reported TransferSize %d, READ returned %d bytes", after.TransferSize, rr.Count))
			}
			wr, werr := c.write(fh, 0, 2, []byte("probe"))
			if werr != nil || wr == nil || wr.Status != 0 || wr.Count == 0 {
				probe = "write-failed"
				fail("C24/write-fails-after-update/"+kind, fmt.Sprintf("after %s: %v status %d", desc, werr, vfSt(wr)))
			}
		}()
		// the same over the open connection: the request goes through the worker pool
		if probe == "ok" {
			_, raw, perr := pp.call(vfProgNFS, 3, 0, vfRootCred(), nil)
			if perr == nil {
				_, raw, perr = pp.call(vfProgNFS, 3, 1, vfRootCred(), xdrw.ArgFH(root))
			}
			if perr != nil || len(raw) < 12 {
				// no reply within the pipe's wall-clock limit: a verdict only on structural grounds
				probe = "connection-no-reply"
				workers := vfGoroutinesWith("absnfs.(*WorkerPool).worker")
				mw, _, queued := srv.nfs.workerPool.Stats()
				first := vfC29LockWaiters()
				time.Sleep(2 * time.Second)
				second := vfC29LockWaiters()
				stuck := ""
				for id, st := range second {
					if _, was := first[id]; was {
						stuck = st
					}
				}
				switch {
				case workers == 0 && mw > 0 && atomic.LoadInt32(&srv.nfs.workerPool.running) == 1:
					fail("C24/connection-gets-no-reply-after-update/running-pool-has-no-workers/"+kind, fmt.Sprintf("after %s a NULL/GETATTR on the open connection got no reply (%v); the worker pool reports running with %d workers, %d tasks queued, and no worker goroutine exists", desc, perr, mw, queued))
				case stuck != "":
					vfStuckSeen.Store(true)
					fail("C24/connection-gets-no-reply-after-update/handler-stuck-on-a-lock/"+kind, fmt.Sprintf("after %s: %v; %s: %s", desc, perr, evid.StuckMarker, stuck))
				default:
					rec.Inconclusive(1)
				}
				rec.Distinct(fmt.Sprintf("%s|rejected=%v|probe=%s|%s", kind, rejected, probe, fieldCls))
				return
			}
		}
		if after.TransferSize <= 0 {
			fail("C24/non-positive-transfer-size-reported", fmt.Sprintf("%d after %s", after.TransferSize, desc))
		}
		if after.Timeouts == nil {
			fail("C24/nil-timeouts-reported", "after "+desc)
		} else if after.Timeouts.DefaultTimeout <= 0 || after.Timeouts.ReadTimeout <= 0 || after.Timeouts.WriteTimeout <= 0 || after.Timeouts.LookupTimeout <= 0 {
			fail("C24/non-positive-timeout-reported", fmt.Sprintf("%+v after %s", *after.Timeouts, desc))
		}
		rec.Distinct(fmt.Sprintf("%s|rejected=%v|probe=%s|%s", kind, rejected, probe, fieldCls))
		if probe == "panic" {
			return
		}
	}
	if s < 2 {
		rec.Sample(map[string]any{"ops": ops})
	}
}
