//go:build verif

package absnfs

import (
	"strings"
	"fmt"
	"io"
	"log"
	"runtime"
	"sync"
	"sync/atomic"
	"testing"
	"time"

	"verif.local/lib/evid"
	"verif.local/lib/refs"
	"verif.local/lib/xdrw"
)

// C20: worker pool - bounded concurrency, every accepted task resolved exactly once.
// Oracle: instrumented tasks (unique id/result, execution counter, in-flight
// counter, gates); verdicts are structural: after Stop has returned no worker
// exists, so a task that was accepted, never executed, and whose result
// channel is neither filled nor closed can never be resolved.

type vfTask struct {
	id     int
	gate   chan struct{} // nil = not gated
	execs  atomic.Int32
	ch     chan interface{} // result channel returned by Submit (nil = rejected)
	viaSW  bool
	swDone atomic.Bool
	subDone atomic.Bool // the Submit call has returned and ch is set
	swRes  interface{}
	swOK   bool
}

type vfPoolRun struct {
	inflight, peak atomic.Int32
}

func (r *vfPoolRun) body(t *vfTask) func() interface{} {
	return func() interface{} {
		n := r.inflight.Add(1)
		for {
			p := r.peak.Load()
			if n <= p || r.peak.CompareAndSwap(p, n) {
				break
			}
		}
		t.execs.Add(1)
		if t.gate != nil {
			<-t.gate
		}
		r.inflight.Add(-1)
		return t.id
	}
}

func vfPoolQueueLen(p *WorkerPool) int {
	p.resizeMu.Lock()
	defer p.resizeMu.Unlock()
	return len(p.taskQueue)
}

var vfC20BlockedSeen atomic.Int32

var vfC20NoWorkersSeen atomic.Int32

// vfGoroutinesWith counts the goroutines whose stack contains the frame.
func vfGoroutinesWith(frame string) int {
	buf := make([]byte, 8<<20)
	buf = buf[:runtime.Stack(buf, true)]
	n := 0
	for _, g := range strings.Split(string(buf), "\n\n") {
		if strings.Contains(g, frame) {
			n++
		}
	}
	return n
}

func TestVerif_C20(t *testing.T) {
	rec := evid.New("C20")
	rec.Rule = "pool sizes {1,2,4}; b busy tasks parked on gates, q queued behind them (0..2*size+overflow), then Stop / Resize (grow, shrink, same) / both, racing with fresh Submit and SubmitWait; gates released in seeded orders; plus server level: requests in flight through ExecuteWithWorker during UpdateTuningOptions(MaxWorkers) and Close; distinct = (size, busy, queued class, action, release order) tuples"
	defer rec.Write()
	n := evid.Pick(150, 6000)
	for s := 0; s < n && rec.Violations() < 20; s++ {
		vfC20Scenario(rec, s)
	}
	for s := 0; s < evid.Pick(6, 200) && rec.Violations() < 25; s++ {
		vfC20Server(rec, s)
	}
	vfC20ExecuteWithWorker(rec)
	vfC20LongTask(rec)
}

func vfC20Scenario(rec *evid.Rec, s int) {
	rng := evid.Rng(20, int64(s))
	size := []int{1, 2, 4}[rng.Intn(3)]
	busy := rng.Intn(size + 1)
	queued := []int{0, 1, size, 2 * size, 2*size + 2}[rng.Intn(5)]
	action := []string{"Stop", "Resize-grow", "Resize-shrink", "Resize-same", "Resize-then-Stop", "Stop-then-Resize"}[rng.Intn(6)]
	desc := fmt.Sprintf("size=%d busy=%d queued=%d action=%s", size, busy, queued, action)
	evid.Journal(desc)
	host := &AbsfsNFS{logger: log.New(io.Discard, "", 0)}
	pool := NewWorkerPool(size, host)
	pool.Start()
	run := &vfPoolRun{}
	var tasks []*vfTask
	newTask := func(gated bool) *vfTask {
		t := &vfTask{id: len(tasks) + 1}
		if gated {
			t.gate = make(chan struct{})
		}
		tasks = append(tasks, t)
		return t
	}
	fail := func(sig, what string) {
		rec.Violate(sig, what+" ["+desc+"]", map[string]any{"scenario": s, "case": desc})
	}
	deadline := time.Now().Add(30 * time.Second)
	// busy tasks
	for i := 0; i < busy; i++ {
		t := newTask(true)
		t.ch = pool.Submit(run.body(t))
		t.subDone.Store(true)
	}
	for int(run.inflight.Load()) < busy && time.Now().Before(deadline) {
		runtime.Gosched()
	}
	if int(run.inflight.Load()) < busy {
		rec.Inconclusive(1)
		for _, t := range tasks {
			close(t.gate)
		}
		pool.Stop()
		return
	}
	// queued tasks
	for i := 0; i < queued; i++ {
		t := newTask(false)
		if busy < size {
			t.gate = nil
		}
		t.ch = pool.Submit(run.body(t))
		t.subDone.Store(true)
	}
	newSize := size
	switch action {
	case "Resize-grow", "Resize-then-Stop":
		newSize = size * 2
	case "Resize-shrink":
		newSize = 1
		if size == 1 {
			newSize = 2
		}
	case "Stop-then-Resize":
		newSize = size + 1
	}
	actDone := make(chan struct{})
	go func() {
		defer close(actDone)
		switch action {
		case "Stop":
			pool.Stop()
		case "Resize-grow", "Resize-shrink":
			pool.Resize(newSize)
		case "Resize-same":
			pool.Resize(size)
		case "Resize-then-Stop":
			pool.Resize(newSize)
			pool.Stop()
		case "Stop-then-Resize":
			pool.Stop()
			pool.Resize(newSize)
		}
	}()
	// fresh submitters racing with the action
	var wg sync.WaitGroup
	var mu sync.Mutex
	fresh := 1 + rng.Intn(3)
	for i := 0; i < fresh; i++ {
		mu.Lock()
		t := newTask(false)
		mu.Unlock()
		t.viaSW = i%2 == 0
		wg.Add(1)
		go func(t *vfTask) {
			defer wg.Done()
			if t.viaSW {
				res, ok := pool.SubmitWait(run.body(t))
				t.swRes, t.swOK = res, ok
				t.swDone.Store(true)
			} else {
				t.ch = pool.Submit(run.body(t))
				t.subDone.Store(true)
			}
		}(t)
	}
	// release gates in a seeded order, yielding in between
	order := rng.Perm(len(tasks))
	relClass := "fifo"
	if len(order) > 1 && order[0] != 0 {
		relClass = "shuffled"
	}
	for _, i := range order {
		for y := rng.Intn(3); y > 0; y-- {
			runtime.Gosched()
		}
		mu.Lock()
		t := tasks[i]
		mu.Unlock()
		if t.gate != nil {
			close(t.gate)
		}
	}
	select {
	case <-actDone:
	case <-time.After(30 * time.Second):
		rec.Inconclusive(1)
		return
	}
	// After a Resize has returned the pool must respect its NEW size: submit more gated
	// tasks than that and look at how many run at once.
	effNew := newSize
	if action == "Resize-same" {
		effNew = size
	}
	if atomic.LoadInt32(&pool.running) == 1 && (action == "Resize-grow" || action == "Resize-shrink" || action == "Resize-same") {
		for d := time.Now().Add(10 * time.Second); time.Now().Before(d) && (vfPoolQueueLen(pool) > 0 || run.inflight.Load() > 0); {
			runtime.Gosched()
		}
		if vfPoolQueueLen(pool) == 0 && run.inflight.Load() == 0 {
			run.peak.Store(0)
			var post []*vfTask
			for i := 0; i < effNew+3; i++ {
				mu.Lock()
				t := newTask(true)
				mu.Unlock()
				t.ch = pool.Submit(run.body(t))
				t.subDone.Store(true)
				post = append(post, t)
			}
			patience := 10 * time.Second
			if vfC20NoWorkersSeen.Load() >= 2 {
				patience = 200 * time.Millisecond // already witnessed twice; bound the run
			}
			for d := time.Now().Add(patience); time.Now().Before(d) && int(run.inflight.Load()) < effNew; {
				runtime.Gosched()
			}
			if run.inflight.Load() == 0 && vfPoolQueueLen(pool) > 0 && atomic.LoadInt32(&pool.running) == 1 {
				// Nothing started. The clock is no verdict; this is: the pool says it is running, tasks
				// sit in its queue, and no worker goroutine exists in the whole process (workers are only
				// ever created by Start, so none will appear). Earlier pools of this monitor were stopped.
				if n := vfGoroutinesWith("absnfs.(*WorkerPool).worker"); n == 0 {
					vfC20NoWorkersSeen.Add(1)
					fail("C20/running-pool-has-no-workers/after-"+action, fmt.Sprintf("Resize(%d) has returned, the pool reports running, %d tasks are queued and no worker goroutine exists: they will never be executed", effNew, vfPoolQueueLen(pool)))
				}
			}
			for y := 0; y < 300; y++ { // give surplus workers, if any exist, a chance to pick up a task
				runtime.Gosched()
			}
			time.Sleep(3 * time.Millisecond)
			if p := run.peak.Load(); int(p) > effNew {
				fail("C20/more-tasks-running-than-pool-size/after-"+action, fmt.Sprintf("%d tasks ran concurrently after Resize(%d) had returned", p, effNew))
			}
			rec.Distinct(fmt.Sprintf("post-resize|%s|new=%d|peak<=new:%v", action, effNew, int(run.peak.Load()) <= effNew))
			for _, t := range post {
				close(t.gate)
			}
			run.peak.Store(0)
		}
	}
	// submitters that used Submit return within its 50ms admission timeout; SubmitWait
	// callers may legitimately still be waiting for a worker (running pool) or be
	// blocked forever (the defect). Give the former a bounded chance.
	subDone := make(chan struct{})
	go func() { wg.Wait(); close(subDone) }()
	stillRunning := atomic.LoadInt32(&pool.running) == 1
	if stillRunning {
		// let the live pool drain; then stop it so that the final audit is structural
		for d := time.Now().Add(20 * time.Second); time.Now().Before(d); {
			if vfPoolQueueLen(pool) == 0 && atomic.LoadInt32(&pool.activeWorkers) == 0 {
				break
			}
			runtime.Gosched()
		}
		select {
		case <-subDone:
		case <-time.After(2 * time.Second):
		}
		pool.Stop()
	}
	// Stop has returned: every submitter must come back. The wait is generous (a loaded machine may
	// take long to schedule a goroutine that has already been woken) and ends as soon as they are
	// all back; only after three witnessed blocked submitters is it cut short, to bound the run.
	wait := 20 * time.Second
	if vfC20BlockedSeen.Load() >= 3 {
		wait = 500 * time.Millisecond
	}
	select {
	case <-subDone:
	case <-time.After(wait):
		vfC20BlockedSeen.Add(1)
	}
	// ---- audit: Stop has returned, every gate is open, no worker exists ----
	maxAllowed := int32(size)
	if int32(newSize) > maxAllowed {
		maxAllowed = int32(newSize)
	}
	if p := run.peak.Load(); p > maxAllowed {
		fail("C20/more-tasks-running-than-pool-size", fmt.Sprintf("peak %d concurrently executing tasks, allowed %d", p, maxAllowed))
	}
	if q := vfPoolQueueLen(pool); q > 0 {
		fail("C20/tasks-left-in-queue-nobody-reads/action="+action, fmt.Sprintf("%d tasks remain in the queue after Stop returned", q))
	}
	counts := map[string]int{}
	mu.Lock()
	all := append([]*vfTask(nil), tasks...)
	mu.Unlock()
	for _, t := range all {
		ex := int(t.execs.Load())
		if ex > 1 {
			fail("C20/task-executed-more-than-once", fmt.Sprintf("task %d executed %d times", t.id, ex))
		}
		if t.viaSW {
			switch {
			case !t.swDone.Load():
				if ex == 0 {
					counts["submitwait-blocked-forever"]++
					fail("C20/accepted-task-abandoned/submitwait-never-returns/action="+action, fmt.Sprintf("SubmitWait for task %d has not returned; the task was never executed and no worker exists any more", t.id))
				} else {
					counts["submitwait-pending-after-exec"]++
					rec.Inconclusive(1)
				}
			case t.swOK && t.swRes != interface{}(t.id):
				fail("C20/ok-with-foreign-result/action="+action, fmt.Sprintf("SubmitWait for task %d returned ok with result %v (executed %d times)", t.id, t.swRes, ex))
			case t.swOK && ex != 1:
				fail("C20/ok-but-not-executed-once", fmt.Sprintf("task %d: ok=true, executed %d times", t.id, ex))
			case !t.swOK && ex != 0:
				fail("C20/reported-not-executed-but-was-executed/action="+action, fmt.Sprintf("SubmitWait for task %d returned ok=false although it ran %d times; the caller will run it again", t.id, ex))
			default:
				counts[fmt.Sprintf("submitwait-ok=%v", t.swOK)]++
			}
			continue
		}
		if !t.subDone.Load() {
			rec.Inconclusive(1) // Submit itself has not returned within the watchdog
			continue
		}
		if t.ch == nil {
			if ex != 0 {
				fail("C20/rejected-task-executed", fmt.Sprintf("task %d", t.id))
			}
			counts["rejected"]++
			continue
		}
		select {
		case v, ok := <-t.ch:
			switch {
			case !ok && ex == 0:
				counts["notified-not-executed"]++
			case !ok:
				fail("C20/reported-not-executed-but-was-executed/action="+action, fmt.Sprintf("task %d: channel closed although it ran", t.id))
			case v == interface{}(t.id) && ex == 1:
				counts["executed-and-delivered"]++
			case v == nil && ex == 0:
				// a nil result with ok=true: SubmitWait would hand this to its caller as the task's result
				fail("C20/ok-with-foreign-result/action="+action, fmt.Sprintf("task %d was never executed but its submitter receives (nil, ok=true)", t.id))
			default:
				fail("C20/ok-with-foreign-result/action="+action, fmt.Sprintf("task %d received %v (executed %d times)", t.id, v, ex))
			}
		default:
			if ex == 0 {
				counts["abandoned"]++
				fail("C20/accepted-task-abandoned/action="+action, fmt.Sprintf("task %d was accepted by Submit, never executed, and its result channel is neither filled nor closed after Stop returned: a SubmitWait caller would block forever", t.id))
			} else {
				fail("C20/result-not-delivered/action="+action, fmt.Sprintf("task %d ran but its result was not delivered", t.id))
			}
		}
	}
	rec.Eval(len(all))
	qc := "none"
	if queued > 0 {
		qc = "some"
	}
	if queued > 2*size {
		qc = "overflow"
	}
	rec.Distinct(fmt.Sprintf("size=%d|busy=%d|queued=%s|%s|release=%s", size, busy, qc, action, relClass))
	if s < 3 {
		rec.Sample(map[string]any{"case": desc, "final_task_states": counts})
	}
}

// vfC20Server: requests in flight through the real connection loop while the
// worker pool is resized or the server is closed.
func vfC20Server(rec *evid.Rec, s int) {
	rng := evid.Rng(2020, int64(s))
	action := []string{"Close", "UpdateTuningOptions(MaxWorkers)"}[s%2]
	fs := refs.New()
	fs.PlantDir("/d", 0777, 0, 0)
	srv, err := vfNewSrv(fs, ExportOptions{AttrCacheTimeout: 1, MaxWorkers: 1})
	if err != nil {
		rec.Infra(err.Error())
		return
	}
	c := srv.client()
	root, _ := c.mnt("/")
	gate := make(chan struct{})
	parked := make(chan struct{}, 4)
	fs.SetHook(func(op *refs.Op, ph refs.Phase) error {
		if ph == refs.Before && op.Path == "/gate" {
			parked <- struct{}{}
			<-gate
		}
		return nil
	})
	evid.Journal("server " + action)
	nconn := 2 + rng.Intn(3)
	type res struct {
		got bool
		err error
	}
	results := make([]chan res, nconn)
	pipes := make([]*vfPipe, nconn)
	for i := 0; i < nconn; i++ {
		pipes[i] = srv.pipe("127.0.0.1", 800+i)
		results[i] = make(chan res, 1)
		name := "q"
		if i == 0 {
			name = "gate"
		}
		go func(i int, name string) {
			_, raw, err := pipes[i].call(vfProgNFS, 3, 3, vfRootCred(), xdrw.ArgDirop(root, name))
			results[i] <- res{raw != nil, err}
		}(i, name)
		if i == 0 {
			select {
			case <-parked:
			case <-time.After(20 * time.Second):
				rec.Inconclusive(1)
				close(gate)
				return
			}
		}
	}
	// wait until the other requests are queued behind the parked one
	for d := time.Now().Add(10 * time.Second); time.Now().Before(d) && vfPoolQueueLen(srv.nfs.workerPool) < nconn-1; {
		runtime.Gosched()
	}
	queuedBehind := vfPoolQueueLen(srv.nfs.workerPool)
	actDone := make(chan struct{})
	go func() {
		defer close(actDone)
		if action == "Close" {
			srv.nfs.Close()
		} else {
			srv.nfs.UpdateTuningOptions(func(t *TuningOptions) { t.MaxWorkers = 3 })
		}
	}()
	for y := 0; y < 50; y++ {
		runtime.Gosched()
	}
	close(gate)
	select {
	case <-actDone:
	case <-time.After(30 * time.Second):
		rec.Inconclusive(1)
		return
	}
	if q := vfPoolQueueLen(srv.nfs.workerPool); action == "Close" && q > 0 {
		rec.Violate("C20/server/requests-left-in-queue-after-close", fmt.Sprintf("%d requests were queued behind a running one when Close was called; %d remain in the stopped pool's queue and their connections will never be answered", queuedBehind, q), map[string]any{"action": action, "connections": nconn})
	}
	answered := 0
	for i := 0; i < nconn; i++ {
		select {
		case r := <-results[i]:
			if r.got {
				answered++
			}
		case <-time.After(3 * time.Second):
		}
	}
	if answered < nconn {
		if action == "Close" {
			// already decided structurally above when tasks were stranded
			rec.Add("server_requests_unanswered_after_close", nconn-answered)
		} else {
			rec.Violate("C20/server/request-unanswered-after-worker-resize", fmt.Sprintf("%d of %d in-flight requests got no reply within the watchdog after UpdateTuningOptions(MaxWorkers) returned", nconn-answered, nconn), nil)
		}
	}
	rec.Eval(nconn)
	rec.Distinct(fmt.Sprintf("server|%s|queued-behind=%d|answered-all=%v", action, min64i(queuedBehind, 2), answered == nconn))
	for _, p := range pipes {
		p.c.Close()
	}
	if action != "Close" {
		srv.Close()
	}
}

// vfC20ExecuteWithWorker: the server's entry point ExecuteWithWorker with tasks of every kind of
// result (a value, a nil interface, a typed nil, an error value, zero): whatever the task returns,
// it is executed exactly once and its own result comes back - also while the pool is being resized.
func vfC20ExecuteWithWorker(rec *evid.Rec) {
	for _, workers := range []int{1, 2, 4} {
		fs := refs.New()
		srv, err := vfNewSrv(fs, ExportOptions{AttrCacheTimeout: 1, MaxWorkers: workers})
		if err != nil {
			rec.Infra(err.Error())
			return
		}
		type kind struct {
			name string
			val  func() interface{}
		}
		var nilErr error
		var nilPtr *NFSNode
		kinds := []kind{{"value", func() interface{} { return 42 }}, {"nil", func() interface{} { return nil }}, {"nil-error", func() interface{} { return nilErr }},
			{"typed-nil-pointer", func() interface{} { return nilPtr }}, {"zero", func() interface{} { return 0 }}, {"empty-string", func() interface{} { return "" }}, {"false", func() interface{} { return false }}}
		for round := 0; round < 3; round++ {
			for _, k := range kinds {
				var execs atomic.Int32
				want := k.val()
				got := srv.nfs.ExecuteWithWorker(func() interface{} {
					execs.Add(1)
					return k.val()
				})
				rec.Eval(1)
				if n := execs.Load(); n != 1 {
					rec.Violate("C20/execute-with-worker/task-executed-"+map[bool]string{true: "more-than-once", false: "not-at-all"}[n > 1]+"/result="+k.name, fmt.Sprintf("a task returning %s through ExecuteWithWorker (pool of %d) ran %d times", k.name, workers, n), nil)
				}
				if fmt.Sprintf("%#v", got) != fmt.Sprintf("%#v", want) {
					rec.Violate("C20/execute-with-worker/foreign-result/result="+k.name, fmt.Sprintf("got %#v want %#v", got, want), nil)
				}
				rec.Distinct(fmt.Sprintf("execute-with-worker|workers=%d|%s|round=%d", workers, k.name, round))
			}
			if round == 0 {
				srv.nfs.UpdateTuningOptions(func(t *TuningOptions) { t.MaxWorkers = workers + 1 })
			} else if round == 1 {
				srv.nfs.UpdateTuningOptions(func(t *TuningOptions) { t.MaxWorkers = 1 })
			}
		}
		srv.Close()
	}
}

// vfC20LongTask: a task holds a worker for longer than any internal patience (6.5 s) while Stop or
// Resize is called with tasks queued behind it. The verdicts are about states, not about how long
// anything took: once Stop has returned and the long task has finished and no worker goroutine
// exists, every queued submitter must have been told (result or closed channel); after a Resize has
// returned, at most the new number of tasks run at once.
func vfC20LongTask(rec *evid.Rec) {
	for _, action := range []string{"Stop", "Resize-1-to-2"} {
		host := &AbsfsNFS{logger: log.New(io.Discard, "", 0)}
		pool := NewWorkerPool(1, host)
		pool.Start()
		var inflight, peak atomic.Int32
		gateLong := make(chan struct{})
		started := make(chan struct{})
		body := func(gate chan struct{}, onStart func()) func() interface{} {
			return func() interface{} {
				n := inflight.Add(1)
				for {
					p := peak.Load()
					if n <= p || peak.CompareAndSwap(p, n) {
						break
					}
				}
				if onStart != nil {
					onStart()
				}
				if gate != nil {
					<-gate
				}
				inflight.Add(-1)
				return "done"
			}
		}
		var once sync.Once
		long := pool.Submit(body(gateLong, func() { once.Do(func() { close(started) }) }))
		select {
		case <-started:
		case <-time.After(20 * time.Second):
			rec.Inconclusive(1)
			close(gateLong)
			pool.Stop()
			continue
		}
		var queued []chan interface{}
		for i := 0; i < 2; i++ {
			if ch := pool.Submit(body(nil, nil)); ch != nil {
				queued = append(queued, ch)
			}
		}
		actDone := make(chan struct{})
		go func() {
			defer close(actDone)
			if action == "Stop" {
				pool.Stop()
			} else {
				pool.Resize(2)
			}
		}()
		time.Sleep(6500 * time.Millisecond) // the long task is simply long
		var gates []chan struct{}
		if action != "Stop" {
			// while the long task still runs: whatever Resize has done so far, submit gated tasks and
			// look at how many run at once (allowed: 2 after the resize returned, and never more than 2)
			select {
			case <-actDone:
				for i := 0; i < 4; i++ {
					g := make(chan struct{})
					gates = append(gates, g)
					pool.Submit(body(g, nil))
				}
				for y := 0; y < 2000; y++ {
					runtime.Gosched()
				}
				time.Sleep(20 * time.Millisecond)
			default:
			}
		}
		close(gateLong)
		select {
		case <-actDone:
		case <-time.After(30 * time.Second):
			rec.Inconclusive(1)
			continue
		}
		rec.Eval(1)
		for _, g := range gates {
			close(g)
		}
		if action == "Stop" {
			// Stop has returned and the long task was released: wait until no worker goroutine exists
			for d := time.Now().Add(20 * time.Second); time.Now().Before(d) && vfGoroutinesWith("absnfs.(*WorkerPool).worker") > 0; {
				time.Sleep(5 * time.Millisecond)
			}
			if vfGoroutinesWith("absnfs.(*WorkerPool).worker") == 0 {
				unresolved := 0
				for _, ch := range append(queued, long) {
					select {
					case <-ch:
					default:
						unresolved++
					}
				}
				if unresolved > 0 {
					rec.Violate("C20/accepted-task-abandoned/stop-while-a-task-runs-long", fmt.Sprintf("Stop was called while one task held the only worker for 6.5 s with %d tasks queued; Stop has returned, the long task has finished, no worker goroutine exists, and %d submitters have neither a result nor a closed channel", len(queued), unresolved), nil)
				}
				rec.Distinct(fmt.Sprintf("long-task|Stop|unresolved=%d", unresolved))
			} else {
				rec.Inconclusive(1)
			}
		} else {
			if p := peak.Load(); p > 2 {
				rec.Violate("C20/more-tasks-running-than-pool-size/resize-while-a-task-runs-long", fmt.Sprintf("Resize(2) of a pool of 1 while its worker was busy for 6.5 s: %d tasks ran at once", p), nil)
			}
			rec.Distinct(fmt.Sprintf("long-task|Resize|peak=%d", peak.Load()))
			pool.Stop()
		}
	}
}
