//go:build verif

package absnfs

import (
	"fmt"
	"runtime"
	"sync/atomic"
	"testing"
	"time"

	"verif.local/lib/evid"
	"verif.local/lib/refs"
	"verif.local/lib/xdrw"
)

// C08: a read-only export is never modified.
// Oracle: the backend's mutating-call counter and snapshot (the monitor watches
// the backend, not the reply), plus reply status of well-formed mutating
// procedures and the ACCESS mask.

type vfC08Target struct {
	root, dir, file, link uint64
}

func vfC08Args(tg vfC08Target, rng interface{ Intn(int) int }) map[uint32][][]byte {
	big := xdrw.U64p(0)
	m := map[uint32][][]byte{}
	add := func(p uint32, a []byte) { m[p] = append(m[p], a) }
	for _, h := range []uint64{tg.root, tg.dir, tg.file, tg.link} {
		add(1, xdrw.ArgFH(h))
		add(2, xdrw.ArgSetattr(h, xdrw.Sattr3{Mode: xdrw.U32p(0600)}, false, 0, 0))
		add(2, xdrw.ArgSetattr(h, xdrw.Sattr3{Size: big}, false, 0, 0))
		add(2, xdrw.ArgSetattr(h, xdrw.Sattr3{UID: xdrw.U32p(7), GID: xdrw.U32p(7)}, false, 0, 0))
		add(2, xdrw.ArgSetattr(h, xdrw.Sattr3{Atime: 1, Mtime: 1}, false, 0, 0))
		add(2, xdrw.ArgSetattr(h, xdrw.Sattr3{Atime: 2, Mtime: 2, ATime: [2]uint32{5, 5}, MTime: [2]uint32{6, 6}}, true, 1, 1))
		add(4, xdrw.ArgAccess(h, 0x3f))
		add(5, xdrw.ArgFH(h))
		add(6, xdrw.ArgRead(h, 0, 100))
		add(7, xdrw.ArgWrite(h, 0, 4, 2, []byte("evil")))
		add(7, xdrw.ArgWrite(h, 1<<40, 4, 0, []byte("evil")))
		add(7, xdrw.ArgWrite(h, 0, 0, 0, nil))
		add(16, xdrw.ArgReaddir(h, 0, [8]byte{}, 4096))
		add(17, xdrw.ArgReaddirplus(h, 0, [8]byte{}, 4096, 8192))
		add(18, xdrw.ArgFH(h))
		add(19, xdrw.ArgFH(h))
		add(20, xdrw.ArgFH(h))
		add(21, xdrw.ArgCommit(h, 0, 0))
		for _, name := range []string{"f", "newname", "sub", "ln"} {
			add(3, xdrw.ArgDirop(h, name))
			for how := uint32(0); how < 3; how++ {
				add(8, xdrw.ArgCreate(h, name, how, xdrw.Sattr3{Mode: xdrw.U32p(0644), Size: big}, [8]byte{1}))
			}
			add(9, xdrw.ArgMkdir(h, name, xdrw.Sattr3{}))
			add(10, xdrw.ArgSymlink(h, name, xdrw.Sattr3{}, "f"))
			add(11, xdrw.ArgMknod(h, name, 6))
			add(12, xdrw.ArgDirop(h, name))
			add(13, xdrw.ArgDirop(h, name))
			add(14, xdrw.ArgRename(h, name, tg.root, "moved"))
			add(14, xdrw.ArgRename(tg.root, "d", h, name))
			add(15, xdrw.ArgLink(tg.file, h, name))
		}
	}
	return m
}

var vfMutatingProcs = map[uint32]string{2: "SETATTR", 7: "WRITE", 8: "CREATE", 9: "MKDIR", 10: "SYMLINK", 11: "MKNOD", 12: "REMOVE", 13: "RMDIR", 14: "RENAME", 15: "LINK", 21: "COMMIT"}

func TestVerif_C08(t *testing.T) {
	rec := evid.New("C08")
	rec.Rule = "read-only set at construction / via UpdatePolicyOptions / via UpdateExportOptions after a read-write phase; then all 22 procedures x {well-formed, truncated at every 4-byte boundary, garbage, huge counts} x credentials {uid 0, uid 1000, AUTH_NONE}; distinct = (how read-only was set, procedure, argument shape, status) tuples"
	defer rec.Write()
	for _, how := range []string{"construction", "UpdatePolicyOptions", "UpdateExportOptions"} {
		vfC08Run(rec, how)
	}
	for i, proc := range []string{"MKDIR", "WRITE", "CREATE", "REMOVE", "SETATTR", "SYMLINK", "RENAME"} {
		vfC08InFlight(rec, proc, i%2 == 0, false, "")
	}
	// the same on an export with Async set, and parked at the LAST modifying call a request makes
	// (the timestamp update after a write) instead of the first
	for _, proc := range []string{"WRITE", "SETATTR", "CREATE"} {
		vfC08InFlight(rec, proc, false, true, "")
	}
	vfC08InFlight(rec, "WRITE", false, true, "Chtimes")
	vfC08InFlight(rec, "WRITE", false, false, "Chtimes")
}

// vfC08InFlight: a mutating request is parked inside the backend (optionally long enough
// for HandleCall to give up on it), the export is switched to read-only, and the request
// is released. No modifying backend call may complete after the switch has returned.
func vfC08InFlight(rec *evid.Rec, proc string, timeoutFirst bool, async bool, parkAt string) {
	fs := refs.New()
	fs.PlantDir("/d", 0777, 0, 0)
	fs.PlantFile("/d/f", []byte("data"), 0666, 0, 0)
	opts := ExportOptions{AttrCacheTimeout: 1, Async: async}
	if timeoutFirst {
		opts.Timeouts = &TimeoutConfig{DefaultTimeout: 30 * time.Millisecond}
	}
	srv, err := vfNewSrv(fs, opts)
	if err != nil {
		rec.Infra(err.Error())
		return
	}
	defer srv.Close()
	c := srv.client()
	root, _ := c.mnt("/")
	l, _ := c.lookup(root, "d")
	if l == nil || l.Status != 0 {
		rec.Infra("lookup d")
		return
	}
	proc0 := proc
	defer func() { _ = proc0 }()
	dh := vfFH(l.FH)
	l, _ = c.lookup(dh, "f")
	fh := vfFH(l.FH)
	lg := &vfC16Log{open: map[uint64]*vfOpEv{}, gates: map[string]*vfGate{}}
	gate := &vfGate{opName: parkAt, parked: make(chan struct{}), open: make(chan struct{})}
	target := "/d/new"
	if proc == "WRITE" || proc == "REMOVE" || proc == "SETATTR" || proc == "RENAME" {
		target = "/d/f"
	}
	lg.gates[target] = gate
	fs.SetHook(lg.hook(srv.nfs))
	reqDone := make(chan struct{})
	go func() {
		defer close(reqDone)
		cl := srv.client()
		switch proc {
		case "MKDIR":
			cl.mkdir(dh, "new", sattrNone)
		case "WRITE":
			cl.write(fh, 0, 2, []byte("evil"))
		case "CREATE":
			cl.create(dh, "new", 0, sattrNone, [8]byte{})
		case "REMOVE":
			cl.remove(dh, "f")
		case "SETATTR":
			cl.setattr(fh, xdrw.Sattr3{Mode: xdrw.U32p(0600), Size: xdrw.U64p(1)})
		case "SYMLINK":
			cl.symlink(dh, "new", "f", sattrNone)
		case "RENAME":
			cl.rename(dh, "f", dh, "g")
		}
	}()
	release := func() {
		select {
		case <-gate.open:
		default:
			close(gate.open)
		}
	}
	defer release()
	select {
	case <-gate.parked:
	case <-time.After(20 * time.Second):
		if parkAt != "" {
			// this request makes no such backend call on this tree: nothing to park
			rec.Distinct(fmt.Sprintf("in-flight-switch|%s|async=%v|never-reached-%s", proc, async, parkAt))
			return
		}
		rec.Inconclusive(1)
		return
	}
	if timeoutFirst {
		select {
		case <-reqDone: // HandleCall gave up; the request's goroutine is still parked in the backend
		case <-time.After(20 * time.Second):
			rec.Inconclusive(1)
			return
		}
	}
	var updRet atomic.Int64
	updDone := make(chan struct{})
	go func() {
		defer close(updDone)
		p := *srv.nfs.policy.Load()
		p.ReadOnly = true
		srv.nfs.UpdatePolicyOptions(p)
		updRet.Store(lg.tick.Add(1))
	}()
	for d := time.Now().Add(10 * time.Second); time.Now().Before(d) && !vfDraining(srv.nfs) && updRet.Load() == 0; {
		runtime.Gosched()
	}
	for y := 0; y < 50; y++ {
		runtime.Gosched()
	}
	release()
	select {
	case <-updDone:
	case <-time.After(30 * time.Second):
		rec.Inconclusive(1)
		return
	}
	<-reqDone
	// let a request goroutine that outlived the update finish its backend work
	for d := time.Now().Add(5 * time.Second); time.Now().Before(d); {
		lg.mu.Lock()
		n := len(lg.open)
		lg.mu.Unlock()
		if n == 0 && srv.nfs.policyRWMu.TryLock() {
			srv.nfs.policyRWMu.Unlock()
			break
		}
		runtime.Gosched()
	}
	rec.Eval(1)
	lg.mu.Lock()
	late := 0
	var first string
	for _, e := range lg.ops {
		if e.mutating && (e.ta == 0 || e.ta > updRet.Load()) {
			late++
			if first == "" {
				first = fmt.Sprintf("%s(%s)", e.name, e.path)
			}
		}
	}
	lg.mu.Unlock()
	if late > 0 {
		rec.Violate("C08/backend-modified-after-switch-to-read-only-returned/proc="+proc, fmt.Sprintf("%d modifying backend calls (first: %s) completed after UpdatePolicyOptions(ReadOnly) had returned; the request was in flight (timed out first: %v) when the switch began", late, first, timeoutFirst), map[string]any{"proc": proc, "timeout_first": timeoutFirst})
	}
	rec.Distinct(fmt.Sprintf("in-flight-switch|%s|timeout-first=%v|async=%v|park=%s|late-mutations=%v", proc, timeoutFirst, async, parkAt, late > 0))
}

func vfC08Run(rec *evid.Rec, how string) {
	rng := evid.Rng(8, int64(len(how)))
	fs := refs.New()
	fs.PlantDir("/d", 0777, 0, 0)
	fs.PlantDir("/d/sub", 0777, 0, 0)
	fs.PlantFile("/d/f", []byte("read-only data"), 0666, 0, 0)
	fs.PlantSymlink("/d/ln", "f")
	opts := ExportOptions{AttrCacheTimeout: 5e9, EnableDirCache: true, CacheNegativeLookups: true}
	if how == "construction" {
		opts.ReadOnly = true
	}
	srv, err := vfNewSrv(fs, opts)
	if err != nil {
		rec.Infra(err.Error())
		return
	}
	defer srv.Close()
	c := srv.client()
	root, err := c.mnt("/")
	if err != nil {
		rec.Infra(err.Error())
		return
	}
	var tg vfC08Target
	tg.root = root
	l, _ := c.lookup(root, "d")
	tg.dir = vfFH(l.FH)
	l, _ = c.lookup(tg.dir, "f")
	tg.file = vfFH(l.FH)
	l, _ = c.lookup(tg.dir, "ln")
	tg.link = vfFH(l.FH)
	if how != "construction" {
		// read-write phase: mutate through the server so that caches and node state are warm
		c.write(tg.file, 0, 2, []byte("READ-only data"))
		c.create(tg.dir, "tmp", 0, sattrNone, [8]byte{})
		c.readdirplus(tg.dir, 0, 4096, 8192)
		c.lookup(tg.dir, "absent")
		if how == "UpdatePolicyOptions" {
			p := *srv.nfs.policy.Load()
			p.ReadOnly = true
			err = srv.nfs.UpdatePolicyOptions(p)
		} else {
			o := srv.nfs.GetExportOptions()
			o.ReadOnly = true
			err = srv.nfs.UpdateExportOptions(o)
		}
		if err != nil {
			rec.Infra("switching to read-only failed: " + err.Error())
			return
		}
	}
	before := fs.Snapshot()
	mut0 := fs.MutCount()
	creds := []xdrw.Cred{vfRootCred(), xdrw.AuthSys(1, "h", 1000, 1000, []uint32{0, 1000}), {Flavor: 0}}
	credName := []string{"uid0", "uid1000", "none"}
	argsByProc := vfC08Args(tg, rng)
	check := func(proc uint32, shape string, args []byte, ci int, wellFormed bool) {
		c.Cred = creds[ci]
		lo := fs.LogLen()
		m0 := fs.MutCount()
		evid.Journal(map[string]any{"how": how, "proc": proc, "shape": shape, "args": args})
		rec.Eval(1)
		_, res, err := c.nfs(proc, args)
		st := "rpc-reject"
		if err != nil {
			if _, shapeErr := err.(*vfShapeErr); shapeErr {
				st = "undecodable"
			} else {
				st = "transport-error"
			}
		} else if res != nil {
			st = fmt.Sprint(res.Status)
		}
		if fs.MutCount() != m0 {
			var bad []string
			for _, op := range fs.LogSlice(lo, fs.LogLen()) {
				if op.Mutating {
					bad = append(bad, fmt.Sprintf("%s(%s)", op.Name, op.Path))
				}
			}
			rec.Violate(fmt.Sprintf("C08/backend-modified-while-read-only/proc=%d", proc),
				fmt.Sprintf("read-only via %s: procedure %d (%s args, %s) issued modifying backend calls %v", how, proc, shape, credName[ci], bad),
				map[string]any{"how": how, "proc": proc, "shape": shape, "args": args, "cred": credName[ci]})
		}
		if name, isMut := vfMutatingProcs[proc]; isMut && wellFormed && res != nil && res.Status == 0 {
			rec.Violate("C08/mutating-procedure-succeeded/proc="+name, fmt.Sprintf("read-only via %s: %s answered NFS3_OK", how, name),
				map[string]any{"how": how, "proc": proc, "args": args})
		}
		if proc == 4 && res != nil && res.Status == 0 && res.Access&(0x4|0x8|0x10) != 0 {
			rec.Violate("C08/access-grants-write-while-read-only", fmt.Sprintf("ACCESS granted %#x", res.Access), map[string]any{"how": how, "args": args})
		}
		rec.Distinct(fmt.Sprintf("%s|proc=%d|%s|st=%s", how, proc, shape, st))
	}
	nGarbage := evid.Pick(3, 40)
	for proc := uint32(0); proc <= 22; proc++ {
		list := argsByProc[proc]
		if len(list) == 0 {
			list = [][]byte{nil}
		}
		if evid.Tier() == "quick" && len(list) > 24 {
			// deterministic thinning in the quick tier
			var thin [][]byte
			for i, a := range list {
				if i%3 == int(proc)%3 {
					thin = append(thin, a)
				}
			}
			list = thin
		}
		for ai, a := range list {
			for ci := range creds {
				check(proc, "well-formed", a, ci, true)
			}
			if ai < evid.Pick(4, 1000) {
				for cut := 0; cut < len(a); cut += 4 {
					check(proc, "truncated", a[:cut], ai%3, false)
				}
			}
		}
		for g := 0; g < nGarbage; g++ {
			b := make([]byte, rng.Intn(200))
			for j := range b {
				b[j] = byte(rng.Intn(256))
			}
			check(proc, "garbage", b, g%3, false)
			// a valid handle followed by garbage / huge counts
			hb := append(xdrw.ArgFH([]uint64{tg.root, tg.dir, tg.file}[g%3]), b...)
			check(proc, "handle+garbage", hb, g%3, false)
		}
		huge := (&xdrw.W{}).FH(tg.file).U64(0).U32(0xffffffff).U32(2).U32(0xffffffff).B
		check(proc, "huge-counts", huge, 0, false)
	}
	after := fs.Snapshot()
	if ok, diff := refs.SnapEqual(before, after); !ok {
		rec.Violate("C08/tree-changed-while-read-only", "via "+how+": "+diff, nil)
	}
	if fs.MutCount() != mut0 {
		rec.Violate("C08/mutating-calls-while-read-only/total", fmt.Sprintf("%d modifying backend calls", fs.MutCount()-mut0), nil)
	}
	// switch read-only off again and prove the monitor is not vacuous
	p := *srv.nfs.policy.Load()
	p.ReadOnly = false
	if err := srv.nfs.UpdatePolicyOptions(p); err == nil {
		c.Cred = creds[0]
		m0 := fs.MutCount()
		r, _ := c.write(tg.file, 0, 2, []byte("x"))
		if r == nil || r.Status != 0 || fs.MutCount() == m0 {
			rec.Infra("control write after leaving read-only mode did not reach the backend; the monitor would be vacuous")
		}
		rec.Distinct(how + "|control-write-observed")
	}
	rec.Sample(map[string]any{"how": how, "procedures": 23, "creds": credName})
}
