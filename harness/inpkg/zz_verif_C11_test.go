//go:build verif

package absnfs

import (
	"fmt"
	"strings"
	"testing"

	"verif.local/lib/evid"
	"verif.local/lib/refs"
	"verif.local/lib/xdrw"
)

// vfSquash is the identity-squashing oracle written from the statement of C10.
func vfSquash(mode string, uid, gid uint32, aux []uint32) (uint32, uint32, []uint32) {
	out := append([]uint32(nil), aux...)
	switch strings.ToLower(mode) {
	case "all":
		for i := range out {
			out[i] = 65534
		}
		return 65534, 65534, out
	case "root":
		if uid == 0 {
			uid, gid = 65534, 65534
		} else if gid == 0 {
			gid = 65534
		}
		for i := range out {
			if out[i] == 0 {
				out[i] = 65534
			}
		}
		return uid, gid, out
	case "none", "":
		return uid, gid, out
	}
	return 65534, 65534, out
}

// C11: only an effective root identity can assign ownership.
// Oracle: the backend's Chown/Lchown log and its owner map (new objects start
// "unset").
func TestVerif_C11(t *testing.T) {
	rec := evid.New("C11")
	rec.Rule = "exhaustive grid squash mode x credential x sattr3 uid/gid x {SETATTR on file/dir/symlink, CREATE x3 modes, MKDIR, SYMLINK}; distinct = (squash, caller class, procedure, sattr ids, outcome) tuples"
	rec.Exhaustive = true
	defer rec.Write()
	type cred struct {
		uid, gid uint32
		none     bool // AUTH_NONE: no identity at all, always nobody
	}
	creds := []cred{{0, 0, false}, {1000, 1000, false}, {1000, 0, false}, {65534, 65534, false}, {0, 5, false}, {0, 0, true}}
	idOpts := []int64{-1, -2, 0, 4242} // -1 unset, -2 caller's own
	n := 0
	for _, squashCfg := range []string{"none", "root", "all", "", "Root", "ALL", "root+updates", "all+updates"} {
		// "+updates": the same export after runtime updates whose option literals do not name Squash
		squash := strings.TrimSuffix(squashCfg, "+updates")
		fs := refs.New()
		fs.PlantDir("/d", 0777, 0, 0)
		srv, err := vfNewSrv(fs, ExportOptions{Squash: squash, AttrCacheTimeout: 1})
		if err != nil {
			rec.Infra(err.Error())
			return
		}
		if squashCfg != squash {
			rec.Set("updates_without_squash/"+squash, vfUpdatesWithoutSquash(srv.nfs))
		}
		root, _ := srv.client().mnt("/")
		l, _ := srv.client().lookup(root, "d")
		dh := vfFH(l.FH)
		for _, cr := range creds {
			euid, egid, _ := vfSquash(squash, cr.uid, cr.gid, nil)
			c := srv.client()
			c.Cred = xdrw.AuthSys(1, "h", cr.uid, cr.gid, nil)
			if cr.none {
				euid, egid = 65534, 65534
				c.Cred = xdrw.Cred{Flavor: 0}
			}
			for _, su := range idOpts {
				for _, sg := range idOpts {
					var sa xdrw.Sattr3
					wantU, wantG := euid, egid
					if su != -1 {
						v := uint32(su)
						if su == -2 {
							v = euid
						}
						sa.UID = &v
						if euid == 0 {
							wantU = v
						}
					}
					if sg != -1 {
						v := uint32(sg)
						if sg == -2 {
							v = egid
						}
						sa.GID = &v
						if euid == 0 {
							wantG = v
						}
					}
					for _, proc := range []string{"CREATE-UNCHECKED", "CREATE-GUARDED", "CREATE-EXCLUSIVE", "MKDIR", "SYMLINK", "SETATTR-file", "SETATTR-dir", "SETATTR-symlink"} {
						n++
						name := fmt.Sprintf("o%d", n)
						p := "/d/" + name
						desc := fmt.Sprintf("squash=%q cred=%d:%d(auth_none=%v) effective=%d:%d sattr.uid=%d sattr.gid=%d proc=%s", squash, cr.uid, cr.gid, cr.none, euid, egid, su, sg, proc)
						var target uint64
						if strings.HasPrefix(proc, "SETATTR") {
							switch proc {
							case "SETATTR-file":
								fs.PlantFile(p, []byte("x"), 0666, 77, 88)
							case "SETATTR-dir":
								fs.PlantDir(p, 0777, 77, 88)
							default:
								fs.PlantFile(p+".t", []byte("x"), 0666, 77, 88)
								fs.PlantSymlink(p, name+".t")
							}
							lr, _ := srv.client().lookup(dh, name)
							if lr == nil || lr.Status != 0 {
								continue
							}
							target = vfFH(lr.FH)
						}
						wantU, wantG := wantU, wantG
						lo := fs.LogLen()
						rec.Eval(1)
						var st uint32
						switch proc {
						case "CREATE-UNCHECKED", "CREATE-GUARDED":
							how := uint32(0)
							if proc == "CREATE-GUARDED" {
								how = 1
							}
							r, _ := c.create(dh, name, how, sa, [8]byte{})
							st = vfSt(r)
						case "CREATE-EXCLUSIVE":
							r, _ := c.create(dh, name, 2, sa, [8]byte{3})
							st = vfSt(r)
							wantU, wantG = euid, egid // no sattr3 in EXCLUSIVE
						case "MKDIR":
							r, _ := c.mkdir(dh, name, sa)
							st = vfSt(r)
						case "SYMLINK":
							r, _ := c.symlink(dh, name, "zz", sa)
							st = vfSt(r)
						default:
							r, _ := c.setattr(target, sa)
							st = vfSt(r)
						}
						// (a) every ownership assignment in this request
						for _, op := range fs.LogSlice(lo, fs.LogLen()) {
							if op.Name != "Chown" && op.Name != "Lchown" {
								continue
							}
							if euid != 0 && (op.UID != int(euid) && op.UID != -1 || op.GID != int(egid) && op.GID != -1) {
								rec.Violate("C11/non-root-assigned-foreign-owner/proc="+strings.SplitN(proc, "-", 2)[0],
									fmt.Sprintf("%s(%s,%d,%d) issued for a caller with effective identity %d:%d", op.Name, op.Path, op.UID, op.GID, euid, egid), desc)
							}
						}
						e, ok := fs.Peek(p)
						if strings.HasPrefix(proc, "SETATTR") {
							o1, o2 := 77, 88
							if proc == "SETATTR-symlink" {
								o1, o2 = 0, 0 // planted symlinks are owned 0:0
							}
							if euid != 0 && ok && (e.Uid != o1 || e.Gid != o2) && !(e.Uid == int(euid) && e.Gid == int(egid)) {
								rec.Violate("C11/setattr-ids-not-ignored-for-non-root/"+proc, fmt.Sprintf("owner became %d:%d", e.Uid, e.Gid), desc)
							}
							if proc == "SETATTR-symlink" {
								if te, ok := fs.Peek(p + ".t"); ok && euid != 0 && (te.Uid != 77 || te.Gid != 88) && !(te.Uid == int(euid) && te.Gid == int(egid)) {
									rec.Violate("C11/setattr-ids-not-ignored-for-non-root/symlink-target", fmt.Sprintf("owner became %d:%d", te.Uid, te.Gid), desc)
								}
							}
						} else if st == 0 {
							// (b) new objects get the caller's effective identity
							if !ok {
								rec.Violate("C11/created-object-missing", p, desc)
							} else if !e.OwnerSet || e.Uid != int(wantU) || e.Gid != int(wantG) {
								got := fmt.Sprintf("%d:%d", e.Uid, e.Gid)
								if !e.OwnerSet {
									got = "never set (backend default)"
								}
								rec.Violate("C11/new-object-owner-not-caller/proc="+strings.SplitN(proc, "-", 2)[0],
									fmt.Sprintf("%s by effective %d:%d left backend owner %s, want %d:%d", proc, euid, egid, got, wantU, wantG), desc)
							}
						}
						caller := "non-root"
						if euid == 0 {
							caller = "root"
						}
						if cr.none {
							caller = "auth-none"
						}
						rec.Distinct(fmt.Sprintf("%s|%s|%s|uid=%d gid=%d|st=%d", squash, caller, proc, su, sg, st))
					}
				}
			}
		}
		srv.Close()
	}
	vfC11Connection(rec)
	rec.Sample(map[string]any{"grid": "6 squash spellings x 6 credentials (incl. AUTH_NONE) x 4x4 sattr ids x 8 procedures", "cases": n})
}

// vfC11Connection: the same rule on ONE connection of the real connection loop that carries calls of
// several identities in turn (root first, then ordinary users, and the other way round): every call
// is judged by its own credential, not by one seen earlier on the connection.
func vfC11Connection(rec *evid.Rec) {
	type cr struct{ uid, gid uint32 }
	for oi, order := range [][]cr{{{0, 0}, {1000, 1000}, {2000, 2000}, {0, 0}, {1000, 0}}, {{1000, 1000}, {0, 0}, {2000, 2000}, {1000, 1000}}} {
		for _, squash := range []string{"none", "root"} {
			fs := refs.New()
			fs.PlantDir("/d", 0777, 0, 0)
			fs.PlantFile("/d/victim", []byte("x"), 0666, 77, 88)
			srv, err := vfNewSrv(fs, ExportOptions{Squash: squash, AttrCacheTimeout: 1})
			if err != nil {
				rec.Infra(err.Error())
				return
			}
			c0 := srv.client()
			root, _ := c0.mnt("/")
			l, _ := c0.lookup(root, "d")
			lv, _ := c0.lookup(vfFH(l.FH), "victim")
			if l == nil || l.Status != 0 || lv == nil || lv.Status != 0 {
				rec.Infra("lookup")
				srv.Close()
				return
			}
			dh, vh := vfFH(l.FH), vfFH(lv.FH)
			p := srv.pipe("127.0.0.1", 660)
			for i, k := range order {
				euid, egid, _ := vfSquash(squash, k.uid, k.gid, nil)
				cred := xdrw.AuthSys(uint32(i), "h", k.uid, k.gid, nil)
				name := fmt.Sprintf("n%d", i)
				sa := xdrw.Sattr3{UID: xdrw.U32p(4242), GID: xdrw.U32p(4243)}
				lo := fs.LogLen()
				rec.Eval(2)
				if _, _, err := p.call(vfProgNFS, 3, 9, cred, xdrw.ArgMkdir(dh, name, sa)); err != nil {
					rec.Inconclusive(1)
					break
				}
				if _, _, err := p.call(vfProgNFS, 3, 2, cred, xdrw.ArgSetattr(vh, sa, false, 0, 0)); err != nil {
					rec.Inconclusive(1)
					break
				}
				desc := fmt.Sprintf("order %d squash=%s call %d with AUTH_SYS %d:%d (effective %d:%d) after %v on the same connection", oi, squash, i, k.uid, k.gid, euid, egid, order[:i])
				for _, op := range fs.LogSlice(lo, fs.LogLen()) {
					if (op.Name == "Chown" || op.Name == "Lchown") && euid != 0 && (op.UID != int(euid) && op.UID != -1 || op.GID != int(egid) && op.GID != -1) {
						rec.Violate("C11/connection/non-root-assigned-foreign-owner", fmt.Sprintf("%s: backend %s(%s,%d,%d)", desc, op.Name, op.Path, op.UID, op.GID), desc)
					}
				}
				wantU, wantG := euid, egid
				if euid == 0 {
					wantU, wantG = 4242, 4243
				}
				if e, ok := fs.Peek("/d/" + name); ok && (!e.OwnerSet || e.Uid != int(wantU) || e.Gid != int(wantG)) {
					rec.Violate("C11/connection/new-object-owner-not-caller", fmt.Sprintf("%s: MKDIR left owner %d:%d, want %d:%d", desc, e.Uid, e.Gid, wantU, wantG), desc)
				}
				if e, ok := fs.Peek("/d/victim"); ok && euid != 0 && (e.Uid == 4242 || e.Gid == 4243) {
					rec.Violate("C11/connection/setattr-ids-not-ignored-for-non-root", fmt.Sprintf("%s: SETATTR made the owner %d:%d", desc, e.Uid, e.Gid), desc)
				}
				fs.PlantFile("/d/victim", []byte("x"), 0666, 77, 88)
				rec.Distinct(fmt.Sprintf("connection|order=%d|%s|call=%d|root=%v", oi, squash, i, euid == 0))
			}
			p.close()
			srv.Close()
		}
	}
}
