//go:build verif

package absnfs

import (
	"fmt"
	"io"
	"net"
	"net/netip"
	"strings"
	"testing"
	"time"

	"verif.local/lib/evid"
	"verif.local/lib/refs"
	"verif.local/lib/rfc"
	"verif.local/lib/xdrw"
)

// C09: host filtering and the secure-port rule gate every request.
// Oracle: membership computed with net/netip (different code from the net.IP
// routines the server uses).

// vfIPAllowed returns (allowed, decidable). Undecidable inputs (zone-qualified
// clients, IPv4-mapped prefixes) are checked for agreement between the two
// server filters only.
func vfIPAllowed(client string, list []string) (bool, bool) {
	if strings.Contains(client, "%") {
		return false, false
	}
	c, err := netip.ParseAddr(client)
	if err != nil {
		return false, true
	}
	c = c.Unmap()
	decidable := true
	for _, e := range list {
		if strings.Contains(e, "/") {
			p, err := netip.ParsePrefix(e)
			if err != nil {
				continue
			}
			if p.Addr().Is4In6() {
				decidable = false
				continue
			}
			if p.Masked().Contains(c) {
				return true, true
			}
		} else {
			if strings.Contains(e, "%") {
				decidable = false
				continue
			}
			a, err := netip.ParseAddr(e)
			if err != nil {
				continue
			}
			if a.Unmap() == c {
				return true, true
			}
		}
	}
	return false, decidable
}

func TestVerif_C09(t *testing.T) {
	rec := evid.New("C09")
	rec.Rule = "(a) both filters vs a netip oracle over allow-lists of single v4/v6/mapped addresses, CIDRs of every prefix length with canonical and non-canonical bases and malformed entries, clients at the boundary addresses of every CIDR, mapped, zone-qualified and malformed; (b) HandleCall for every NFS/MOUNT procedure and an unknown program with chosen address and port; (c) real TCP from 127.0.0.x source addresses; distinct = (layer, entry class, client class, decision) tuples"
	defer rec.Write()
	fs := refs.New()
	fs.PlantFile("/f", []byte("x"), 0644, 0, 0)
	srv, err := vfNewSrv(fs, ExportOptions{AttrCacheTimeout: 1})
	if err != nil {
		rec.Infra(err.Error())
		return
	}
	defer srv.Close()
	setList := func(l []string) {
		p := *srv.nfs.policy.Load()
		p.AllowedIPs = l
		srv.nfs.UpdatePolicyOptions(p)
	}
	// ---- (a) function level ----
	rng := evid.Rng(9)
	type tc struct {
		list    []string
		clients []string
		cls     string
	}
	var cases []tc
	v4base := []string{"10.1.2.3", "192.168.1.77", "0.0.0.0", "255.255.255.255", "127.0.0.1", "172.16.255.128"}
	for _, b := range v4base {
		for bits := 0; bits <= 32; bits++ {
			entry := fmt.Sprintf("%s/%d", b, bits)
			p := netip.MustParsePrefix(entry).Masked()
			first := p.Addr()
			last := vfLastAddr(p)
			cl := []string{first.String(), last.String(), "::ffff:" + first.String(), "::ffff:" + last.String()}
			if pr := first.Prev(); pr.IsValid() {
				cl = append(cl, pr.String(), "::ffff:"+pr.String())
			}
			if nx := last.Next(); nx.IsValid() {
				cl = append(cl, nx.String())
			}
			cases = append(cases, tc{[]string{entry}, cl, "v4-cidr"})
			cases = append(cases, tc{[]string{"bogus", p.String(), "300.1.1.1"}, cl, "v4-cidr-canonical+malformed"})
		}
	}
	for _, b := range []string{"2001:db8::1", "fe80::abcd", "::", "ffff:ffff:ffff:ffff:ffff:ffff:ffff:ffff", "::1"} {
		step := evid.Pick(7, 1)
		for bits := 0; bits <= 128; bits += step {
			entry := fmt.Sprintf("%s/%d", b, bits)
			p := netip.MustParsePrefix(entry).Masked()
			first, last := p.Addr(), vfLastAddr(p)
			cl := []string{first.String(), last.String(), "10.0.0.1"}
			if pr := first.Prev(); pr.IsValid() {
				cl = append(cl, pr.String())
			}
			if nx := last.Next(); nx.IsValid() {
				cl = append(cl, nx.String())
			}
			cases = append(cases, tc{[]string{entry}, cl, "v6-cidr"})
		}
	}
	singles := []string{"10.0.0.5", "::ffff:10.0.0.5", "2001:db8::5", "::1", "127.0.0.1", "0:0:0:0:0:ffff:0a00:0005"}
	probe := []string{"10.0.0.5", "::ffff:10.0.0.5", "::ffff:a00:5", "10.0.0.6", "2001:db8::5", "2001:db8:0:0:0:0:0:5", "2001:db8::6", "::1", "127.0.0.1", "::ffff:127.0.0.1",
		"", "garbage", "10.0.0", "10.0.0.5.6", "010.0.0.5", "fe80::1%eth0", "10.0.0.5%eth0", " 10.0.0.5", "10.0.0.5 ", "::ffff:10.0.0.5%x", "0x0a000005", "1e1"}
	for _, s := range singles {
		cases = append(cases, tc{[]string{s}, probe, "single"})
	}
	cases = append(cases, tc{[]string{"10.0.0.0/33", "abc", "10.0.0/8", "", "/", "1.2.3.4/", "::/129", "/24"}, probe, "all-malformed"})
	cases = append(cases, tc{[]string{"::ffff:10.0.0.0/104", "::ffff:0:0/96"}, probe, "mapped-cidr"})
	cases = append(cases, tc{[]string{"0.0.0.0/0"}, probe, "v4-any"})
	cases = append(cases, tc{[]string{"::/0"}, probe, "v6-any"})
	nrand := evid.Pick(300, 30000)
	for i := 0; i < nrand; i++ {
		var l []string
		for j := 0; j < 1+rng.Intn(4); j++ {
			a := fmt.Sprintf("%d.%d.%d.%d", rng.Intn(256), rng.Intn(4), rng.Intn(4), rng.Intn(256))
			if rng.Intn(2) == 0 {
				a += fmt.Sprintf("/%d", rng.Intn(33))
			}
			if rng.Intn(5) == 0 {
				a = "::ffff:" + a
			}
			l = append(l, a)
		}
		var cl []string
		for j := 0; j < 6; j++ {
			c := fmt.Sprintf("%d.%d.%d.%d", rng.Intn(256), rng.Intn(4), rng.Intn(4), rng.Intn(256))
			if rng.Intn(3) == 0 {
				c = "::ffff:" + c
			}
			cl = append(cl, c)
		}
		cases = append(cases, tc{l, cl, "random"})
	}
	pairs := 0
	for _, k := range cases {
		setList(k.list)
		for _, cl := range k.clients {
			pairs++
			f1 := isIPAllowed(cl, k.list)
			f2 := srv.srv.isIPAllowed(cl)
			want, dec := vfIPAllowed(cl, k.list)
			desc := map[string]any{"allowed_ips": k.list, "client": cl}
			if f1 != f2 {
				rec.Violate("C09/request-and-connection-filters-disagree/"+k.cls, fmt.Sprintf("request filter=%v connection filter=%v for client %q against %v", f1, f2, cl, k.list), desc)
			}
			if dec && f1 != want {
				rec.Violate(fmt.Sprintf("C09/request-filter-wrong/%s/want=%v", k.cls, want), fmt.Sprintf("client %q against %v: filter says %v", cl, k.list, f1), desc)
			}
			if dec && f2 != want {
				rec.Violate(fmt.Sprintf("C09/connection-filter-wrong/%s/want=%v", k.cls, want), fmt.Sprintf("client %q against %v: filter says %v", cl, k.list, f2), desc)
			}
			ccls := "v4"
			switch {
			case strings.Contains(cl, "%"):
				ccls = "zoned"
			case strings.HasPrefix(cl, "::ffff:"):
				ccls = "mapped"
			case strings.Contains(cl, ":"):
				ccls = "v6"
			case net.ParseIP(cl) == nil:
				ccls = "malformed"
			}
			rec.Distinct(fmt.Sprintf("fn|%s|%s|allowed=%v|decidable=%v", k.cls, ccls, f1, dec))
		}
	}
	rec.Eval(pairs)
	rec.Set("filter_pairs", pairs)

	// ---- (b) request level through HandleCall ----
	c := srv.client()
	setList(nil)
	root, err := c.mnt("/")
	if err != nil {
		rec.Infra(err.Error())
		return
	}
	type pol struct {
		list   []string
		secure bool
	}
	pols := []pol{{[]string{"10.0.0.0/24", "2001:db8::7"}, false}, {nil, true}, {[]string{"10.0.0.9"}, true}}
	clients := []struct {
		ip   string
		port int
	}{{"10.0.0.9", 1023}, {"10.0.0.9", 1024}, {"10.0.0.9", 0}, {"10.0.0.9", 1}, {"10.0.0.9", 65535}, {"::ffff:10.0.0.9", 700}, {"10.0.1.9", 700}, {"2001:db8::7", 80}, {"2001:db8::8", 80}, {"", 700}, {"junk", 700}}
	for _, pl := range pols {
		p := *srv.nfs.policy.Load()
		p.AllowedIPs, p.Secure = pl.list, pl.secure
		srv.nfs.UpdatePolicyOptions(p)
		for _, cl := range clients {
			c.IP, c.Port = cl.ip, cl.port
			ipOK := true
			dec := true
			if len(pl.list) > 0 {
				ipOK, dec = vfIPAllowed(cl.ip, pl.list)
			}
			want := ipOK && (!pl.secure || cl.port < 1024)
			for _, pr := range [][3]uint32{{vfProgNFS, 3, 0}, {vfProgNFS, 3, 1}, {vfProgNFS, 3, 3}, {vfProgNFS, 3, 6}, {vfProgNFS, 3, 7}, {vfProgNFS, 3, 8}, {vfProgNFS, 3, 9}, {vfProgNFS, 3, 12}, {vfProgNFS, 3, 14}, {vfProgNFS, 3, 16}, {vfProgNFS, 3, 17}, {vfProgNFS, 3, 19}, {vfProgNFS, 3, 21}, {vfProgNFS, 3, 2}, {vfProgNFS, 3, 4}, {vfProgNFS, 3, 5}, {vfProgNFS, 3, 10}, {vfProgNFS, 3, 11}, {vfProgNFS, 3, 13}, {vfProgNFS, 3, 15}, {vfProgNFS, 3, 18}, {vfProgNFS, 3, 20}, {vfProgMount, 3, 0}, {vfProgMount, 3, 1}, {vfProgMount, 3, 2}, {vfProgMount, 3, 3}, {vfProgMount, 3, 4}, {vfProgMount, 3, 5}, {424242, 1, 0}} {
				args := xdrw.ArgDirop(root, "f")
				if pr[0] == vfProgMount {
					args = (&xdrw.W{}).Str("/").B
				}
				lo, hc := fs.LogLen(), srv.nfs.fileMap.Count()
				rec.Eval(1)
				_, raw, err := c.rawCall(pr[0], pr[1], pr[2], args)
				if err != nil {
					continue
				}
				rep, derr := rfc.DecodeReply(raw)
				if derr != nil {
					continue // C14's business
				}
				desc := map[string]any{"allowed_ips": pl.list, "secure": pl.secure, "client": cl.ip, "port": cl.port, "prog": pr[0], "proc": pr[2]}
				if dec && !want {
					if !rep.Denied {
						rec.Violate(fmt.Sprintf("C09/rejected-client-not-denied/secure=%v", pl.secure), fmt.Sprintf("client %s:%d prog %d proc %d was not answered MSG_DENIED", cl.ip, cl.port, pr[0], pr[2]), desc)
					}
					if fs.LogLen() != lo || srv.nfs.fileMap.Count() != hc {
						rec.Violate("C09/rejected-request-reached-backend-or-handles", fmt.Sprintf("client %s:%d prog %d proc %d: %d backend calls, handle count %d -> %d", cl.ip, cl.port, pr[0], pr[2], fs.LogLen()-lo, hc, srv.nfs.fileMap.Count()), desc)
					}
				}
				if dec && want && rep.Denied {
					rec.Violate("C09/allowed-client-denied", fmt.Sprintf("client %s:%d prog %d proc %d", cl.ip, cl.port, pr[0], pr[2]), desc)
				}
				rec.Distinct(fmt.Sprintf("req|secure=%v|list=%d|ip-ok=%v|port<1024=%v|prog=%d|denied=%v", pl.secure, len(pl.list), ipOK, cl.port < 1024, pr[0], rep.Denied))
			}
		}
	}
	// ---- (b2) the list as CONFIGURED, through every way of configuring it ----
	// The oracle reads the option the administrator wrote, not what the server stored: a non-empty
	// list admits its members only (nobody at all when no entry is well-formed).
	cfgLists := [][]string{{"192.168.10.0/33"}, {"host.example.com", "192.168.1.*"}, {""}, {"bogus", "10.0.0.0/24"}, {"10.0.0.9"}, {"10.0.0.9/32", "nonsense/8"}, {"::ffff:10.0.0.9"}, {"2001:db8::7"}}
	cfgClients := []string{"10.0.0.9", "10.0.1.9", "::ffff:10.0.0.9", "2001:db8::7", "2001:db8::8", "192.168.10.1", "127.0.0.1"}
	for _, l := range cfgLists {
		for _, via := range []string{"New", "UpdateExportOptions", "UpdatePolicyOptions"} {
			fs2 := refs.New()
			fs2.PlantFile("/f", []byte("x"), 0644, 0, 0)
			o := ExportOptions{AttrCacheTimeout: 1}
			// the program's own slice: it is handed to the server and reused by the program afterwards
			given := append([]string(nil), l...)
			if via == "New" {
				o.AllowedIPs = given
			}
			s2, err := vfNewSrv(fs2, o)
			if err != nil {
				rec.Distinct("cfg|" + via + "|refused")
				continue // a configuration the server refuses outright is outside the property
			}
			var cerr error
			switch via {
			case "UpdateExportOptions":
				eo := s2.nfs.GetExportOptions()
				eo.AllowedIPs = given
				cerr = s2.nfs.UpdateExportOptions(eo)
			case "UpdatePolicyOptions":
				q := *s2.nfs.policy.Load()
				q.AllowedIPs = given
				cerr = s2.nfs.UpdatePolicyOptions(q)
			}
			if cerr != nil {
				rec.Distinct("cfg|" + via + "|refused")
				s2.Close()
				continue
			}
			// the configuration is in force; the program now reuses its slice for something else (a
			// template for another, public export): the list configured here is the one it WROTE
			for i := range given {
				given[i] = []string{"0.0.0.0/0", "::/0"}[i%2]
			}
			c2 := s2.client()
			for _, cl := range cfgClients {
				want, dec := vfIPAllowed(cl, l)
				if !dec {
					continue
				}
				c2.IP, c2.Port = cl, 700
				lo := fs2.LogLen()
				rec.Eval(1)
				_, raw, err := c2.rawCall(vfProgMount, 3, 1, (&xdrw.W{}).Str("/").B)
				if err != nil {
					continue
				}
				rep, derr := rfc.DecodeReply(raw)
				if derr != nil {
					continue
				}
				connOK := s2.srv.isIPAllowed(cl)
				desc := map[string]any{"allowed_ips_as_configured": l, "configured_via": via, "client": cl}
				if !want && (!rep.Denied || fs2.LogLen() != lo) {
					rec.Violate("C09/client-outside-configured-list-served/via="+via, fmt.Sprintf("AllowedIPs=%q configured through %s: MNT from %s denied=%v, %d backend calls", l, via, cl, rep.Denied, fs2.LogLen()-lo), desc)
				}
				if !want && connOK {
					rec.Violate("C09/client-outside-configured-list-passes-connection-filter/via="+via, fmt.Sprintf("AllowedIPs=%q configured through %s: the connection-level filter admits %s", l, via, cl), desc)
				}
				if want && (rep.Denied || !connOK) {
					rec.Violate("C09/listed-client-denied/via="+via, fmt.Sprintf("AllowedIPs=%q configured through %s: %s denied (request denied=%v, connection filter=%v)", l, via, cl, rep.Denied, connOK), desc)
				}
				wf := 0
				for _, e := range l {
					if _, err := netip.ParseAddr(e); err == nil {
						wf++
					} else if _, err := netip.ParsePrefix(e); err == nil {
						wf++
					}
				}
				rec.Distinct(fmt.Sprintf("cfg|%s|entries=%d|well-formed=%d|member=%v|denied=%v", via, len(l), wf, want, rep.Denied))
			}
			s2.Close()
		}
	}
	// ---- (c) connection level over real TCP ----
	p := *srv.nfs.policy.Load()
	p.AllowedIPs, p.Secure = []string{"127.0.0.2", "127.0.0.8/30"}, false
	srv.nfs.UpdatePolicyOptions(p)
	if err := srv.srv.Listen(); err != nil {
		rec.Inconclusive(1)
		return
	}
	defer srv.srv.Stop()
	port := srv.srv.GetPort()
	tcp := 0
	for _, src := range []string{"127.0.0.1", "127.0.0.2", "127.0.0.3", "127.0.0.7", "127.0.0.8", "127.0.0.11", "127.0.0.12"} {
		want, _ := vfIPAllowed(src, p.AllowedIPs)
		d := net.Dialer{LocalAddr: &net.TCPAddr{IP: net.ParseIP(src)}, Timeout: 10 * time.Second}
		conn, err := d.Dial("tcp", fmt.Sprintf("127.0.0.1:%d", port))
		if err != nil {
			rec.Inconclusive(1)
			continue
		}
		conn.SetDeadline(time.Now().Add(20 * time.Second))
		conn.Write(xdrw.Record(xdrw.CallHeader(77, vfProgNFS, 3, 0, xdrw.Cred{})))
		var hdr [4]byte
		_, rerr := io.ReadFull(conn, hdr[:])
		got := rerr == nil
		conn.Close()
		tcp++
		rec.Eval(1)
		if ne, ok := rerr.(net.Error); ok && ne.Timeout() {
			rec.Inconclusive(1)
			continue
		}
		if got != want {
			rec.Violate(fmt.Sprintf("C09/tcp-connection-filter-wrong/want-served=%v", want), fmt.Sprintf("source %s against %v: served=%v (%v)", src, p.AllowedIPs, got, rerr), nil)
		}
		rec.Distinct(fmt.Sprintf("tcp|src=%s|served=%v", src, got))
	}
	// a connection opened while its address was listed is judged by the list in force NOW
	for _, via := range []string{"UpdatePolicyOptions", "UpdateExportOptions"} {
		set := func(l []string) {
			if via == "UpdatePolicyOptions" {
				q := *srv.nfs.policy.Load()
				q.AllowedIPs = l
				srv.nfs.UpdatePolicyOptions(q)
			} else {
				eo := srv.nfs.GetExportOptions()
				eo.AllowedIPs = l
				srv.nfs.UpdateExportOptions(eo)
			}
		}
		set([]string{"127.0.0.2"})
		d := net.Dialer{LocalAddr: &net.TCPAddr{IP: net.ParseIP("127.0.0.2")}, Timeout: 10 * time.Second}
		conn, err := d.Dial("tcp", fmt.Sprintf("127.0.0.1:%d", port))
		if err != nil {
			rec.Inconclusive(1)
			continue
		}
		call := func(xid, proc uint32, args []byte) (string, error) {
			conn.SetDeadline(time.Now().Add(20 * time.Second))
			conn.Write(xdrw.Record(append(xdrw.CallHeader(xid, vfProgNFS, 3, proc, vfRootCred()), args...)))
			var hdr [4]byte
			if _, err := io.ReadFull(conn, hdr[:]); err != nil {
				if ne, ok := err.(net.Error); ok && ne.Timeout() {
					return "", err
				}
				return "closed", nil
			}
			n := (uint32(hdr[0])<<24 | uint32(hdr[1])<<16 | uint32(hdr[2])<<8 | uint32(hdr[3])) & 0x7fffffff
			b := make([]byte, n)
			if _, err := io.ReadFull(conn, b); err != nil {
				return "closed", nil
			}
			rep, derr := rfc.DecodeReply(b)
			if derr != nil {
				return "undecodable", nil
			}
			if rep.Denied {
				return "denied", nil
			}
			return "accepted", nil
		}
		if r, err := call(1, 0, nil); err != nil || r != "accepted" {
			rec.Inconclusive(1)
			conn.Close()
			continue
		}
		set([]string{"127.0.0.3"})
		for i, pr := range []uint32{0, 1, 19, 3} {
			rec.Eval(1)
			r, err := call(uint32(10+i), pr, xdrw.ArgDirop(root, "f"))
			if err != nil {
				rec.Inconclusive(1)
				break
			}
			if r == "accepted" {
				rec.Violate("C09/delisted-client-served-on-connection-opened-earlier/via="+via, fmt.Sprintf("127.0.0.2 was removed from AllowedIPs by %s; NFS procedure %d on its already open connection was still answered MSG_ACCEPTED", via, pr), nil)
			}
			rec.Distinct(fmt.Sprintf("tcp-old-connection|%s|proc=%d|%s", via, pr, r))
			if r == "closed" {
				break
			}
		}
		conn.Close()
	}
	rec.Set("tcp_clients", tcp)
	rec.Sample(map[string]any{"allow_list": cases[3].list, "clients": cases[3].clients})
}

func vfLastAddr(p netip.Prefix) netip.Addr {
	a := p.Masked().Addr()
	b := a.AsSlice()
	bits := p.Bits()
	for i := bits; i < len(b)*8; i++ {
		b[i/8] |= 1 << (7 - uint(i%8))
	}
	out, _ := netip.AddrFromSlice(b)
	return out
}
