//go:build verif

package absnfs

import (
	"strings"
	"fmt"
	"testing"

	"verif.local/lib/evid"
	"verif.local/lib/refs"
	"verif.local/lib/rfc"
	"verif.local/lib/xdrw"
)

// C10: identity squashing maps every credential as configured.
// Oracle: vfSquash (written from the statement, see zz_verif_C11_test.go).
func TestVerif_C10(t *testing.T) {
	rec := evid.New("C10")
	rec.Rule = "exhaustive grid uid,gid in {0,1,1000,65533,65534,65535,2^31,2^32-1} x aux-gid lists of length 0..16 (with/without zeros and duplicates) x squash mode {'',none,root,all,ROOT,All,nOnE,bogus} observed at ValidateAuthentication and at HandleCall (effective ids on the context and the aux gids as used by ACCESS); flavors {NONE,SYS,SHORT,DH,random}; bodies truncated at every byte, 17 gids, oversized machine name; distinct = (mode, uid class, gid class, aux class, outcome) tuples"
	rec.Exhaustive = true
	defer rec.Write()
	ids := []uint32{0, 1, 1000, 65533, 65534, 65535, 1 << 31, 1<<32 - 1}
	rng := evid.Rng(10)
	auxLists := [][]uint32{nil, {0}, {5}, {0, 0}, {1000, 0, 1000}, {7, 8, 9, 0, 10}}
	full := make([]uint32, 16)
	for i := range full {
		full[i] = uint32(i * 3 % 7)
	}
	auxLists = append(auxLists, full)
	for i := 0; i < 6; i++ {
		l := make([]uint32, 1+rng.Intn(16))
		for j := range l {
			l[j] = []uint32{0, 0, 65534, 1000, uint32(rng.Uint32())}[rng.Intn(5)]
		}
		auxLists = append(auxLists, l)
	}
	modes := []string{"", "none", "root", "all", "ROOT", "All", "nOnE", "bogus"}
	cls := func(v uint32) string {
		switch v {
		case 0:
			return "0"
		case 65534:
			return "nobody"
		}
		return "other"
	}
	eq := func(a, b []uint32) bool {
		if len(a) != len(b) {
			return false
		}
		for i := range a {
			if a[i] != b[i] {
				return false
			}
		}
		return true
	}
	n := 0
	for _, mode := range modes {
		pol := &PolicyOptions{Squash: mode}
		for _, uid := range ids {
			for _, gid := range ids {
				for ai, aux := range auxLists {
					n++
					cred := xdrw.AuthSys(7, "host", uid, gid, aux)
					wu, wg, waux := vfSquash(mode, uid, gid, aux)
					// (1) ValidateAuthentication parsing the body itself
					ctx := &AuthContext{ClientIP: "10.0.0.1", ClientPort: 700, Credential: &RPCCredential{Flavor: cred.Flavor, Body: cred.Body}}
					res := ValidateAuthentication(ctx, pol)
					desc := fmt.Sprintf("mode=%q uid=%d gid=%d aux=%v", mode, uid, gid, aux)
					if !res.Allowed {
						rec.Violate("C10/valid-auth-sys-denied", desc+": "+res.Reason, desc)
						continue
					}
					if res.UID != wu || res.GID != wg {
						rec.Violate(fmt.Sprintf("C10/effective-ids-wrong/mode=%s/uid=%s/gid=%s", mode, cls(uid), cls(gid)), fmt.Sprintf("%s: got %d:%d want %d:%d", desc, res.UID, res.GID, wu, wg), desc)
					}
					if ctx.AuthSys == nil || !eq(ctx.AuthSys.AuxGIDs, waux) {
						var got []uint32
						if ctx.AuthSys != nil {
							got = ctx.AuthSys.AuxGIDs
						}
						rec.Violate("C10/aux-gids-wrong/mode="+mode, fmt.Sprintf("%s: got %v want %v", desc, got, waux), desc)
					}
					// (2) a pre-parsed credential shared by two requests: the caller's array must not change
					shared := &AuthSysCredential{Stamp: 1, MachineName: "h", UID: uid, GID: gid, AuxGIDs: append([]uint32(nil), aux...)}
					callerView := shared.AuxGIDs
					for k := 0; k < 2; k++ {
						ctx2 := &AuthContext{ClientIP: "10.0.0.1", ClientPort: 700, Credential: &RPCCredential{Flavor: 1, Body: cred.Body}, AuthSys: shared}
						ValidateAuthentication(ctx2, pol)
					}
					if !eq(callerView, aux) {
						rec.Violate("C10/shared-aux-gid-array-mutated/mode="+mode, fmt.Sprintf("%s: caller's array became %v", desc, callerView), desc)
					}
					ac := "none"
					if len(aux) > 0 {
						ac = "some"
						for _, g := range aux {
							if g == 0 {
								ac = "has-zero"
							}
						}
					}
					rec.Distinct(fmt.Sprintf("%s|uid=%s|gid=%s|aux=%s|%d:%d", mode, cls(uid), cls(gid), ac, min64i(int(res.UID), 3), min64i(int(res.GID), 3)))
					_ = ai
				}
			}
		}
	}
	rec.Eval(n)
	// (3) through HandleCall: effective ids on the context and aux gids as used by ACCESS
	for _, modeCfg := range []string{"none", "root", "all", "ROOT", "", "root+updates", "all+updates"} {
		// "+updates": the same export after runtime updates whose option literals do not name Squash
		mode := strings.TrimSuffix(modeCfg, "+updates")
		fs := refs.New()
		fs.PlantFile("/g", []byte("x"), 0040, 4000, 0)
		srv, err := vfNewSrv(fs, ExportOptions{Squash: mode, AttrCacheTimeout: 1})
		if err != nil {
			rec.Infra(err.Error())
			return
		}
		if modeCfg != mode {
			rec.Set("updates_without_squash/"+mode, vfUpdatesWithoutSquash(srv.nfs))
		}
		c := srv.client()
		root, _ := c.mnt("/")
		l, _ := c.lookup(root, "g")
		if l == nil || l.Status != 0 {
			rec.Infra("lookup g")
			return
		}
		h := vfFH(l.FH)
		node, _ := srv.ph.lookupNode(h)
		for _, fgid := range []uint32{0, 1000, 65534} {
			node.mu.Lock()
			node.attrs.Uid, node.attrs.Gid = 4000, fgid
			node.mu.Unlock()
			for _, cr := range [][3]any{{uint32(0), uint32(0), []uint32{}}, {uint32(500), uint32(600), []uint32{0, 1000}}, {uint32(500), uint32(0), []uint32{7}}, {uint32(500), uint32(600), []uint32{65534}}, {uint32(0), uint32(600), []uint32{1000}}} {
				uid, gid, aux := cr[0].(uint32), cr[1].(uint32), cr[2].([]uint32)
				c.Cred = xdrw.AuthSys(1, "h", uid, gid, aux)
				rec.Eval(1)
				r, err := c.access(h, 1)
				if err != nil || r == nil || r.Status != 0 {
					continue
				}
				wu, wg, waux := vfSquash(mode, uid, gid, aux)
				if c.LastCtx.EffectiveUID != wu || c.LastCtx.EffectiveGID != wg {
					rec.Violate("C10/handlecall-effective-ids-wrong/mode="+mode, fmt.Sprintf("cred %d:%d -> %d:%d want %d:%d", uid, gid, c.LastCtx.EffectiveUID, c.LastCtx.EffectiveGID, wu, wg), nil)
				}
				a := r.Obj.A
				must, may := vfAccessRule(false, a.Mode, a.UID, a.GID, wu, wg, waux, false, 1)
				if r.Access&^may != 0 || must&^r.Access != 0 {
					rec.Violate("C10/aux-gids-as-used-by-ACCESS-wrong/mode="+mode, fmt.Sprintf("mode=%s cred %d:%d aux %v file gid %d: granted %#x want %#x", mode, uid, gid, aux, fgid, r.Access, must), nil)
				}
				rec.Distinct(fmt.Sprintf("handlecall|%s|fgid=%d|uid=%s|granted=%d", mode, fgid, cls(uid), r.Access))
			}
		}
		// AUTH_NONE and other flavors
		for _, fl := range []uint32{0, 2, 3, 6, 390003, 0xffffffff} {
			c.Cred = xdrw.Cred{Flavor: fl, Body: nil}
			rec.Eval(1)
			_, raw, err := c.rawCall(vfProgNFS, 3, 1, xdrw.ArgFH(h))
			if err != nil {
				continue
			}
			rep, derr := rfc.DecodeReply(raw)
			if derr != nil {
				continue
			}
			if fl == 0 {
				if rep.Denied || c.LastCtx.EffectiveUID != 65534 || c.LastCtx.EffectiveGID != 65534 {
					rec.Violate("C10/auth-none-not-nobody", fmt.Sprintf("denied=%v effective %d:%d", rep.Denied, c.LastCtx.EffectiveUID, c.LastCtx.EffectiveGID), nil)
				}
			} else if !rep.Denied {
				rec.Violate(fmt.Sprintf("C10/unsupported-flavor-accepted/flavor=%d", fl), "", nil)
			}
			rec.Distinct(fmt.Sprintf("flavor=%d|denied=%v", fl, rep.Denied))
		}
		// undecodable AUTH_SYS bodies
		good := xdrw.AuthSys(1, "machine", 1000, 1000, []uint32{1, 2, 3}).Body
		var bodies [][]byte
		for cut := 0; cut < len(good); cut++ {
			bodies = append(bodies, good[:cut])
		}
		seventeen := make([]uint32, 17)
		bodies = append(bodies, xdrw.AuthSys(1, "m", 1, 1, seventeen).Body)
		bodies = append(bodies, (&xdrw.W{}).U32(1).U32(9000).Raw(make([]byte, 64)).B) // machine name length 9000
		bodies = append(bodies, (&xdrw.W{}).U32(1).Str("m").U32(1).U32(1).U32(0xffffffff).B)
		for i, b := range bodies {
			if len(b) > 400 {
				continue
			}
			c.Cred = xdrw.Cred{Flavor: 1, Body: b}
			rec.Eval(1)
			_, raw, err := c.rawCall(vfProgNFS, 3, 1, xdrw.ArgFH(h))
			if err != nil {
				continue
			}
			rep, derr := rfc.DecodeReply(raw)
			if derr == nil && !rep.Denied {
				rec.Violate("C10/undecodable-auth-sys-accepted", fmt.Sprintf("body case %d (%d bytes) accepted", i, len(b)), b)
			}
			rec.Distinct(fmt.Sprintf("bad-body|len%%4=%d", len(b)%4))
		}
		srv.Close()
	}
	// (4) one connection, many credentials: every call is mapped from ITS OWN credential
	for _, mode := range []string{"none", "root", "all"} {
		fs := refs.New()
		fs.PlantDir("/d", 0777, 0, 0)
		fs.PlantFile("/g", []byte("x"), 0040, 4000, 0)
		srv, err := vfNewSrv(fs, ExportOptions{Squash: mode, AttrCacheTimeout: 1})
		if err != nil {
			rec.Infra(err.Error())
			return
		}
		c0 := srv.client()
		root, _ := c0.mnt("/")
		l, _ := c0.lookup(root, "d")
		lg, _ := c0.lookup(root, "g")
		if l == nil || l.Status != 0 || lg == nil || lg.Status != 0 {
			rec.Infra("lookup")
			return
		}
		dh, gh := vfFH(l.FH), vfFH(lg.FH)
		node, _ := srv.ph.lookupNode(gh)
		node.mu.Lock()
		node.attrs.Uid, node.attrs.Gid = 4000, 777
		node.mu.Unlock()
		p := srv.pipe("127.0.0.1", 650)
		type cr struct {
			uid, gid uint32
			aux      []uint32
		}
		seq := []cr{{1000, 1000, nil}, {0, 0, nil}, {2000, 2001, []uint32{777}}, {0, 5, []uint32{0}}, {3000, 0, []uint32{9, 0}}, {1000, 1000, []uint32{777, 0}}, {65534, 65534, nil}}
		for i, k := range seq {
			cred := xdrw.AuthSys(uint32(i), "h", k.uid, k.gid, k.aux)
			wu, wg, waux := vfSquash(mode, k.uid, k.gid, k.aux)
			name := fmt.Sprintf("%s-%d", mode, i)
			rec.Eval(2)
			if _, _, err := p.call(vfProgNFS, 3, 9, cred, xdrw.ArgMkdir(dh, name, sattrNone)); err != nil {
				rec.Inconclusive(1)
				break
			}
			if e, ok := fs.Peek("/d/" + name); ok && e.OwnerSet && (e.Uid != int(wu) || e.Gid != int(wg)) {
				rec.Violate("C10/connection/identity-of-another-call-applied/mode="+mode, fmt.Sprintf("call %d on one connection with AUTH_SYS %d:%d created a directory owned %d:%d, want %d:%d", i, k.uid, k.gid, e.Uid, e.Gid, wu, wg), nil)
			}
			_, raw, err := p.call(vfProgNFS, 3, 4, cred, xdrw.ArgAccess(gh, 1))
			if err != nil {
				rec.Inconclusive(1)
				break
			}
			if rep, derr := rfc.DecodeReply(raw); derr == nil && !rep.Denied && rep.AcceptStat == 0 {
				if res, derr := rfc.DecodeNFS(4, rep.Body); derr == nil && res.Status == 0 {
					must, may := vfAccessRule(false, res.Obj.A.Mode, res.Obj.A.UID, res.Obj.A.GID, wu, wg, waux, false, 1)
					if res.Access&^may != 0 || must&^res.Access != 0 {
						rec.Violate("C10/connection/aux-gids-of-another-call-applied/mode="+mode, fmt.Sprintf("call %d on one connection with AUTH_SYS %d:%d aux %v: ACCESS granted %#x, want %#x", i, k.uid, k.gid, k.aux, res.Access, must), nil)
					}
				}
			}
			rec.Distinct(fmt.Sprintf("connection|%s|call=%d", mode, i))
		}
		// an undecodable credential after good ones is still refused
		if _, raw, err := p.call(vfProgNFS, 3, 1, xdrw.Cred{Flavor: 1, Body: []byte{0, 0, 0, 1, 0, 0}}, xdrw.ArgFH(gh)); err == nil {
			if rep, derr := rfc.DecodeReply(raw); derr == nil && !rep.Denied {
				rec.Violate("C10/connection/undecodable-credential-accepted-after-good-ones/mode="+mode, "", nil)
			}
		}
		p.close()
		srv.Close()
	}
	rec.Sample(map[string]any{"modes": modes, "ids": ids, "aux_lists": auxLists[:7]})
}
