//go:build verif

package absnfs

import (
	"errors"
	"fmt"
	"os"
	"sync"
	"sync/atomic"
	"testing"
	"time"

	"verif.local/lib/evid"
	"verif.local/lib/refs"
	"verif.local/lib/rfc"
	"verif.local/lib/xdrw"
)

// C02: namespace operations refine a POSIX tree model; caches are transparent.
func TestVerif_C02(t *testing.T) {
	rec := evid.New("C02")
	rec.Rule = "seeded 60-op histories over names {a,b,c,d}, depth<=3, of LOOKUP/CREATE/MKDIR/SYMLINK/REMOVE/RMDIR/RENAME/READDIR(PLUS)/GETATTR/READLINK/WRITE executed in lockstep on servers differing only in cache configuration (4 quick, 8 thorough), judged against a model tree; plus every namespace mutation with exactly one of its changing backend calls failed (EPERM, EIO) or slowed beyond the operation's timeout: reply and backend tree must tell the same story; distinct = (procedure, target exists, handle unambiguous, status) tuples"
	defer rec.Write()
	cfgs := vfTreeConfigs(evid.Tier() == "thorough")
	eps := evid.Pick(120, 3000)
	hits := map[string]uint64{}
	vfC02Faults(rec)
	for si, sc := range vfScripts {
		tr := vfNewTree(rec, "C02", -1-si, cfgs)
		if tr.dead {
			return
		}
		tr.runScript(sc)
		rec.Add("scripted_scenarios", 1)
		tr.close()
	}
	for ep := 0; ep < eps && rec.Violations() < 25; ep++ {
		tr := vfNewTree(rec, "C02", ep, cfgs)
		if tr.dead {
			return
		}
		for i := 0; i < 60; i++ {
			if !tr.step() {
				break
			}
		}
		for i, s := range tr.srv {
			a, d, n := vfCacheHits(s.nfs)
			hits[cfgs[i].name+" attr-hits"] += a
			hits[cfgs[i].name+" dir-hits"] += d
			hits[cfgs[i].name+" negative-hits"] += n
		}
		if ep == 0 {
			rec.Sample(map[string]any{"configs": tr.cfgNames(), "ops": tr.ops})
		}
		tr.close()
	}
	rec.Set("cache_hits_by_config", hits)
	_ = time.Second
}

// C04: reported attributes are consistent across procedures and with the backend.
func TestVerif_C04(t *testing.T) {
	rec := evid.New("C04")
	rec.Rule = "C02-style histories plus SETATTR with every mode-word class, ACCESS and READ, on files, directories and symlinks; every fattr3 / entry fileid in every reply is attributed to the path it describes and compared with the backend lstat and with earlier reports (attribute ledger); distinct = (procedure, attribute slot, object kind) cells"
	defer rec.Write()
	all := vfTreeConfigs(true)
	eps := evid.Pick(200, 5000)
	for ep := 0; ep < eps && rec.Violations() < 40; ep++ {
		tr := vfNewTree(rec, "C04", ep, []vfTreeCfg{all[ep%len(all)]})
		if tr.dead {
			return
		}
		for i := 0; i < 60; i++ {
			if !tr.step() {
				break
			}
		}
		tr.flushAll()
		if ep == 0 {
			rec.Sample(map[string]any{"config": tr.cfgNames(), "ops": tr.ops})
		}
		tr.close()
	}
	// the scripted scenarios of the tree engine (known cache windows), judged by the ledger
	for si, sc := range vfScripts {
		for _, cfg := range []vfTreeCfg{all[0], all[len(all)-1]} {
			tr := vfNewTree(rec, "C04", -1-si, []vfTreeCfg{cfg})
			if tr.dead {
				return
			}
			tr.runScript(sc)
			tr.flushAll()
			rec.Add("scripted_scenarios", 1)
			tr.close()
		}
	}
	// MNT with spellings of one path: every handle for the directory must report the same
	// fileid and type as LOOKUP from the root does
	for _, cfg := range []vfTreeCfg{all[0], all[len(all)-1]} {
		fs := refs.New()
		fs.PlantDir("/d", 0755, 0, 0)
		fs.PlantDir("/d/e", 0755, 0, 0)
		srv, err := vfNewSrv(fs, cfg.opts)
		if err != nil {
			rec.Infra(err.Error())
			return
		}
		c := srv.client()
		root, _ := c.mnt("/")
		l, _ := c.lookup(root, "d")
		if l == nil || l.Status != 0 || !l.Obj.Present {
			rec.Infra("lookup d")
			return
		}
		want := l.Obj.A
		for _, sp := range []string{"/d", "/d/", "//d", "/d/.", "/./d", "/d/e/..", "/d//", "/../d"} {
			rec.Eval(1)
			_, m, err := c.mount(1, (&xdrw.W{}).Str(sp).B)
			if err != nil || m == nil || m.Status != 0 {
				rec.Distinct("MNT-spelling|" + sp + "|refused")
				continue
			}
			g, err := c.getattr(vfFH(m.FH))
			if err != nil || g == nil || g.Status != 0 {
				rec.Violate("C04/mnt-handle-unusable", fmt.Sprintf("MNT %q returned a handle whose GETATTR fails", sp), nil)
				continue
			}
			if g.Attr.Fileid != want.Fileid || g.Attr.Type != want.Type {
				rec.Violate("C04/fileid-inconsistent/MNT-non-canonical-path", fmt.Sprintf("the handle from MNT %q reports fileid %d type %d for /d; LOOKUP(/, d) reports fileid %d type %d", sp, g.Attr.Fileid, g.Attr.Type, want.Fileid, want.Type), nil)
			}
			rec.Distinct("MNT-spelling|" + sp + "|ok")
		}
		srv.Close()
	}
	rec.MinDistinct = 30
}

// vfC02Faults: "a failed request leaves the tree unchanged" when the failure comes from the backend.
// For every namespace mutation the sequence of backend calls it makes is recorded on a fresh tree;
// then, on fresh trees again, exactly one of those calls is made to fail (before it touches anything).
// Whatever the server answers, the answer and the backend must tell the same story: a failure reply
// with the tree as it was, or a success reply with the object in place; and afterwards LOOKUP and
// READDIR through the server (caches on) must agree with the backend. Only calls that change
// something are failed (the creation itself, and the calls that give the new object its mode and
// owner): a failing lstat after a completed mutation leaves the server nothing to undo.
func vfC02Faults(rec *evid.Rec) {
	type opDef struct {
		name string
		prep func(fs *refs.FS)
		do   func(c *vfClient, dh uint64) *rfc.Res
		obj  string // the path the request is about
		kind string // what it is when the request succeeded ("" = gone)
	}
	mode := uint32(0640)
	uid, gid := uint32(1000), uint32(1000)
	ops := []opDef{
		{"CREATE-unchecked", nil, func(c *vfClient, dh uint64) *rfc.Res {
			r, _ := c.create(dh, "n", 0, xdrw.Sattr3{Mode: &mode}, [8]byte{})
			return r
		}, "/d/n", "file"},
		{"CREATE-guarded", nil, func(c *vfClient, dh uint64) *rfc.Res {
			r, _ := c.create(dh, "n", 1, xdrw.Sattr3{Mode: &mode}, [8]byte{})
			return r
		}, "/d/n", "file"},
		{"CREATE-exclusive", nil, func(c *vfClient, dh uint64) *rfc.Res {
			r, _ := c.create(dh, "n", 2, xdrw.Sattr3{}, [8]byte{1, 2, 3, 4, 5, 6, 7, 8})
			return r
		}, "/d/n", "file"},
		{"MKDIR", nil, func(c *vfClient, dh uint64) *rfc.Res {
			r, _ := c.mkdir(dh, "n", xdrw.Sattr3{Mode: &mode})
			return r
		}, "/d/n", "dir"},
		{"SYMLINK", nil, func(c *vfClient, dh uint64) *rfc.Res {
			r, _ := c.symlink(dh, "n", "target", xdrw.Sattr3{UID: &uid, GID: &gid})
			return r
		}, "/d/n", "symlink"},
		{"REMOVE", func(fs *refs.FS) { fs.PlantFile("/d/n", []byte("x"), 0666, 0, 0) }, func(c *vfClient, dh uint64) *rfc.Res {
			r, _ := c.remove(dh, "n")
			return r
		}, "/d/n", ""},
		{"RMDIR", func(fs *refs.FS) { fs.PlantDir("/d/n", 0777, 0, 0) }, func(c *vfClient, dh uint64) *rfc.Res {
			r, _ := c.rmdir(dh, "n")
			return r
		}, "/d/n", ""},
		{"RENAME", func(fs *refs.FS) { fs.PlantFile("/d/m", []byte("x"), 0666, 0, 0) }, func(c *vfClient, dh uint64) *rfc.Res {
			r, _ := c.rename(dh, "m", dh, "n")
			return r
		}, "/d/n", "file"},
	}
	outcomes := map[string]int{}
	defer func() { rec.Set("backend_fault_outcomes", outcomes) }()
	changing := func(op *refs.Op) bool {
		switch op.Name {
		case "Chmod", "Chown", "Lchown", "Chtimes", "File.Close", "File.Sync":
			return true
		}
		return op.Mutating
	}
	for _, od := range ops {
		for _, cached := range []bool{false, true} {
			// set-up shared by the discovery run and the faulted runs
			setup := func() (*refs.FS, *vfSrv, *vfClient, uint64, bool) {
				fs := refs.New()
				fs.PlantDir("/d", 0777, 0, 0)
				if od.prep != nil {
					od.prep(fs)
				}
				o := ExportOptions{AttrCacheTimeout: 1}
				if cached {
					o = ExportOptions{AttrCacheTimeout: time.Hour, EnableDirCache: true, CacheNegativeLookups: true}
				}
				// short per-operation timeouts (the request as a whole keeps the default 30 s): a backend
				// call that is merely slow outlives them
				st := 40 * time.Millisecond
				o.Timeouts = &TimeoutConfig{ReadTimeout: st, WriteTimeout: st, LookupTimeout: st, ReaddirTimeout: st, CreateTimeout: st, RemoveTimeout: st, RenameTimeout: st, HandleTimeout: st, DefaultTimeout: 30 * time.Second}
				srv, err := vfNewSrv(fs, o)
				if err != nil {
					rec.Infra(err.Error())
					return nil, nil, nil, 0, false
				}
				c := srv.client()
				c.Cred = xdrw.AuthSys(1, "h", 1000, 1000, nil)
				root, _ := c.mnt("/")
				dl, _ := c.lookup(root, "d")
				if dl == nil || dl.Status != 0 {
					rec.Infra("lookup /d")
					srv.Close()
					return nil, nil, nil, 0, false
				}
				dh := vfFH(dl.FH)
				// what a client has typically done before: listed the directory and asked for the name
				c.readdirplus(dh, 0, 4096, 8192)
				c.lookup(dh, "n")
				return fs, srv, c, dh, true
			}
			fs, srv, c, dh, ok := setup()
			if !ok {
				return
			}
			var calls []string
			var mu sync.Mutex
			fs.SetHook(func(op *refs.Op, ph refs.Phase) error {
				if ph == refs.Before && changing(op) {
					mu.Lock()
					calls = append(calls, op.Name)
					mu.Unlock()
				}
				return nil
			})
			r0 := od.do(c, dh)
			fs.SetHook(nil)
			srv.Close()
			if r0 == nil || r0.Status != 0 {
				rec.Infra(fmt.Sprintf("%s does not succeed without a fault: %v", od.name, vfSt(r0)))
				return
			}
			for k, callName := range calls {
				for _, ferr := range []error{os.ErrPermission, errors.New("input/output error"), vfC02Slow} {
					fs, srv, c, dh, ok := setup()
					if !ok {
						return
					}
					before := fs.Snapshot()
					var n atomic.Int32
					fs.SetHook(func(op *refs.Op, ph refs.Phase) error {
						if ph == refs.Before && changing(op) {
							if int(n.Add(1))-1 == k {
								if ferr == vfC02Slow {
									// not a failure: the call takes four times the operation's timeout and then
									// does its work
									time.Sleep(160 * time.Millisecond)
									return nil
								}
								return ferr
							}
						}
						return nil
					})
					r := od.do(c, dh)
					fs.SetHook(nil)
					rec.Eval(1)
					after := fs.Snapshot()
					desc := map[string]any{"request": od.name, "failed_call": fmt.Sprintf("#%d %s", k, callName), "error": ferr.Error(), "caches": cached, "backend_calls": calls}
					outcome := "no-reply"
					if r != nil {
						_, exists := after[od.obj]
						kindNow := ""
						if exists {
							kindNow = vfC02KindName(after[od.obj].Kind)
						}
						if r.Status != 0 {
							outcome = "refused"
							if eq, diff := refs.SnapEqual(before, after); !eq {
								outcome = "refused-but-changed"
								rec.Violate("C02/failed-request-changed-the-tree/proc="+od.name+"/failing-backend-call="+callName, fmt.Sprintf("%s answered status %d while backend call #%d (%s) met %q, yet the tree changed: %s", od.name, r.Status, k, callName, ferr, diff), desc)
							}
						} else {
							outcome = "ok"
							if kindNow != od.kind {
								outcome = "ok-but-not-done"
								rec.Violate("C02/ok-reply-without-the-effect/proc="+od.name+"/failing-backend-call="+callName, fmt.Sprintf("%s answered OK although backend call #%d (%s) failed with %q; %s is %q in the backend, a completed request leaves %q", od.name, k, callName, ferr, od.obj, kindNow, od.kind), desc)
							}
						}
						// the caches must tell the same story as the backend
						_, existsNow := after["/d/n"]
						if l, _ := c.lookup(dh, "n"); l != nil && (l.Status == 0) != existsNow {
							rec.Violate("C02/cache-hides-the-outcome-of-a-request-that-met-a-backend-failure/proc="+od.name+"/LOOKUP", fmt.Sprintf("after %s (backend call #%d %s failed, reply status %d): /d/n exists in the backend: %v, LOOKUP answers status %d", od.name, k, callName, r.Status, existsNow, l.Status), desc)
						}
						if rd, _ := c.readdir(dh, 0, 8192); rd != nil && rd.Status == 0 {
							listed := false
							for _, e := range rd.Entries {
								if e.Name == "n" {
									listed = true
								}
							}
							if listed != existsNow {
								rec.Violate("C02/cache-hides-the-outcome-of-a-request-that-met-a-backend-failure/proc="+od.name+"/READDIR", fmt.Sprintf("after %s (backend call #%d %s failed, reply status %d): /d/n exists in the backend: %v, READDIR lists it: %v", od.name, k, callName, r.Status, existsNow, listed), desc)
							}
						}
					}
					rec.Distinct(fmt.Sprintf("fault|%s|caches=%v|call=%s|%s|%s", od.name, cached, callName, ferr, outcome))
					outcomes[fmt.Sprintf("%s: call #%d %s meets %q -> %s", od.name, k, callName, ferr.Error(), outcome)]++
					srv.Close()
				}
			}
		}
	}
}

var vfC02Slow = errors.New("slow (4x the operation timeout, then succeeds)")

func vfC02KindName(k refs.Kind) string {
	switch k {
	case refs.KDir:
		return "dir"
	case refs.KLink:
		return "symlink"
	}
	return "file"
}
