//go:build verif

package absnfs

import (
	"fmt"
	"testing"
	"time"

	"verif.local/lib/evid"
	"verif.local/lib/refs"
	"verif.local/lib/xdrw"
)

// C02: namespace operations refine a POSIX tree model; caches are transparent.
func TestVerif_C02(t *testing.T) {
	rec := evid.New("C02")
	rec.Rule = "seeded 60-op histories over names {a,b,c,d}, depth<=3, of LOOKUP/CREATE/MKDIR/SYMLINK/REMOVE/RMDIR/RENAME/READDIR(PLUS)/GETATTR/READLINK/WRITE executed in lockstep on servers differing only in cache configuration (4 quick, 8 thorough), judged against a model tree; distinct = (procedure, target exists, handle unambiguous, status) tuples"
	defer rec.Write()
	cfgs := vfTreeConfigs(evid.Tier() == "thorough")
	eps := evid.Pick(120, 3000)
	hits := map[string]uint64{}
	for si, sc := range vfScripts {
		tr := vfNewTree(rec, "C02", -1-si, cfgs)
		if tr.dead {
			return
		}
		tr.runScript(sc)
		rec.Add("scripted_scenarios", 1)
		tr.close()
	}
	for ep := 0; ep < eps && rec.Violations() < 25; ep++ {
		tr := vfNewTree(rec, "C02", ep, cfgs)
		if tr.dead {
			return
		}
		for i := 0; i < 60; i++ {
			if !tr.step() {
				break
			}
		}
		for i, s := range tr.srv {
			a, d, n := vfCacheHits(s.nfs)
			hits[cfgs[i].name+" attr-hits"] += a
			hits[cfgs[i].name+" dir-hits"] += d
			hits[cfgs[i].name+" negative-hits"] += n
		}
		if ep == 0 {
			rec.Sample(map[string]any{"configs": tr.cfgNames(), "ops": tr.ops})
		}
		tr.close()
	}
	rec.Set("cache_hits_by_config", hits)
	_ = time.Second
}

// C04: reported attributes are consistent across procedures and with the backend.
func TestVerif_C04(t *testing.T) {
	rec := evid.New("C04")
	rec.Rule = "C02-style histories plus SETATTR with every mode-word class, ACCESS and READ, on files, directories and symlinks; every fattr3 / entry fileid in every reply is attributed to the path it describes and compared with the backend lstat and with earlier reports (attribute ledger); distinct = (procedure, attribute slot, object kind) cells"
	defer rec.Write()
	all := vfTreeConfigs(true)
	eps := evid.Pick(200, 5000)
	for ep := 0; ep < eps && rec.Violations() < 40; ep++ {
		tr := vfNewTree(rec, "C04", ep, []vfTreeCfg{all[ep%len(all)]})
		if tr.dead {
			return
		}
		for i := 0; i < 60; i++ {
			if !tr.step() {
				break
			}
		}
		tr.flushAll()
		if ep == 0 {
			rec.Sample(map[string]any{"config": tr.cfgNames(), "ops": tr.ops})
		}
		tr.close()
	}
	// the scripted scenarios of the tree engine (known cache windows), judged by the ledger
	for si, sc := range vfScripts {
		for _, cfg := range []vfTreeCfg{all[0], all[len(all)-1]} {
			tr := vfNewTree(rec, "C04", -1-si, []vfTreeCfg{cfg})
			if tr.dead {
				return
			}
			tr.runScript(sc)
			tr.flushAll()
			rec.Add("scripted_scenarios", 1)
			tr.close()
		}
	}
	// MNT with spellings of one path: every handle for the directory must report the same
	// fileid and type as LOOKUP from the root does
	for _, cfg := range []vfTreeCfg{all[0], all[len(all)-1]} {
		fs := refs.New()
		fs.PlantDir("/d", 0755, 0, 0)
		fs.PlantDir("/d/e", 0755, 0, 0)
		srv, err := vfNewSrv(fs, cfg.opts)
		if err != nil {
			rec.Infra(err.Error())
			return
		}
		c := srv.client()
		root, _ := c.mnt("/")
		l, _ := c.lookup(root, "d")
		if l == nil || l.Status != 0 || !l.Obj.Present {
			rec.Infra("lookup d")
			return
		}
		want := l.Obj.A
		for _, sp := range []string{"/d", "/d/", "//d", "/d/.", "/./d", "/d/e/..", "/d//", "/../d"} {
			rec.Eval(1)
			_, m, err := c.mount(1, (&xdrw.W{}).Str(sp).B)
			if err != nil || m == nil || m.Status != 0 {
				rec.Distinct("MNT-spelling|" + sp + "|refused")
				continue
			}
			g, err := c.getattr(vfFH(m.FH))
			if err != nil || g == nil || g.Status != 0 {
				rec.Violate("C04/mnt-handle-unusable", fmt.Sprintf("MNT %q returned a handle whose GETATTR fails", sp), nil)
				continue
			}
			if g.Attr.Fileid != want.Fileid || g.Attr.Type != want.Type {
				rec.Violate("C04/fileid-inconsistent/MNT-non-canonical-path", fmt.Sprintf("the handle from MNT %q reports fileid %d type %d for /d; LOOKUP(/, d) reports fileid %d type %d", sp, g.Attr.Fileid, g.Attr.Type, want.Fileid, want.Type), nil)
			}
			rec.Distinct("MNT-spelling|" + sp + "|ok")
		}
		srv.Close()
	}
	rec.MinDistinct = 30
}
