//go:build verif

package absnfs

import (
	"bytes"
	"fmt"
	"path"
	"os"
	"runtime"
	"sort"
	"strings"
	"sync"
	"sync/atomic"
	"testing"
	"time"

	"github.com/anishathalye/porcupine"
	"verif.local/lib/evid"
	"verif.local/lib/refs"
	"verif.local/lib/rfc"
	"verif.local/lib/xdrw"
)

// C29: concurrent requests are race-free and linearizable.
// Every client owns a few paths (only it mutates them) inside shared
// directories; everybody reads everything. The client-boundary history
// (call/return ticks from one atomic counter) is checked per owner by
// porcupine against a sequential path model (strict mode), or against the
// "never a state the object was never in" window rule (cached modes);
// listings are judged by an interval rule; a quiescent audit compares handle
// table and caches with the backend; the race detector watches all of it.

type vfObj struct {
	Kind   string // "", file, dir, symlink
	Data   string
	Target string
}

type vfC29In struct {
	Op    string // create write setsize rename remove mkdir rmdir symlink | lookup getattr read readlink
	Path  string
	Path2 string
	Off   int
	Data  string
	Size  int
	Owner int
}

type vfC29Out struct {
	OK     bool
	Kind   string
	Size   int
	Data   string
	Target string
	EOF    bool // READ: the reply says the data ends the file
}

// vfC29ReadMatches: does a READ reply (64 bytes asked from offset 0) describe the state whose bytes
// are want? A reply that says eof carries the whole file; one that does not may be a short read -
// RFC 1813 lets READ return fewer bytes than asked - so its data is a proper prefix of the file.
func vfC29ReadMatches(want string, got vfC29Out) bool {
	if got.Data == want {
		return true
	}
	return !got.EOF && len(got.Data) < len(want) && want[:len(got.Data)] == got.Data
}

type vfC29State map[string]vfObj

func (s vfC29State) clone() vfC29State {
	n := vfC29State{}
	for k, v := range s {
		n[k] = v
	}
	return n
}

func (s vfC29State) key() string {
	ks := make([]string, 0, len(s))
	for k := range s {
		ks = append(ks, k)
	}
	sort.Strings(ks)
	var b strings.Builder
	for _, k := range ks {
		o := s[k]
		fmt.Fprintf(&b, "%s=%s:%q:%s;", k, o.Kind, o.Data, o.Target)
	}
	return b.String()
}

// vfC29Apply is the sequential path model: expected output and next state.
func vfC29Apply(st vfC29State, in vfC29In) (vfC29Out, vfC29State) {
	o := st[in.Path]
	switch in.Op {
	case "create": // GUARDED
		if o.Kind != "" {
			return vfC29Out{}, st
		}
		n := st.clone()
		n[in.Path] = vfObj{Kind: "file"}
		return vfC29Out{OK: true, Kind: "file"}, n
	case "mkdir":
		if o.Kind != "" {
			return vfC29Out{}, st
		}
		n := st.clone()
		n[in.Path] = vfObj{Kind: "dir"}
		return vfC29Out{OK: true, Kind: "dir"}, n
	case "symlink":
		if o.Kind != "" {
			return vfC29Out{}, st
		}
		n := st.clone()
		n[in.Path] = vfObj{Kind: "symlink", Target: in.Data}
		return vfC29Out{OK: true, Kind: "symlink"}, n
	case "write":
		if o.Kind != "file" {
			return vfC29Out{}, st
		}
		d := []byte(o.Data)
		if in.Off+len(in.Data) > len(d) {
			d = append(d, make([]byte, in.Off+len(in.Data)-len(d))...)
		}
		copy(d[in.Off:], in.Data)
		n := st.clone()
		n[in.Path] = vfObj{Kind: "file", Data: string(d)}
		return vfC29Out{OK: true, Size: len(d)}, n
	case "setsize":
		if o.Kind != "file" {
			return vfC29Out{}, st
		}
		d := make([]byte, in.Size)
		copy(d, o.Data)
		n := st.clone()
		n[in.Path] = vfObj{Kind: "file", Data: string(d)}
		return vfC29Out{OK: true, Size: in.Size}, n
	case "remove":
		if o.Kind == "" {
			return vfC29Out{}, st
		}
		n := st.clone()
		delete(n, in.Path)
		return vfC29Out{OK: true}, n
	case "rmdir":
		if o.Kind != "dir" {
			return vfC29Out{}, st
		}
		n := st.clone()
		delete(n, in.Path)
		return vfC29Out{OK: true}, n
	case "rename":
		t := st[in.Path2]
		if o.Kind == "" {
			return vfC29Out{}, st
		}
		if in.Path == in.Path2 {
			return vfC29Out{OK: true}, st
		}
		if t.Kind != "" && (o.Kind == "dir") != (t.Kind == "dir") {
			return vfC29Out{}, st
		}
		n := st.clone()
		delete(n, in.Path)
		n[in.Path2] = o
		return vfC29Out{OK: true}, n
	case "lookup", "getattr":
		if o.Kind == "" {
			return vfC29Out{}, st
		}
		out := vfC29Out{OK: true, Kind: o.Kind}
		if o.Kind == "file" {
			out.Size = len(o.Data)
		}
		return out, st
	case "read":
		if o.Kind != "file" {
			return vfC29Out{}, st
		}
		d := o.Data
		if len(d) > 64 {
			d = d[:64]
		}
		return vfC29Out{OK: true, Data: d}, st
	case "readlink":
		if o.Kind != "symlink" {
			return vfC29Out{}, st
		}
		return vfC29Out{OK: true, Target: o.Target}, st
	}
	return vfC29Out{}, st
}

func vfC29Mutating(op string) bool {
	switch op {
	case "lookup", "getattr", "read", "readlink", "readdir", "readdirplus":
		return false
	}
	return true
}

type vfC29Rec struct {
	client    int
	call, ret int64
	in        vfC29In
	out       vfC29Out
	listing   []string // for readdir ops
	listDir   string
}

func TestVerif_C29(t *testing.T) {
	rec := evid.New("C29")
	rec.Rule = "3-6 client goroutines x 6-14 ops over 2 shared directories; every client mutates only the 4 paths it owns (create/write/setattr size/rename/remove/mkdir/rmdir/symlink) and everybody reads every path (LOOKUP/GETATTR/READ/READLINK/READDIR/READDIRPLUS) through shared handles; seeded yields and microsecond delays at backend-call boundaries; modes strict(TTL 1ns) / cached(5s) / cached+dir+negative; transports HandleCall and the real loop with the worker pool; per-owner histories checked by porcupine (strict) or by the state-window rule (cached); distinct = interleaving signatures (order of call/return events by kind)"
	rec.Assumptions = []string{"the backend (refs) is thread-safe: one mutex around every call", "a handle names a path (the server re-opens by path on every request)"}
	defer rec.Write()
	vfC29Fills(rec)
	vfC29ReadStorm(rec)
	vfC29ReadVsShrink(rec)
	vfC29ReplacedUnderHandle(rec)
	vfC29ReaderInsideMutation(rec)
	vfC29SamePathLookups(rec)
	eps := evid.Pick(90, 12000)
	for ep := 0; ep < eps && rec.Violations() < 20 && !vfC29Hung; ep++ {
		vfC29Episode(rec, ep)
	}
}

// vfC29Hung is set when client goroutines never came back (deadlock): later episodes
// would only hang as well.
var vfC29Hung bool

func vfC29Episode(rec *evid.Rec, ep int) {
	rng := evid.Rng(29, int64(ep))
	mode := []string{"strict", "cached", "cached+dir+neg"}[ep%3]
	usePipe := ep%4 == 3
	opts := ExportOptions{AttrCacheTimeout: 1, MaxWorkers: 4}
	switch mode {
	case "cached":
		opts.AttrCacheTimeout = 5 * time.Second
	case "cached+dir+neg":
		opts.AttrCacheTimeout, opts.EnableDirCache, opts.CacheNegativeLookups = 5*time.Second, true, true
	}
	fs := refs.New()
	dirs := []string{"/d0", "/d1"}
	for _, d := range dirs {
		fs.PlantDir(d, 0777, 0, 0)
	}
	srv, err := vfNewSrv(fs, opts)
	if err != nil {
		rec.Infra(err.Error())
		return
	}
	defer srv.Close()
	c0 := srv.client()
	root, err := c0.mnt("/")
	if err != nil {
		rec.Infra(err.Error())
		return
	}
	dirH := map[string]uint64{}
	for _, d := range dirs {
		l, _ := c0.lookup(root, d[1:])
		if l == nil || l.Status != 0 {
			rec.Infra("lookup dir")
			return
		}
		dirH[d] = vfFH(l.FH)
	}
	var ycount atomic.Int64
	yseed := rng.Int63()
	fs.SetHook(func(op *refs.Op, ph refs.Phase) error {
		n := ycount.Add(1)
		switch (uint64(n)*2654435761 + uint64(yseed)) % 7 {
		case 0, 1:
			runtime.Gosched()
		case 2:
			time.Sleep(time.Duration(1+n%40) * time.Microsecond)
		}
		return nil
	})
	nclients := 3 + rng.Intn(4)
	owned := func(k int) []string {
		return []string{fmt.Sprintf("/d0/c%dx", k), fmt.Sprintf("/d0/c%dy", k), fmt.Sprintf("/d1/c%dx", k), fmt.Sprintf("/d1/c%dy", k)}
	}
	var tick atomic.Int64
	var mu sync.Mutex
	var hist []vfC29Rec
	finals := make([]vfC29State, nclients)
	var mismatch []string
	var wg sync.WaitGroup
	var stalled atomic.Int64 // requests that ran into a wall-clock deadline
	evid.Journal(fmt.Sprintf("C29 episode %d mode=%s pipe=%v clients=%d", ep, mode, usePipe, nclients))
	for k := 0; k < nclients; k++ {
		wg.Add(1)
		seed := rng.Int63()
		go func(k int) {
			defer wg.Done()
			r := evid.Rng(seed, int64(k))
			cl := srv.client()
			var pp *vfPipe
			if usePipe {
				pp = srv.pipe("127.0.0.1", 600+k)
				defer pp.close()
			}
			// do performs one NFS call over the chosen transport
			stalledHere := false
			do := func(proc uint32, args []byte) *rfc.Res {
				if pp == nil {
					_, res, err := cl.nfs(proc, args)
					if err != nil {
						if strings.Contains(err.Error(), evid.WallClockMarker) {
							stalled.Add(1)
							stalledHere = true
						}
						return nil
					}
					return res
				}
				_, raw, err := pp.call(vfProgNFS, 3, proc, vfRootCred(), args)
				if err != nil {
					stalled.Add(1) // the pipe client gives up after 30 s, or the connection was closed
					stalledHere = true
					return nil
				}
				rep, err := rfc.DecodeReply(raw)
				if err != nil || rep.Denied || rep.AcceptStat != 0 {
					return nil
				}
				res, err := rfc.DecodeNFS(proc, rep.Body)
				if err != nil {
					return nil
				}
				return res
			}
			local := vfC29State{} // this client's sequential model of its own paths
			handles := map[string]uint64{}
			kindOf := func(t uint32) string { return map[uint32]string{1: "file", 2: "dir", 5: "symlink"}[t] }
			nops := 6 + r.Intn(9)
			for i := 0; i < nops; i++ {
				var in vfC29In
				mine := owned(k)
				if r.Intn(100) < 7 { // change the mode of a shared directory through its shared handle
					d := dirs[r.Intn(len(dirs))]
					m := []uint32{0777, 0755, 0775}[r.Intn(3)]
					if res := do(2, xdrw.ArgSetattr(dirH[d], xdrw.Sattr3{Mode: &m}, false, 0, 0)); res == nil {
						mu.Lock()
						mismatch = append(mismatch, fmt.Sprintf("client %d: SETATTR mode on shared directory %s got no decodable reply", k, d))
						mu.Unlock()
						return
					}
					continue
				}
				if r.Intn(100) < 6 && len(handles) > 0 {
					// a request through the wrong kind of handle (a file or link where a directory is
					// expected and the other way round): refused, changes nothing - and must leave
					// nothing behind either (a lock kept on the refusal path would stop a later request)
					var hs []uint64
					for _, h := range handles {
						hs = append(hs, h)
					}
					sort.Slice(hs, func(a, b int) bool { return hs[a] < hs[b] })
					h := hs[r.Intn(len(hs))]
					var res *rfc.Res
					switch r.Intn(7) {
					case 0:
						res = do(12, xdrw.ArgDirop(h, "zz")) // REMOVE
					case 1:
						res = do(13, xdrw.ArgDirop(h, "zz")) // RMDIR
					case 2:
						res = do(3, xdrw.ArgDirop(h, "zz")) // LOOKUP
					case 3:
						res = do(16, xdrw.ArgReaddir(h, 0, [8]byte{}, 4096))
					case 4:
						res = do(14, xdrw.ArgRename(h, "zz", h, "yy"))
					case 5:
						res = do(5, xdrw.ArgFH(h)) // READLINK
					default:
						res = do(6, xdrw.ArgRead(dirH[dirs[r.Intn(len(dirs))]], 0, 16)) // READ of a directory
					}
					if res == nil && !stalledHere {
						mu.Lock()
						mismatch = append(mismatch, fmt.Sprintf("client %d: a request through the wrong kind of handle got no decodable reply", k))
						mu.Unlock()
						return
					}
					if res == nil {
						return
					}
					continue
				}
				if r.Intn(100) < 55 { // mutate one of my paths
					p := mine[r.Intn(4)]
					in = vfC29In{Path: p, Owner: k}
					cur := local[p].Kind
					switch {
					case cur == "":
						in.Op = []string{"create", "create", "mkdir", "symlink", "remove"}[r.Intn(5)]
						in.Data = "nowhere"
					case cur == "file":
						in.Op = []string{"write", "write", "setsize", "rename", "remove", "write"}[r.Intn(6)]
						in.Data = fmt.Sprintf("<%d.%d>", k, i)
						in.Off = r.Intn(len(local[p].Data) + 1)
						in.Size = r.Intn(len(local[p].Data) + 6)
						in.Path2 = mine[r.Intn(4)]
					case cur == "dir":
						in.Op = []string{"rmdir", "rename", "mkdir"}[r.Intn(3)]
						in.Path2 = mine[r.Intn(4)]
					default:
						in.Op = []string{"remove", "rename", "symlink"}[r.Intn(3)]
						in.Data = "nowhere"
						in.Path2 = mine[r.Intn(4)]
					}
				} else { // read anybody's path
					o := r.Intn(nclients)
					p := owned(o)[r.Intn(4)]
					in = vfC29In{Path: p, Owner: o, Op: []string{"lookup", "lookup", "getattr", "read", "readlink", "readdir", "readdirplus"}[r.Intn(7)]}
					if _, ok := handles[p]; !ok && (in.Op == "getattr" || in.Op == "read" || in.Op == "readlink") {
						in.Op = "lookup"
					}
				}
				dir, name := path.Dir(in.Path), path.Base(in.Path)
				var out vfC29Out
				var listing []string
				listDir := ""
				call := tick.Add(1)
				var res *rfc.Res
				switch in.Op {
				case "create":
					res = do(8, xdrw.ArgCreate(dirH[dir], name, 1, sattrNone, [8]byte{}))
					if res != nil && res.Status == 0 && res.FHPresent {
						handles[in.Path] = vfFH(res.FH)
						out.Kind = kindOf(res.Obj.A.Type)
					}
				case "mkdir":
					res = do(9, xdrw.ArgMkdir(dirH[dir], name, sattrNone))
					if res != nil && res.Status == 0 {
						out.Kind = kindOf(res.Obj.A.Type)
					}
				case "symlink":
					res = do(10, xdrw.ArgSymlink(dirH[dir], name, sattrNone, in.Data))
					if res != nil && res.Status == 0 {
						out.Kind = kindOf(res.Obj.A.Type)
					}
				case "write":
					h, ok := handles[in.Path]
					if !ok {
						l := do(3, xdrw.ArgDirop(dirH[dir], name))
						if l != nil && l.Status == 0 {
							h = vfFH(l.FH)
							handles[in.Path] = h
						}
					}
					res = do(7, xdrw.ArgWrite(h, uint64(in.Off), uint32(len(in.Data)), 2, []byte(in.Data)))
					if res != nil && res.Status == 0 && res.Wcc.Post.Present {
						out.Size = int(res.Wcc.Post.A.Size)
					}
				case "setsize":
					h, ok := handles[in.Path]
					if !ok {
						l := do(3, xdrw.ArgDirop(dirH[dir], name))
						if l != nil && l.Status == 0 {
							h = vfFH(l.FH)
							handles[in.Path] = h
						}
					}
					res = do(2, xdrw.ArgSetattr(h, xdrw.Sattr3{Size: xdrw.U64p(uint64(in.Size))}, false, 0, 0))
					if res != nil && res.Status == 0 && res.Wcc.Post.Present {
						out.Size = int(res.Wcc.Post.A.Size)
					}
				case "remove":
					res = do(12, xdrw.ArgDirop(dirH[dir], name))
				case "rmdir":
					res = do(13, xdrw.ArgDirop(dirH[dir], name))
				case "rename":
					res = do(14, xdrw.ArgRename(dirH[dir], name, dirH[path.Dir(in.Path2)], path.Base(in.Path2)))
					if res != nil && res.Status == 0 {
						delete(handles, in.Path)
						delete(handles, in.Path2)
					}
				case "lookup":
					res = do(3, xdrw.ArgDirop(dirH[dir], name))
					if res != nil && res.Status == 0 {
						handles[in.Path] = vfFH(res.FH)
						out.Kind = kindOf(res.Obj.A.Type)
						if out.Kind == "file" {
							out.Size = int(res.Obj.A.Size)
						}
					}
				case "getattr":
					res = do(1, xdrw.ArgFH(handles[in.Path]))
					if res != nil && res.Status == 0 {
						out.Kind = kindOf(res.Attr.Type)
						if out.Kind == "file" {
							out.Size = int(res.Attr.Size)
						}
					}
				case "read":
					res = do(6, xdrw.ArgRead(handles[in.Path], 0, 64))
					if res != nil && res.Status == 0 {
						out.Data = string(res.Data)
						out.EOF = res.EOF
					}
				case "readlink":
					res = do(5, xdrw.ArgFH(handles[in.Path]))
					if res != nil && res.Status == 0 {
						out.Target = res.Link
					}
				case "readdir", "readdirplus":
					listDir = dir
					if in.Op == "readdir" {
						res = do(16, xdrw.ArgReaddir(dirH[dir], 0, [8]byte{}, 65536))
					} else {
						res = do(17, xdrw.ArgReaddirplus(dirH[dir], 0, [8]byte{}, 32768, 65536))
					}
					if res != nil && res.Status == 0 {
						for _, e := range res.Entries {
							listing = append(listing, e.Name)
						}
					}
				}
				ret := tick.Add(1)
				if res == nil && stalledHere {
					return // judged structurally after the episode (vfC29JudgeStall)
				}
				if res == nil {
					mu.Lock()
					mismatch = append(mismatch, fmt.Sprintf("client %d: %s %s got no decodable reply", k, in.Op, in.Path))
					mu.Unlock()
					return
				}
				out.OK = res.Status == 0
				if vfC29Mutating(in.Op) {
					// the owner's own sequential expectation
					want, next := vfC29Apply(local, in)
					if want.OK != out.OK || out.OK && (want.Kind != "" && want.Kind != out.Kind || (in.Op == "write" || in.Op == "setsize") && want.Size != out.Size) {
						mu.Lock()
						mismatch = append(mismatch, fmt.Sprintf("client %d: %s %s%s answered ok=%v kind=%q size=%d (status %d), its own sequential model expects ok=%v kind=%q size=%d", k, in.Op, in.Path, map[bool]string{true: " -> " + in.Path2, false: ""}[in.Path2 != ""], out.OK, out.Kind, out.Size, res.Status, want.OK, want.Kind, want.Size))
						mu.Unlock()
					}
					if out.OK == want.OK {
						local = next
					} else if out.OK { // follow the observed branch as far as the model can
						local = next
					}
				}
				mu.Lock()
				hist = append(hist, vfC29Rec{client: k, call: call, ret: ret, in: in, out: out, listing: listing, listDir: listDir})
				mu.Unlock()
			}
			finals[k] = local
		}(k)
	}
	done := make(chan struct{})
	go func() { wg.Wait(); close(done) }()
	select {
	case <-done:
	case <-time.After(60 * time.Second):
		// The 60 s only decide WHEN to look. The verdict is structural: handler goroutines that
		// sit in a lock acquisition, the very same goroutines again 5 s later (no progress), while
		// every backend gate is open. A slow machine shows running or runnable goroutines instead
		// and is inconclusive.
		if vfC29JudgeStall(rec, ep, mode, done, "client goroutines still blocked after 60 s") {
			return
		}
		return
	}
	if stalled.Load() > 0 {
		// some request ran into a wall-clock deadline (the server's 30 s request timeout, or the
		// pipe client's): not a verdict by itself. It is one only if handler goroutines are
		// structurally stuck on a lock.
		vfC29JudgeStall(rec, ep, mode, done, fmt.Sprintf("%d requests ran into a wall-clock deadline", stalled.Load()))
		return
	}
	fs.SetHook(nil)
	rec.Eval(len(hist))
	desc := map[string]any{"episode": ep, "mode": mode, "pipe": usePipe, "clients": nclients}
	for _, m := range mismatch {
		rec.Violate("C29/mutation-result-differs-from-owners-sequential-model/mode="+mode, m, desc)
		break
	}
	// interleaving signature: order of call/return events by kind
	type ev struct {
		t int64
		s string
	}
	var evs []ev
	for _, h := range hist {
		k := "r"
		if vfC29Mutating(h.in.Op) {
			k = "m"
		}
		evs = append(evs, ev{h.call, k + "("}, ev{h.ret, k + ")"})
	}
	sort.Slice(evs, func(i, j int) bool { return evs[i].t < evs[j].t })
	var sig strings.Builder
	for _, e := range evs {
		sig.WriteString(e.s)
	}
	rec.Distinct(mode + "|" + sig.String())
	overlaps := 0
	for i := range hist {
		for j := range hist {
			if i != j && hist[i].call < hist[j].call && hist[j].call < hist[i].ret {
				overlaps++
			}
		}
	}
	rec.Add("overlapping_operation_pairs", overlaps)

	// ---- per-owner check ----
	byOwner := map[int][]vfC29Rec{}
	for _, h := range hist {
		if h.listDir == "" {
			byOwner[h.in.Owner] = append(byOwner[h.in.Owner], h)
		}
	}
	if mode == "strict" && len(mismatch) == 0 {
		var ops []porcupine.Operation
		for _, h := range hist {
			if h.listDir == "" {
				ops = append(ops, porcupine.Operation{ClientId: h.client, Input: h.in, Call: h.call, Output: h.out, Return: h.ret})
			}
		}
		model := porcupine.Model{
			Partition: func(history []porcupine.Operation) [][]porcupine.Operation {
				m := map[int][]porcupine.Operation{}
				for _, o := range history {
					m[o.Input.(vfC29In).Owner] = append(m[o.Input.(vfC29In).Owner], o)
				}
				var out [][]porcupine.Operation
				for _, v := range m {
					out = append(out, v)
				}
				return out
			},
			Init: func() interface{} { return vfC29State{} },
			Step: func(st, in, out interface{}) (bool, interface{}) {
				i, o := in.(vfC29In), out.(vfC29Out)
				want, next := vfC29Apply(st.(vfC29State), i)
				if want.OK != o.OK {
					return false, st
				}
				if !o.OK {
					return true, st
				}
				switch i.Op {
				case "lookup", "getattr":
					if want.Kind != o.Kind || want.Size != o.Size {
						return false, st
					}
				case "read":
					if !vfC29ReadMatches(want.Data, o) {
						return false, st
					}
				case "readlink":
					if want.Target != o.Target {
						return false, st
					}
				}
				return true, next
			},
			Equal: func(a, b interface{}) bool { return a.(vfC29State).key() == b.(vfC29State).key() },
		}
		res, _ := porcupine.CheckOperationsVerbose(model, ops, 60*time.Second)
		rec.Add("porcupine_"+string(res), 1)
		switch res {
		case porcupine.Illegal:
			var hs []string
			for _, h := range hist {
				hs = append(hs, fmt.Sprintf("[%d,%d] c%d %s %s %s -> %+v", h.call, h.ret, h.client, h.in.Op, h.in.Path, h.in.Path2, h.out))
			}
			desc["history"] = hs
			rec.Violate("C29/history-not-linearizable/mode=strict", fmt.Sprintf("episode %d: no serial order of the %d operations respects real-time order and the sequential path model", ep, len(ops)), desc)
		case porcupine.Unknown:
			rec.Inconclusive(1)
		}
	}
	if mode != "strict" {
		// cached: a read may be stale, but must show a state its path was really in, not later than the read
		for o, hs := range byOwner {
			// the owner's mutations are sequential: states S0..Sk with the tick at which each began
			var muts []vfC29Rec
			for _, h := range hs {
				if vfC29Mutating(h.in.Op) {
					muts = append(muts, h)
				}
			}
			sort.Slice(muts, func(i, j int) bool { return muts[i].call < muts[j].call })
			states := []vfC29State{{}}
			for _, m := range muts {
				st := states[len(states)-1]
				if m.out.OK {
					_, st = vfC29Apply(st, m.in)
				}
				states = append(states, st)
			}
			for _, h := range hs {
				if vfC29Mutating(h.in.Op) {
					continue
				}
				hi := 0
				for i, m := range muts {
					if m.call < h.ret {
						hi = i + 1
					}
				}
				okAny := false
				for j := 0; j <= hi && !okAny; j++ {
					want, _ := vfC29Apply(states[j], h.in)
					if want.OK != h.out.OK {
						continue
					}
					if !want.OK {
						okAny = true
						break
					}
					switch h.in.Op {
					case "lookup", "getattr":
						okAny = want.Kind == h.out.Kind && want.Size == h.out.Size
					case "read":
						okAny = vfC29ReadMatches(want.Data, h.out)
					case "readlink":
						okAny = want.Target == h.out.Target
					}
				}
				rec.Add("window_rule_reads_checked", 1)
				if !okAny {
					rec.Violate("C29/reply-shows-a-state-the-object-was-never-in/op="+h.in.Op+"/mode="+mode,
						fmt.Sprintf("episode %d: c%d %s %s -> %+v matches none of the %d states owner %d's path had gone through by then", ep, h.client, h.in.Op, h.in.Path, h.out, hi+1, o), desc)
				}
			}
		}
	}
	// ---- listings: interval rule (all modes with the directory cache off) ----
	if !opts.EnableDirCache {
		for _, h := range hist {
			if h.listDir == "" || !h.out.OK {
				continue
			}
			got := map[string]bool{}
			for _, n := range h.listing {
				got[path.Join(h.listDir, n)] = true
			}
			for o := 0; o < nclients; o++ {
				var muts []vfC29Rec
				for _, x := range byOwner[o] {
					if vfC29Mutating(x.in.Op) {
						muts = append(muts, x)
					}
				}
				sort.Slice(muts, func(i, j int) bool { return muts[i].call < muts[j].call })
				states := []vfC29State{{}}
				for _, m := range muts {
					st := states[len(states)-1]
					if m.out.OK {
						_, st = vfC29Apply(st, m.in)
					}
					states = append(states, st)
				}
				lo, hi := 0, 0
				for i, m := range muts {
					if m.ret < h.call {
						lo = i + 1
					}
					if m.call < h.ret {
						hi = i + 1
					}
				}
				for _, p := range owned(o) {
					if path.Dir(p) != h.listDir {
						continue
					}
					always, never := true, true
					for j := lo; j <= hi; j++ {
						if states[j][p].Kind == "" {
							always = false
						} else {
							never = false
						}
					}
					rec.Add("listing_entries_checked", 1)
					if always && !got[p] {
						rec.Violate("C29/listing-misses-name-present-throughout/mode="+mode, fmt.Sprintf("episode %d: %s of %s [%d,%d] lacks %s", ep, h.in.Op, h.listDir, h.call, h.ret, p), desc)
					}
					if never && got[p] {
						rec.Violate("C29/listing-shows-name-absent-throughout/mode="+mode, fmt.Sprintf("episode %d: %s of %s [%d,%d] shows %s", ep, h.in.Op, h.listDir, h.call, h.ret, p), desc)
					}
				}
			}
		}
	}
	// ---- final tree equals the owners' sequential models ----
	if len(mismatch) == 0 {
		for k := 0; k < nclients; k++ {
			for _, p := range owned(k) {
				want := finals[k][p]
				e, ok := fs.Peek(p)
				got := vfObj{}
				if ok {
					got.Kind = e.Kind.String()
					if e.Kind == refs.KFile {
						b, _ := fs.Bytes(p)
						got.Data = string(b)
					}
					got.Target = e.Target
				}
				if got != want {
					rec.Violate("C29/final-tree-differs-from-serial-result/mode="+mode, fmt.Sprintf("episode %d: %s is %+v, the owner's sequential model says %+v", ep, p, got, want), desc)
				}
			}
		}
	}
	vfC29Audit(rec, srv, mode, desc)
	if ep < 3 {
		var hs []string
		for _, h := range hist[:min64i(len(hist), 25)] {
			hs = append(hs, fmt.Sprintf("[%d,%d] c%d %s %s -> ok=%v", h.call, h.ret, h.client, h.in.Op, h.in.Path, h.out.OK))
		}
		rec.Sample(map[string]any{"mode": mode, "clients": nclients, "history": hs})
	}
}

// vfC29Audit: at quiescence the handle table and the caches agree with the backend.
func vfC29Audit(rec *evid.Rec, srv *vfSrv, mode string, desc map[string]any) {
	n := srv.nfs
	tbl, rev := vfHandleTable(n.fileMap)
	seen := map[string]uint64{}
	for id, p := range tbl {
		if other, dup := seen[p]; dup {
			rec.Violate("C29/audit/two-handles-for-one-path", fmt.Sprintf("%s has handles %d and %d", p, other, id), desc)
		}
		seen[p] = id
		if rev[p] != id {
			rec.Violate("C29/audit/handle-maps-not-a-bijection", fmt.Sprintf("handles[%d]=%s but pathHandles[%s]=%d", id, p, p, rev[p]), desc)
		}
	}
	for p, id := range rev {
		if tbl[id] != p {
			rec.Violate("C29/audit/handle-maps-not-a-bijection", fmt.Sprintf("pathHandles[%s]=%d but handles[%d]=%q", p, id, id, tbl[id]), desc)
		}
	}
	now := time.Now()
	n.attrCache.mu.RLock()
	for p, ce := range n.attrCache.cache {
		if !now.Before(ce.expireAt) {
			continue
		}
		be, ok := srv.fs.Peek(p)
		rec.Add("audit_attr_entries_checked", 1)
		switch {
		case ce.isNegative && ok:
			rec.Violate("C29/audit/negative-cache-entry-for-existing-path/mode="+mode, p, desc)
		case !ce.isNegative && !ok:
			rec.Violate("C29/audit/positive-cache-entry-for-missing-path/mode="+mode, p, desc)
		case !ce.isNegative && ok:
			isDir, isLnk := ce.attrs.Mode.IsDir(), ce.attrs.Mode&(1<<27) != 0 // os.ModeSymlink
			k := "file"
			if isDir {
				k = "dir"
			} else if isLnk {
				k = "symlink"
			}
			if k != be.Kind.String() || be.Kind == refs.KFile && ce.attrs.Size != be.Size {
				rec.Violate("C29/audit/cached-attributes-differ-from-backend/mode="+mode, fmt.Sprintf("%s cached as %s size %d, backend has %s size %d", p, k, ce.attrs.Size, be.Kind, be.Size), desc)
			}
		}
	}
	n.attrCache.mu.RUnlock()
	if n.dirCache != nil {
		n.dirCache.mu.RLock()
		for p, ce := range n.dirCache.entries {
			if now.After(ce.validUntil) {
				continue
			}
			var names []string
			for _, fi := range ce.entries {
				names = append(names, fi.Name())
			}
			sort.Strings(names)
			want, _ := srv.fs.Names(p)
			rec.Add("audit_dir_entries_checked", 1)
			if strings.Join(names, ",") != strings.Join(want, ",") {
				rec.Violate("C29/audit/cached-listing-differs-from-backend/mode="+mode, fmt.Sprintf("%s cached as [%s], backend has [%s]", p, strings.Join(names, ","), strings.Join(want, ",")), desc)
			}
		}
		n.dirCache.mu.RUnlock()
	}
}

// vfC29Fills: controlled cache-fill races. A reader is parked right AFTER the backend
// call whose result it is going to cache, a mutation of the same object runs to
// completion (including its invalidations), the reader is released and stores what it
// saw; a fresh read must then show the state after the mutation, not the reader's
// stale view. Every (reader, mutator) pair runs with all caches enabled.
func vfC29Fills(rec *evid.Rec) {
	type scen struct {
		reader  string // READDIR | LOOKUP-existing | LOOKUP-absent
		mutator string
		// evict: the attribute cache holds ONE entry; the mutator is parked at its first modifying
		// backend call (its pre-operation GETATTR has cached the path by then) while a GETATTR of
		// another file pushes that entry out - so the path is absent from the cache at the moment
		// the mutation invalidates it
		evict bool
	}
	var scens []scen
	for _, m := range []string{"CREATE", "MKDIR", "SYMLINK", "REMOVE", "RMDIR", "RENAME-within", "RENAME-in", "RENAME-out"} {
		scens = append(scens, scen{"READDIR", m, false})
	}
	for _, m := range []string{"REMOVE", "WRITE", "SETATTR-size", "RENAME-away", "RENAME-over"} {
		scens = append(scens, scen{"LOOKUP-existing", m, false})
	}
	for _, m := range []string{"CREATE", "MKDIR", "SYMLINK", "RENAME-onto"} {
		scens = append(scens, scen{"LOOKUP-absent", m, false})
	}
	for _, m := range []string{"WRITE", "SETATTR-size", "RENAME-over", "REMOVE"} {
		for _, rd := range []string{"GETATTR-existing", "ACCESS-existing", "READ-existing"} {
			scens = append(scens, scen{rd, m, false})
		}
	}
	for _, m := range []string{"WRITE", "SETATTR-size", "REMOVE"} {
		for _, rd := range []string{"LOOKUP-existing", "GETATTR-existing"} {
			scens = append(scens, scen{rd, m, true})
		}
	}
	for _, sc := range scens {
		fs := refs.New()
		fs.PlantDir("/d", 0777, 0, 0)
		fs.PlantDir("/e", 0777, 0, 0)
		fs.PlantFile("/d/old", []byte("old-data"), 0666, 0, 0)
		fs.PlantDir("/d/olddir", 0777, 0, 0)
		fs.PlantFile("/e/other", []byte("other"), 0666, 0, 0)
		fopts := ExportOptions{AttrCacheTimeout: time.Hour, EnableDirCache: true, DirCacheTimeout: time.Hour, CacheNegativeLookups: true, NegativeCacheTimeout: time.Hour}
		if sc.evict {
			fopts.AttrCacheSize = 1
		}
		srv, err := vfNewSrv(fs, fopts)
		if err != nil {
			rec.Infra(err.Error())
			return
		}
		c := srv.client()
		root, _ := c.mnt("/")
		look := func(h uint64, n string) uint64 {
			l, _ := c.lookup(h, n)
			if l == nil || l.Status != 0 {
				return 0
			}
			return vfFH(l.FH)
		}
		dh, eh := look(root, "d"), look(root, "e")
		oldh := uint64(0)
		handleReader := sc.reader == "GETATTR-existing" || sc.reader == "ACCESS-existing" || sc.reader == "READ-existing"
		if sc.mutator == "WRITE" || sc.mutator == "SETATTR-size" || handleReader || sc.evict {
			oldh = look(dh, "old")
			srv.nfs.attrCache.Invalidate("/d/old") // the reader below must fill the cache itself
		}
		// the reader and where it is parked
		parkName, parkPath, target := "File.Readdir", "/d", ""
		switch sc.reader {
		case "LOOKUP-existing":
			parkName, parkPath, target = "Lstat", "/d/old", "old"
		case "LOOKUP-absent":
			parkName, parkPath, target = "Lstat", "/d/new", "new"
		case "GETATTR-existing", "ACCESS-existing", "READ-existing":
			parkName, parkPath, target = "Lstat", "/d/old", "old"
		}
		parked, open := make(chan struct{}), make(chan struct{})
		parked2, open2 := make(chan struct{}), make(chan struct{})
		var once, once2 sync.Once
		otherh := uint64(0)
		if sc.evict {
			otherh = look(eh, "other")
			srv.nfs.attrCache.Invalidate("/d/old")
		}
		fs.SetHook(func(op *refs.Op, ph refs.Phase) error {
			if ph == refs.After && op.Name == parkName && op.Path == parkPath {
				first := false
				once.Do(func() { first = true })
				if first {
					close(parked)
					<-open
				}
			}
			if sc.evict && ph == refs.Before && op.Mutating && op.Path == "/d/old" {
				first := false
				once2.Do(func() { first = true })
				if first {
					close(parked2)
					<-open2
				}
			}
			return nil
		})
		readerDone := make(chan struct{})
		go func() {
			defer close(readerDone)
			cl := srv.client()
			switch sc.reader {
			case "READDIR":
				cl.readdir(dh, 0, 65536)
			case "GETATTR-existing":
				cl.getattr(oldh)
			case "ACCESS-existing":
				cl.access(oldh, 0x3f)
			case "READ-existing":
				cl.read(oldh, 0, 4)
			default:
				cl.lookup(dh, target)
			}
		}()
		desc := fmt.Sprintf("reader=%s parked after %s(%s), mutator=%s", sc.reader, parkName, parkPath, sc.mutator)
		if sc.evict {
			desc += ", one-entry attribute cache, the path pushed out of the cache between the mutator's pre-operation GETATTR and its invalidation"
		}
		evid.Journal(desc)
		select {
		case <-parked:
		case <-time.After(20 * time.Second):
			rec.Inconclusive(1)
			close(open)
			srv.Close()
			continue
		}
		// the mutation, start to finish, while the reader holds its stale view
		var mres *rfc.Res
		if sc.evict {
			go func() {
				select {
				case <-parked2:
					// the mutator sits at its first modifying call: push its path out of the cache
					c2 := srv.client()
					c2.getattr(otherh)
					c2.lookup(eh, "other")
				case <-time.After(20 * time.Second):
				}
				close(open2)
			}()
		}
		switch sc.mutator {
		case "CREATE":
			mres, _ = c.create(dh, "new", 1, sattrNone, [8]byte{})
		case "MKDIR":
			mres, _ = c.mkdir(dh, "new", sattrNone)
		case "SYMLINK":
			mres, _ = c.symlink(dh, "new", "zz", sattrNone)
		case "REMOVE":
			mres, _ = c.remove(dh, "old")
		case "RMDIR":
			mres, _ = c.rmdir(dh, "olddir")
		case "RENAME-within":
			mres, _ = c.rename(dh, "old", dh, "renamed")
		case "RENAME-in", "RENAME-onto":
			mres, _ = c.rename(eh, "other", dh, "new")
		case "RENAME-out", "RENAME-away":
			mres, _ = c.rename(dh, "old", eh, "moved")
		case "RENAME-over":
			mres, _ = c.rename(eh, "other", dh, "old")
		case "WRITE":
			mres, _ = c.write(oldh, 0, 2, []byte("new-data-that-is-longer"))
		case "SETATTR-size":
			mres, _ = c.setattr(oldh, xdrw.Sattr3{Size: xdrw.U64p(3)})
		}
		close(open)
		select {
		case <-readerDone:
		case <-time.After(30 * time.Second):
			rec.Violate("C29/fill-race/reader-never-returned", desc, nil)
			srv.Close()
			continue
		}
		fs.SetHook(nil)
		rec.Eval(1)
		if mres == nil || mres.Status != 0 {
			rec.Inconclusive(1)
			srv.Close()
			continue
		}
		// fresh reads after both have completed must show the backend's state
		outcome := "fresh"
		if sc.evict {
			// the quiescent state itself, before any further request touches the one-entry cache (a
			// LOOKUP asks for the directory first, which pushes the entry under examination out)
			vfC29Audit(rec, srv, "fill-race", map[string]any{"scenario": desc, "when": "right after the reader returned"})
		}
		if sc.evict && oldh != 0 {
			// first through the handle: GETATTR asks the attribute cache for this very path and nothing
			// else (a LOOKUP also asks for the directory, which in a one-entry cache pushes the entry
			// under examination out before it is read)
			g, _ := c.getattr(oldh)
			be, exists := fs.Peek("/d/old")
			switch {
			case g == nil:
			case exists != (g.Status == 0):
				outcome = "stale"
				rec.Violate("C29/fill-race/stale-attributes-cached-after-"+sc.mutator, fmt.Sprintf("%s: GETATTR through the handle afterwards answers status %d, the object exists: %v", desc, g.Status, exists), nil)
			case exists && be.Kind == refs.KFile && g.Attr.Size != uint64(be.Size):
				outcome = "stale"
				rec.Violate("C29/fill-race/stale-attributes-cached-after-"+sc.mutator, fmt.Sprintf("%s: GETATTR afterwards reports size %d, the file has %d bytes", desc, g.Attr.Size, be.Size), nil)
			}
		}
		if sc.reader == "READDIR" {
			r, _ := c.readdir(dh, 0, 65536)
			var got []string
			if r != nil {
				for _, e := range r.Entries {
					got = append(got, e.Name)
				}
			}
			sort.Strings(got)
			want, _ := fs.Names("/d")
			if strings.Join(got, ",") != strings.Join(want, ",") {
				outcome = "stale"
				rec.Violate("C29/fill-race/stale-listing-cached-after-"+sc.mutator, fmt.Sprintf("%s: READDIR afterwards lists [%s], the directory holds [%s]", desc, strings.Join(got, ","), strings.Join(want, ",")), nil)
			}
		} else {
			r, _ := c.lookup(dh, target)
			be, exists := fs.Peek("/d/" + target)
			switch {
			case r == nil:
				rec.Inconclusive(1)
			case exists != (r.Status == 0):
				outcome = "stale"
				rec.Violate("C29/fill-race/stale-lookup-result-cached-after-"+sc.mutator, fmt.Sprintf("%s: LOOKUP afterwards answers status %d, the object exists: %v", desc, r.Status, exists), nil)
			case exists && be.Kind == refs.KFile && r.Obj.Present && r.Obj.A.Size != uint64(be.Size):
				outcome = "stale"
				rec.Violate("C29/fill-race/stale-attributes-cached-after-"+sc.mutator, fmt.Sprintf("%s: LOOKUP afterwards reports size %d, the file has %d bytes", desc, r.Obj.A.Size, be.Size), nil)
			}
		}
		rec.Distinct(fmt.Sprintf("fill-race|%s|%s|evict=%v|%s", sc.reader, sc.mutator, sc.evict, outcome))
		vfC29Audit(rec, srv, "fill-race", map[string]any{"scenario": desc})
		srv.Close()
	}
	rec.Add("controlled_fill_races", len(scens))
}

// vfC29LockWaiters returns the handler goroutines (id -> top of stack) that sit in a mutex acquisition.
func vfC29LockWaiters() map[string]string {
	buf := make([]byte, 8<<20)
	buf = buf[:runtime.Stack(buf, true)]
	out := map[string]string{}
	for _, g := range strings.Split(string(buf), "\n\n") {
		if strings.Contains(g, "absnfs.(*NFSProcedureHandler).handle") && (strings.Contains(g, "sync.(*RWMutex)") || strings.Contains(g, "sync.(*Mutex)")) {
			lines := strings.Split(g, "\n")
			id := strings.Fields(lines[0])
			if len(id) >= 2 {
				out[id[1]] = strings.Join(lines[:min64i(len(lines), 12)], "\n")
			}
		}
	}
	return out
}

// vfC29JudgeStall decides an episode in which something did not come back in time. The clock only
// decides WHEN to look; the verdict is structural: handler goroutines that sit in a lock acquisition,
// the very same goroutines again 5 s later (no progress), while every backend gate is open. A slow
// machine shows running or runnable goroutines instead, which is inconclusive. On a deadlock the
// result record is written and the process ends at once: cleanup (Close waits for the stuck requests)
// would never return. Returns true when it judged a violation (it does not return in that case).
func vfC29JudgeStall(rec *evid.Rec, ep int, mode string, done <-chan struct{}, why string) bool {
	first := vfC29LockWaiters()
	time.Sleep(5 * time.Second)
	second := vfC29LockWaiters()
	var blocked []string
	for id, st := range second {
		if _, was := first[id]; was {
			blocked = append(blocked, st)
		}
	}
	if len(blocked) == 0 {
		rec.Inconclusive(1)
		rec.Add("episodes_stalled_without_lock_waiters", 1)
		return false
	}
	vfC29Hung = true
	rec.Violate("C29/requests-did-not-complete", fmt.Sprintf("%s; %d handler goroutines have been waiting for a lock in two goroutine dumps 5 s apart (deadlock)", why, len(blocked)), map[string]any{"episode": ep, "mode": mode, "blocked_handlers": blocked[:min64i(len(blocked), 4)]})
	rec.Write()
	os.Exit(0)
	return true
}

// vfC29ReadStorm: several connections of the real connection loop (each request answered on the
// connection it came in on) read files that nobody writes. Each file has its own byte pattern, so a
// reply that carries another request's data - a buffer shared between requests - is recognised at
// once; the race detector watches the same traffic.
func vfC29ReadStorm(rec *evid.Rec) {
	for ep := 0; ep < evid.Pick(3, 40); ep++ {
		rng := evid.Rng(2929, int64(ep))
		fs := refs.New()
		nconn := 4 + rng.Intn(5)
		sizes := make([]int, nconn)
		for k := 0; k < nconn; k++ {
			sizes[k] = []int{64, 1000, 4096, 8192, 20000}[rng.Intn(5)]
			fs.PlantFile(fmt.Sprintf("/r%d", k), bytes.Repeat([]byte{byte('A' + k)}, sizes[k]), 0644, 0, 0)
		}
		srv, err := vfNewSrv(fs, ExportOptions{AttrCacheTimeout: 5 * time.Second, MaxWorkers: 2 + rng.Intn(6)})
		if err != nil {
			rec.Infra(err.Error())
			return
		}
		c0 := srv.client()
		root, _ := c0.mnt("/")
		hs := make([]uint64, nconn)
		for k := range hs {
			if l, _ := c0.lookup(root, fmt.Sprintf("r%d", k)); l != nil && l.Status == 0 {
				hs[k] = vfFH(l.FH)
			}
		}
		var wg sync.WaitGroup
		var reads, foreign, undecodable atomic.Int64
		var firstBad atomic.Pointer[string]
		for k := 0; k < nconn; k++ {
			wg.Add(1)
			go func(k int) {
				defer wg.Done()
				p := srv.pipe("127.0.0.1", 700+k)
				defer p.close()
				for i := 0; i < 150; i++ {
					_, raw, err := p.call(vfProgNFS, 3, 6, vfRootCred(), xdrw.ArgRead(hs[k], 0, uint32(sizes[k])))
					if err != nil {
						return
					}
					rep, derr := rfc.DecodeReply(raw)
					if derr != nil || rep.Denied || rep.AcceptStat != 0 {
						undecodable.Add(1)
						continue
					}
					res, derr := rfc.DecodeNFS(6, rep.Body)
					if derr != nil || res == nil {
						undecodable.Add(1)
						m := fmt.Sprintf("connection %d: READ reply does not decode: %v", k, derr)
						firstBad.CompareAndSwap(nil, &m)
						continue
					}
					if res.Status != 0 {
						continue
					}
					reads.Add(1)
					for j, b := range res.Data {
						if b != byte('A'+k) {
							foreign.Add(1)
							m := fmt.Sprintf("connection %d read /r%d (all %q): byte %d of the reply is %q", k, k, byte('A'+k), j, b)
							firstBad.CompareAndSwap(nil, &m)
							break
						}
					}
					if len(res.Data) != sizes[k] {
						foreign.Add(1)
						m := fmt.Sprintf("connection %d read /r%d (%d bytes): the reply carries %d bytes", k, k, sizes[k], len(res.Data))
						firstBad.CompareAndSwap(nil, &m)
					}
				}
			}(k)
		}
		done := make(chan struct{})
		go func() { wg.Wait(); close(done) }()
		select {
		case <-done:
		case <-time.After(120 * time.Second):
			rec.Inconclusive(1)
			return
		}
		rec.Eval(int(reads.Load()))
		if foreign.Load() > 0 || undecodable.Load() > 0 {
			what := ""
			if m := firstBad.Load(); m != nil {
				what = *m
			}
			rec.Violate("C29/read-reply-carries-data-of-another-request", fmt.Sprintf("%d connections reading files nobody writes: %d replies with foreign or missing bytes, %d undecodable; first: %s", nconn, foreign.Load(), undecodable.Load(), what), map[string]any{"episode": ep})
		}
		rec.Distinct(fmt.Sprintf("read-storm|conns=%d|clean=%v", nconn, foreign.Load() == 0 && undecodable.Load() == 0))
		srv.Close()
	}
}

// vfC29ReadVsShrink: a READ that has looked at the file's size and is parked just before it reads the
// bytes, while a request that shrinks the file runs to completion. Whichever way the two are
// ordered, the READ returns a state the file was in: the old bytes, or the new (shorter) bytes -
// never the old length filled up with bytes the file never held.
func vfC29ReadVsShrink(rec *evid.Rec) {
	for _, mut := range []string{"SETATTR-size-3", "SETATTR-size-0", "CREATE-size-0", "CREATE-size-2"} {
		for _, ttl := range []time.Duration{1, time.Hour} {
			fs := refs.New()
			fs.PlantDir("/d", 0777, 0, 0)
			fs.PlantFile("/d/f", []byte("abcdefgh"), 0666, 0, 0)
			srv, err := vfNewSrv(fs, ExportOptions{AttrCacheTimeout: ttl})
			if err != nil {
				rec.Infra(err.Error())
				return
			}
			c := srv.client()
			root, _ := c.mnt("/")
			dl, _ := c.lookup(root, "d")
			fl, _ := c.lookup(vfFH(dl.FH), "f")
			if dl == nil || fl == nil || fl.Status != 0 {
				rec.Infra("lookup")
				srv.Close()
				return
			}
			dh, fh := vfFH(dl.FH), vfFH(fl.FH)
			parked, open := make(chan struct{}), make(chan struct{})
			var once sync.Once
			fs.SetHook(func(op *refs.Op, ph refs.Phase) error {
				if ph == refs.Before && op.Name == "File.ReadAt" && op.Path == "/d/f" {
					first := false
					once.Do(func() { first = true })
					if first {
						close(parked)
						<-open
					}
				}
				return nil
			})
			var rr *rfc.Res
			done := make(chan struct{})
			go func() {
				defer close(done)
				rr, _ = srv.client().read(fh, 0, 8)
			}()
			select {
			case <-parked:
			case <-time.After(20 * time.Second):
				rec.Inconclusive(1)
				close(open)
				srv.Close()
				continue
			}
			var mres *rfc.Res
			newData := ""
			switch mut {
			case "SETATTR-size-3":
				mres, _ = c.setattr(fh, xdrw.Sattr3{Size: xdrw.U64p(3)})
				newData = "abc"
			case "SETATTR-size-0":
				mres, _ = c.setattr(fh, xdrw.Sattr3{Size: xdrw.U64p(0)})
			case "CREATE-size-0":
				mres, _ = c.create(dh, "f", 0, xdrw.Sattr3{Size: xdrw.U64p(0)}, [8]byte{})
			default:
				mres, _ = c.create(dh, "f", 0, xdrw.Sattr3{Size: xdrw.U64p(2)}, [8]byte{})
				newData = "ab"
			}
			close(open)
			select {
			case <-done:
			case <-time.After(40 * time.Second):
				rec.Inconclusive(1)
				continue
			}
			fs.SetHook(nil)
			rec.Eval(1)
			outcome := "no-reply"
			if mres != nil && mres.Status == 0 && rr != nil && rr.Status == 0 {
				got := string(rr.Data)
				switch got {
				case "abcdefgh":
					outcome = "old-state"
				case newData:
					outcome = "new-state"
				default:
					outcome = "neither"
					rec.Violate("C29/read-returns-a-state-the-file-never-had/shrunk-during-the-read", fmt.Sprintf("the file held %q, then (%s) %q; a READ of 8 bytes that overlapped the shrink returned %q (count %d)", "abcdefgh", mut, newData, got, rr.Count), map[string]any{"mutator": mut})
				}
			}
			rec.Distinct(fmt.Sprintf("read-vs-shrink|%s|ttl=%v|%s", mut, ttl, outcome))
			srv.Close()
		}
	}
}

// vfC29ReplacedUnderHandle: a client holds a handle for a path; the object at that path is
// then replaced by one of another type (RENAME over it, or REMOVE/RMDIR and RENAME of another
// object to the name). Handles name paths in this server and LOOKUP hands the very same handle
// id out again, so a request through the handle must be answered from the object that is at
// the path now: the same requests are sent before and after a plain LOOKUP of the name (which
// changes nothing), and the two sets of replies must agree; GETATTR must report the new type.
func vfC29ReplacedUnderHandle(rec *evid.Rec) {
	kinds := []string{"file", "dir", "symlink"}
	plant := func(fs *refs.FS, p, kind, tag string) {
		switch kind {
		case "file":
			fs.PlantFile(p, []byte("data-"+tag), 0666, 0, 0)
		case "dir":
			fs.PlantDir(p, 0777, 0, 0)
		default:
			fs.PlantSymlink(p, "target-"+tag)
		}
	}
	ftype := map[string]uint32{"file": 1, "dir": 2, "symlink": 5}
	for _, oldK := range kinds {
		for _, newK := range kinds {
			if oldK == newK {
				continue
			}
			for _, how := range []string{"rename-over", "remove-then-rename-to-the-name"} {
				if how == "rename-over" && (oldK == "dir") != (newK == "dir") {
					continue // refused by every backend
				}
				for _, ttl := range []time.Duration{1, time.Hour} {
					fs := refs.New()
					fs.PlantDir("/d", 0777, 0, 0)
					plant(fs, "/d/p", oldK, "old")
					plant(fs, "/d/q", newK, "new")
					if newK == "dir" {
						fs.PlantFile("/d/q/k", []byte("k"), 0666, 0, 0)
					}
					srv, err := vfNewSrv(fs, ExportOptions{AttrCacheTimeout: ttl, EnableDirCache: ttl > 1, CacheNegativeLookups: ttl > 1})
					if err != nil {
						rec.Infra(err.Error())
						return
					}
					c := srv.client()
					root, _ := c.mnt("/")
					dl, _ := c.lookup(root, "d")
					if dl == nil || dl.Status != 0 {
						rec.Infra("lookup /d")
						srv.Close()
						return
					}
					dh := vfFH(dl.FH)
					pl, _ := c.lookup(dh, "p")
					if pl == nil || pl.Status != 0 {
						rec.Infra("lookup /d/p")
						srv.Close()
						return
					}
					h := vfFH(pl.FH)
					// the client uses the handle once while the old object is there
					c.getattr(h)
					if how != "rename-over" {
						var r *rfc.Res
						if oldK == "dir" {
							r, _ = c.rmdir(dh, "p")
						} else {
							r, _ = c.remove(dh, "p")
						}
						if r == nil || r.Status != 0 {
							rec.Infra("remove /d/p")
							srv.Close()
							return
						}
					}
					if r, _ := c.rename(dh, "q", dh, "p"); r == nil || r.Status != 0 {
						rec.Infra("rename /d/q -> /d/p")
						srv.Close()
						return
					}
					type ans struct {
						proc   string
						status uint32
						detail string
					}
					ask := func(h uint64) []ans {
						var out []ans
						add := func(proc string, r *rfc.Res, detail func() string) {
							a := ans{proc: proc, status: ^uint32(0)}
							if r != nil {
								a.status = r.Status
								if r.Status == 0 && detail != nil {
									a.detail = detail()
								}
							}
							out = append(out, a)
						}
						g, _ := c.getattr(h)
						add("GETATTR", g, func() string { return fmt.Sprintf("type=%d", g.Attr.Type) })
						rl, _ := c.readlink(h)
						add("READLINK", rl, func() string { return rl.Link })
						lk, _ := c.lookup(h, "k")
						add("LOOKUP", lk, nil)
						rd, _ := c.readdir(h, 0, 4096)
						add("READDIR", rd, func() string { return fmt.Sprint(len(rd.Entries)) })
						rp, _ := c.readdirplus(h, 0, 4096, 8192)
						add("READDIRPLUS", rp, func() string { return fmt.Sprint(len(rp.Entries)) })
						rm, _ := c.remove(h, "zz")
						add("REMOVE", rm, nil)
						rmd, _ := c.rmdir(h, "zz")
						add("RMDIR", rmd, nil)
						if newK == "file" {
							rr, _ := c.read(h, 0, 64)
							add("READ", rr, func() string { return string(rr.Data) })
						}
						return out
					}
					before := ask(h)
					again, _ := c.lookup(dh, "p")
					if again == nil || again.Status != 0 {
						rec.Violate("C29/object-moved-to-a-name-is-not-found-there/"+how, fmt.Sprintf("%s /d/q was renamed to /d/p (formerly a %s, %s, ttl %v): LOOKUP of p answers %v", newK, oldK, how, ttl, again), map[string]any{"old": oldK, "new": newK, "how": how})
						srv.Close()
						continue
					}
					after := ask(vfFH(again.FH))
					rec.Eval(len(before) + len(after))
					desc := map[string]any{"old": oldK, "new": newK, "how": how, "ttl": ttl.String(), "same_handle_id": vfFH(again.FH) == h}
					for i := range before {
						if before[i] != after[i] {
							rec.Violate("C29/reply-through-a-handle-held-across-a-replacement-differs-from-the-reply-after-a-fresh-lookup/"+before[i].proc,
								fmt.Sprintf("/d/p was a %s when the handle was issued and is a %s now (%s, attr TTL %v): %s through the handle answers status %d %q; after a LOOKUP of p (same handle id: %v), which changes nothing, the same request answers status %d %q",
									oldK, newK, how, ttl, before[i].proc, before[i].status, before[i].detail, vfFH(again.FH) == h, after[i].status, after[i].detail), desc)
						}
					}
					if before[0].status == 0 && before[0].detail != fmt.Sprintf("type=%d", ftype[newK]) {
						rec.Violate("C29/getattr-through-a-handle-reports-the-replaced-object", fmt.Sprintf("/d/p is a %s now (%s over a %s, attr TTL %v) and GETATTR through the handle says %s", newK, how, oldK, ttl, before[0].detail), desc)
					}
					sig := ""
					for _, a := range before {
						sig += fmt.Sprintf("%s=%d,", a.proc, a.status)
					}
					rec.Distinct(fmt.Sprintf("replaced-under-handle|%s->%s|%s|ttl=%v|%s", oldK, newK, how, ttl, sig))
					srv.Close()
				}
			}
		}
	}
}

// vfC29ReaderInsideMutation: the dual of the fill races. A mutating request is stopped just before
// its first modifying backend call; at that point another client runs LOOKUP, GETATTR and READDIR of
// the name to completion (they see the old state, correctly, and may cache it); then the mutation
// goes on. The mutation completed after those reads, so its own reply is that of the serial order
// "reads, then mutation", and everything asked afterwards - with all caches on - reflects it.
func vfC29ReaderInsideMutation(rec *evid.Rec) {
	type mdef struct {
		name   string
		do     func(c *vfClient, dh uint64) *rfc.Res
		after  bool // does /d/n exist afterwards
		before bool // does it exist before
	}
	muts := []mdef{
		{"CREATE", func(c *vfClient, dh uint64) *rfc.Res { r, _ := c.create(dh, "n", 0, sattrNone, [8]byte{}); return r }, true, false},
		{"CREATE-guarded", func(c *vfClient, dh uint64) *rfc.Res { r, _ := c.create(dh, "n", 1, sattrNone, [8]byte{}); return r }, true, false},
		{"MKDIR", func(c *vfClient, dh uint64) *rfc.Res { r, _ := c.mkdir(dh, "n", sattrNone); return r }, true, false},
		{"SYMLINK", func(c *vfClient, dh uint64) *rfc.Res { r, _ := c.symlink(dh, "n", "t", sattrNone); return r }, true, false},
		{"RENAME-to", func(c *vfClient, dh uint64) *rfc.Res { r, _ := c.rename(dh, "m", dh, "n"); return r }, true, false},
		{"REMOVE", func(c *vfClient, dh uint64) *rfc.Res { r, _ := c.remove(dh, "n"); return r }, false, true},
		{"RENAME-away", func(c *vfClient, dh uint64) *rfc.Res { r, _ := c.rename(dh, "n", dh, "z"); return r }, false, true},
	}
	for _, md := range muts {
		for _, warm := range []bool{false, true} {
			fs := refs.New()
			fs.PlantDir("/d", 0777, 0, 0)
			fs.PlantFile("/d/m", []byte("m"), 0666, 0, 0)
			if md.before {
				fs.PlantFile("/d/n", []byte("n"), 0666, 0, 0)
			}
			srv, err := vfNewSrv(fs, ExportOptions{AttrCacheTimeout: time.Hour, EnableDirCache: true, CacheNegativeLookups: true})
			if err != nil {
				rec.Infra(err.Error())
				return
			}
			c, c2 := srv.client(), srv.client()
			root, _ := c.mnt("/")
			dl, _ := c.lookup(root, "d")
			if dl == nil || dl.Status != 0 {
				rec.Infra("lookup /d")
				srv.Close()
				return
			}
			dh := vfFH(dl.FH)
			if warm {
				c2.lookup(dh, "n")
				c2.readdir(dh, 0, 8192)
			}
			var once sync.Once
			inside := ""
			fs.SetHook(func(op *refs.Op, ph refs.Phase) error {
				if ph == refs.Before && op.Mutating {
					once.Do(func() {
						l, _ := c2.lookup(dh, "n")
						rd, _ := c2.readdir(dh, 0, 8192)
						rp, _ := c2.readdirplus(dh, 0, 8192, 32768)
						inside = fmt.Sprintf("LOOKUP=%d READDIR=%d READDIRPLUS=%d", vfSt(l), vfSt(rd), vfSt(rp))
					})
				}
				return nil
			})
			r := md.do(c, dh)
			fs.SetHook(nil)
			rec.Eval(1)
			desc := map[string]any{"mutation": md.name, "caches_warm": warm, "reads_inside_the_window": inside}
			outcome := "ok"
			if r == nil || r.Status != 0 {
				outcome = "mutation-failed"
				rec.Violate("C29/mutation-answers-as-if-a-concurrent-read-had-come-after-it/"+md.name, fmt.Sprintf("%s of /d/n answered status %d; another client's LOOKUP/READDIR of the name ran to completion just before the request's first modifying backend call (%s) - in the serial order \"reads, then %s\" the request succeeds", md.name, vfSt(r), inside, md.name), desc)
			}
			_, exists := fs.Snapshot()["/d/n"]
			for i, cl := range []*vfClient{c2, c} {
				l, _ := cl.lookup(dh, "n")
				if l != nil && (l.Status == 0) != exists {
					outcome = "stale-lookup"
					rec.Violate("C29/reads-inside-a-mutations-window-leave-a-stale-cache-entry/"+md.name+"/LOOKUP", fmt.Sprintf("after %s (status %d) /d/n exists in the backend: %v; LOOKUP by client %d answers status %d (reads inside the window: %s)", md.name, vfSt(r), exists, i, l.Status, inside), desc)
				}
				if rd, _ := cl.readdir(dh, 0, 8192); rd != nil && rd.Status == 0 {
					listed := false
					for _, e := range rd.Entries {
						if e.Name == "n" {
							listed = true
						}
					}
					if listed != exists {
						outcome = "stale-listing"
						rec.Violate("C29/reads-inside-a-mutations-window-leave-a-stale-cache-entry/"+md.name+"/READDIR", fmt.Sprintf("after %s (status %d) /d/n exists in the backend: %v; READDIR by client %d lists it: %v", md.name, vfSt(r), exists, i, listed), desc)
					}
				}
			}
			rec.Distinct(fmt.Sprintf("reader-inside-mutation|%s|warm=%v|%s", md.name, warm, outcome))
			srv.Close()
		}
	}
}

// vfC29SamePathLookups: several clients LOOKUP the same name at the same moment while the path has
// no handle yet (they are held together after their backend lstat, just before the handle is
// allocated). Every serial order gives all of them the same handle.
func vfC29SamePathLookups(rec *evid.Rec) {
	fs := refs.New()
	fs.PlantDir("/s", 0777, 0, 0)
	srv, err := vfNewSrv(fs, ExportOptions{AttrCacheTimeout: 1, Log: &LogConfig{Level: "debug", Output: "/dev/null", LogOperations: true}})
	if err != nil {
		rec.Infra(err.Error())
		return
	}
	defer srv.Close()
	// the server reports every LOOKUP to its structured logger when the operation is over, just
	// before the handler allocates the handle: that report is where the clients are held together
	bl := &vfBarrierLogger{}
	srv.nfs.SetLogger(bl)
	c := srv.client()
	root, _ := c.mnt("/")
	dl, _ := c.lookup(root, "s")
	if dl == nil || dl.Status != 0 {
		rec.Infra("lookup /s")
		return
	}
	dh := vfFH(dl.FH)
	const k = 4
	rounds := evid.Pick(250, 5000)
	differing := 0
	for r := 0; r < rounds && differing == 0; r++ {
		name := fmt.Sprintf("f%d", r)
		fs.PlantFile("/s/"+name, []byte("x"), 0666, 0, 0)
		bl.arm(k)
		got := make([]uint64, k)
		var wg sync.WaitGroup
		for i := 0; i < k; i++ {
			wg.Add(1)
			go func(i int) {
				defer wg.Done()
				if l, _ := srv.client().lookup(dh, name); l != nil && l.Status == 0 {
					got[i] = vfFH(l.FH)
				}
			}(i)
		}
		wg.Wait()
		bl.arm(0)
		rec.Eval(k)
		for i := 1; i < k; i++ {
			if got[i] != 0 && got[0] != 0 && got[i] != got[0] {
				differing++
				rec.Violate("C29/concurrent-lookups-of-one-name-return-different-handles", fmt.Sprintf("round %d: %d clients looked up /s/%s at the same moment and were given the handles %v; every serial order gives them one handle", r, k, name, got), map[string]any{"round": r})
				break
			}
		}
	}
	rec.Distinct(fmt.Sprintf("same-path-lookups|differing=%v", differing > 0))
	vfC29Audit(rec, srv, "same-path-lookups", nil)
}

// vfBarrierLogger holds the callers of Debug("LOOKUP operation") together until n of them have
// arrived (or 50 ms have passed); disarmed (n = 0) it is a no-op logger.
type vfBarrierLogger struct {
	mu      sync.Mutex
	n       int
	arrived int
	release chan struct{}
}

func (l *vfBarrierLogger) arm(n int) {
	l.mu.Lock()
	l.n, l.arrived, l.release = n, 0, make(chan struct{})
	l.mu.Unlock()
}

func (l *vfBarrierLogger) Debug(msg string, fields ...LogField) {
	if msg != "LOOKUP operation" {
		return
	}
	l.mu.Lock()
	if l.n == 0 {
		l.mu.Unlock()
		return
	}
	l.arrived++
	rel := l.release
	if l.arrived == l.n {
		close(rel)
		l.n = 0
	}
	l.mu.Unlock()
	select {
	case <-rel:
	case <-time.After(50 * time.Millisecond):
	}
}
func (l *vfBarrierLogger) Info(msg string, fields ...LogField)  {}
func (l *vfBarrierLogger) Warn(msg string, fields ...LogField)  {}
func (l *vfBarrierLogger) Error(msg string, fields ...LogField) {}
