//go:build verif

package absnfs

import (
	"fmt"
	"io"
	"net"
	"testing"
	"time"

	"verif.local/lib/evid"
	"verif.local/lib/refs"
	"verif.local/lib/rfc"
	"verif.local/lib/xdrw"
)

// C23: READ and WRITE within the advertised FSINFO limits are served.
// Oracle: FSINFO decoded strictly; the counts it advertises are then actually
// used over a real record-marked TCP connection.

type vfRM struct {
	c   net.Conn
	xid uint32
}

func vfDialRM(port int) (*vfRM, error) {
	c, err := net.DialTimeout("tcp", fmt.Sprintf("127.0.0.1:%d", port), 10*time.Second)
	if err != nil {
		return nil, err
	}
	return &vfRM{c: c, xid: 9000}, nil
}

// call returns the reply bytes; closed=true when the server closed the
// connection instead of answering.
func (r *vfRM) call(prog, proc uint32, args []byte) (raw []byte, closed bool, err error) {
	r.xid++
	r.c.SetDeadline(time.Now().Add(30 * time.Second))
	msg := append(xdrw.CallHeader(r.xid, prog, 3, proc, vfRootCred()), args...)
	if _, err := r.c.Write(xdrw.Record(msg)); err != nil {
		return nil, true, nil
	}
	var out []byte
	for {
		var h [4]byte
		if _, err := io.ReadFull(r.c, h[:]); err != nil {
			if ne, ok := err.(net.Error); ok && ne.Timeout() {
				return nil, false, err
			}
			return nil, true, nil
		}
		v := uint32(h[0])<<24 | uint32(h[1])<<16 | uint32(h[2])<<8 | uint32(h[3])
		b := make([]byte, v&0x7fffffff)
		if _, err := io.ReadFull(r.c, b); err != nil {
			return nil, true, nil
		}
		out = append(out, b...)
		if v&0x80000000 != 0 {
			return out, false, nil
		}
	}
}

func (r *vfRM) nfs(proc uint32, args []byte) (*rfc.Res, bool, error) {
	raw, closed, err := r.call(vfProgNFS, proc, args)
	if err != nil || closed {
		return nil, closed, err
	}
	rep, derr := rfc.DecodeReply(raw)
	if derr != nil || rep.Denied || rep.AcceptStat != 0 {
		return nil, false, fmt.Errorf("rpc: %v %+v", derr, rep)
	}
	res, derr := rfc.DecodeNFS(proc, rep.Body)
	if derr != nil {
		// keep the status even if the body is not RFC-shaped (that is C14's business)
		if res != nil {
			return res, false, nil
		}
		return nil, false, derr
	}
	return res, false, nil
}

func TestVerif_C23(t *testing.T) {
	rec := evid.New("C23")
	rec.Rule = "TransferSize in {4096, 65536 (default), 262144, 1MiB, 2MiB} set at construction and changed at runtime (UpdateTuningOptions / UpdateExportOptions); FSINFO decoded; WRITE and READ with counts {1, pref, max-1, max} and the neighbourhood of TransferSize, sent over a real record-marked TCP connection; distinct = (transfer size, how set, op, count class, outcome) tuples"
	defer rec.Write()
	sizes := []int{4096, 0, 262144, 1 << 20, 2 << 20}
	for _, ts := range sizes {
		for _, how := range []string{"construction", "UpdateTuningOptions", "UpdateExportOptions"} {
			if evid.Tier() == "quick" && how != "construction" && (ts == 4096 || ts == 2<<20) {
				continue
			}
			vfC23Run(rec, ts, how)
		}
	}
}

func vfC23Run(rec *evid.Rec, ts int, how string) {
	fs := refs.New()
	fs.MaxSize = 8 << 20
	fs.PlantFile("/big", make([]byte, 3<<20), 0666, 0, 0)
	fs.PlantFile("/w", nil, 0666, 0, 0)
	opts := ExportOptions{AttrCacheTimeout: 1}
	if how == "construction" {
		opts.TransferSize = ts
	}
	srv, err := vfNewSrv(fs, opts)
	if err != nil {
		rec.Infra(err.Error())
		return
	}
	defer srv.Close()
	eff := ts
	if ts == 0 {
		eff = 65536
	}
	switch how {
	case "UpdateTuningOptions":
		srv.nfs.UpdateTuningOptions(func(t *TuningOptions) { t.TransferSize = eff })
	case "UpdateExportOptions":
		eo := srv.nfs.GetExportOptions()
		eo.TransferSize = eff
		if err := srv.nfs.UpdateExportOptions(eo); err != nil {
			rec.Infra(err.Error())
			return
		}
	}
	if err := srv.srv.Listen(); err != nil {
		rec.Infra(err.Error())
		return
	}
	defer srv.srv.Stop()
	port := srv.srv.GetPort()
	desc := fmt.Sprintf("TransferSize=%d set via %s", eff, how)
	evid.Journal(desc)
	conn, err := vfDialRM(port)
	if err != nil {
		rec.Inconclusive(1)
		return
	}
	reconnect := func() bool {
		conn.c.Close()
		conn, err = vfDialRM(port)
		return err == nil
	}
	raw, closed, err := conn.call(vfProgMount, 1, (&xdrw.W{}).Str("/").B)
	if err != nil || closed {
		rec.Inconclusive(1)
		return
	}
	rep, _ := rfc.DecodeReply(raw)
	m, _ := rfc.DecodeMount(1, rep.Body)
	root := vfFH(m.FH)
	look := func(n string) uint64 {
		r, _, _ := conn.nfs(3, xdrw.ArgDirop(root, n))
		if r == nil || r.Status != 0 {
			return 0
		}
		return vfFH(r.FH)
	}
	big, w := look("big"), look("w")
	fi, _, err := conn.nfs(19, xdrw.ArgFH(root))
	if err != nil || fi == nil || fi.Status != 0 {
		rec.Infra(fmt.Sprintf("FSINFO: %v", err))
		return
	}
	f := fi.Fsinfo
	rec.Eval(1)
	if f.Rtpref > f.Rtmax {
		rec.Violate("C23/rtpref-exceeds-rtmax", fmt.Sprintf("%d > %d [%s]", f.Rtpref, f.Rtmax, desc), nil)
	}
	if f.Wtpref > f.Wtmax {
		rec.Violate("C23/wtpref-exceeds-wtmax", fmt.Sprintf("%d > %d [%s]", f.Wtpref, f.Wtmax, desc), nil)
	}
	counts := func(pref, max uint32) []uint32 {
		c := []uint32{1, pref, max - 1, max, uint32(eff), uint32(eff) + 1}
		var out []uint32
		for _, v := range c {
			if v >= 1 && v <= max {
				out = append(out, v)
			}
		}
		return out
	}
	cls := func(c, pref, max uint32) string {
		switch {
		case c == max:
			return "max"
		case c == max-1:
			return "max-1"
		case c == pref:
			return "pref"
		case c > uint32(eff):
			return ">transfer-size"
		}
		return "small"
	}
	for _, cnt := range counts(f.Wtpref, f.Wtmax) {
		data := make([]byte, cnt)
		for i := range data {
			data[i] = byte(i)
		}
		rec.Eval(1)
		r, closed, err := conn.nfs(7, xdrw.ArgWrite(w, 0, cnt, 2, data))
		out := "ok"
		switch {
		case err != nil:
			rec.Inconclusive(1)
			out = "error"
			reconnect()
		case closed:
			out = "connection-dropped"
			rec.Violate("C23/write-within-wtmax-drops-connection", fmt.Sprintf("WRITE count=%d <= wtmax=%d: the server closed the connection [%s]", cnt, f.Wtmax, desc), nil)
			if !reconnect() {
				return
			}
		case r.Status == 22:
			out = "INVAL"
			rec.Violate("C23/write-within-wtmax-refused-as-invalid", fmt.Sprintf("WRITE count=%d <= wtmax=%d answered NFS3ERR_INVAL [%s]", cnt, f.Wtmax, desc), nil)
		case r.Status != 0:
			out = fmt.Sprintf("status=%d", r.Status)
			rec.Violate("C23/write-within-wtmax-failed", fmt.Sprintf("WRITE count=%d <= wtmax=%d answered status %d [%s]", cnt, f.Wtmax, r.Status, desc), nil)
		case r.Count == 0:
			out = "ok-zero"
			rec.Violate("C23/write-within-wtmax-stored-nothing", fmt.Sprintf("WRITE count=%d answered OK with count 0 [%s]", cnt, desc), nil)
		}
		rec.Distinct(fmt.Sprintf("ts=%d|%s|WRITE|%s|%s", eff, how, cls(cnt, f.Wtpref, f.Wtmax), out))
	}
	for _, cnt := range counts(f.Rtpref, f.Rtmax) {
		rec.Eval(1)
		r, closed, err := conn.nfs(6, xdrw.ArgRead(big, 0, cnt))
		out := "ok"
		switch {
		case err != nil:
			rec.Inconclusive(1)
			out = "error"
			reconnect()
		case closed:
			out = "connection-dropped"
			rec.Violate("C23/read-within-rtmax-drops-connection", fmt.Sprintf("READ count=%d <= rtmax=%d [%s]", cnt, f.Rtmax, desc), nil)
			if !reconnect() {
				return
			}
		case r.Status != 0:
			out = fmt.Sprintf("status=%d", r.Status)
			rec.Violate("C23/read-within-rtmax-failed", fmt.Sprintf("READ count=%d <= rtmax=%d answered status %d [%s]", cnt, f.Rtmax, r.Status, desc), nil)
		case r.Count == 0:
			out = "ok-zero"
			rec.Violate("C23/read-before-eof-returned-nothing", fmt.Sprintf("READ count=%d at offset 0 of a 3 MiB file returned 0 bytes [%s]", cnt, desc), nil)
		}
		rec.Distinct(fmt.Sprintf("ts=%d|%s|READ|%s|%s", eff, how, cls(cnt, f.Rtpref, f.Rtmax), out))
	}
	conn.c.Close()
	rec.Sample(map[string]any{"config": desc, "fsinfo": map[string]uint32{"rtmax": f.Rtmax, "rtpref": f.Rtpref, "wtmax": f.Wtmax, "wtpref": f.Wtpref}})
}
