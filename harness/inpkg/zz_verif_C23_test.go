//go:build verif

package absnfs

import (
	"fmt"
	"io"
	"net"
	"strings"
	"testing"
	"time"

	"verif.local/lib/evid"
	"verif.local/lib/refs"
	"verif.local/lib/rfc"
	"verif.local/lib/xdrw"
)

// C23: READ and WRITE within the advertised FSINFO limits are served.
// Oracle: FSINFO decoded strictly; the counts it advertises are then actually
// used over a real record-marked TCP connection.

type vfRM struct {
	c    net.Conn
	xid  uint32
	frag int // when > 0, calls are sent as records cut into fragments of this many bytes
	none bool // send AUTH_NONE credentials (what a standard client does for NULL) instead of AUTH_SYS root
	cred *xdrw.Cred // when set (and none is false), the AUTH_SYS credential to send instead of root's
}

func vfDialRM(port int) (*vfRM, error) {
	c, err := net.DialTimeout("tcp", fmt.Sprintf("127.0.0.1:%d", port), 10*time.Second)
	if err != nil {
		return nil, err
	}
	return &vfRM{c: c, xid: 9000}, nil
}

// call returns the reply bytes; closed=true when the server closed the
// connection instead of answering.
func (r *vfRM) call(prog, proc uint32, args []byte) (raw []byte, closed bool, err error) {
	r.xid++
	r.c.SetDeadline(time.Now().Add(30 * time.Second))
	cred := vfRootCred()
	if r.cred != nil {
		cred = *r.cred
	}
	if r.none {
		cred = xdrw.Cred{}
	}
	msg := append(xdrw.CallHeader(r.xid, prog, 3, proc, cred), args...)
	rec := xdrw.Record(msg)
	if r.frag > 0 && len(msg) > r.frag {
		sizes := make([]int, (len(msg)-1)/r.frag)
		for i := range sizes {
			sizes[i] = r.frag
		}
		rec = xdrw.Fragments(msg, sizes)
	}
	// the reply of a dropped connection may arrive before the whole request was written:
	// write from a helper so that a reset while writing still lets the reader see EOF
	wdone := make(chan error, 1)
	go func() { _, e := r.c.Write(rec); wdone <- e }()
	defer func() { <-wdone }()
	var out []byte
	for {
		var h [4]byte
		if _, err := io.ReadFull(r.c, h[:]); err != nil {
			if ne, ok := err.(net.Error); ok && ne.Timeout() {
				return nil, false, err
			}
			return nil, true, nil
		}
		v := uint32(h[0])<<24 | uint32(h[1])<<16 | uint32(h[2])<<8 | uint32(h[3])
		b := make([]byte, v&0x7fffffff)
		if _, err := io.ReadFull(r.c, b); err != nil {
			return nil, true, nil
		}
		out = append(out, b...)
		if v&0x80000000 != 0 {
			return out, false, nil
		}
	}
}

func (r *vfRM) nfs(proc uint32, args []byte) (*rfc.Res, bool, error) {
	raw, closed, err := r.call(vfProgNFS, proc, args)
	if err != nil || closed {
		return nil, closed, err
	}
	rep, derr := rfc.DecodeReply(raw)
	if derr != nil || rep.Denied || rep.AcceptStat != 0 {
		return nil, false, fmt.Errorf("rpc: %v %+v", derr, rep)
	}
	res, derr := rfc.DecodeNFS(proc, rep.Body)
	if derr != nil {
		// keep the status even if the body is not RFC-shaped (that is C14's business)
		if res != nil {
			return res, false, nil
		}
		return nil, false, derr
	}
	return res, false, nil
}

func TestVerif_C23(t *testing.T) {
	rec := evid.New("C23")
	rec.Rule = "TransferSize in {1, 100, 4096, 4097, 5000, 65535, 65536 (default), 70000, 262144, 1MiB-4096, 1MiB-4095, 1MiB, 2MiB} set at construction and changed at runtime (UpdateTuningOptions / UpdateExportOptions); FSINFO decoded; WRITE and READ with counts {1, pref, max-1, max} and the neighbourhood of TransferSize, sent over a real record-marked TCP connection as one fragment and cut into 64 KiB / 4 KiB / 512-byte fragments; distinct = (transfer size, how set, op, count class, outcome) tuples"
	defer rec.Write()
	sizes := []int{4096, 0, 262144, 1 << 20, 2 << 20, 5000, 70000, 100, 1<<20 - 4096, 1<<20 - 4095, 4097, 65535, 1}
	for i, ts := range sizes {
		for j, how := range []string{"construction", "UpdateTuningOptions", "UpdateExportOptions"} {
			if evid.Tier() == "quick" && i != 1 && (i+j)%3 != 0 {
				continue // quick: every size once, rotating through the three ways of setting it; the default all three ways
			}
			vfC23Run(rec, ts, how)
		}
		// the size changes at runtime while the client's connection is already open: what FSINFO
		// says on that connection afterwards must be accepted on that connection
		if evid.Tier() != "quick" || i%2 == 0 {
			vfC23Run(rec, ts, []string{"live:UpdateTuningOptions", "live:UpdateExportOptions"}[i%2])
		}
	}
}

func vfC23Run(rec *evid.Rec, ts int, how string) {
	fs := refs.New()
	fs.MaxSize = 8 << 20
	fs.PlantFile("/big", make([]byte, 3<<20), 0666, 0, 0)
	fs.PlantFile("/w", nil, 0666, 0, 0)
	opts := ExportOptions{AttrCacheTimeout: 1}
	if how == "construction" {
		opts.TransferSize = ts
	}
	srv, err := vfNewSrv(fs, opts)
	if err != nil {
		rec.Infra(err.Error())
		return
	}
	defer srv.Close()
	eff := ts
	if ts == 0 {
		eff = 65536
	}
	applyLive := func() bool { return true }
	rt := eff // what is written at runtime: for the default case a literal 0 ("give me the default")
	if ts == 0 {
		rt = 0
	}
	switch how {
	case "UpdateTuningOptions":
		srv.nfs.UpdateTuningOptions(func(t *TuningOptions) { t.TransferSize = rt })
	case "UpdateExportOptions":
		eo := srv.nfs.GetExportOptions()
		eo.TransferSize = rt
		if err := srv.nfs.UpdateExportOptions(eo); err != nil {
			rec.Infra(err.Error())
			return
		}
	case "live:UpdateTuningOptions", "live:UpdateExportOptions":
		// start from a different size (small if the target is large and the other way round)
		start := 4096
		if eff <= 8192 {
			start = 262144
		}
		srv.nfs.UpdateTuningOptions(func(t *TuningOptions) { t.TransferSize = start })
		applyLive = func() bool {
			if how == "live:UpdateTuningOptions" {
				srv.nfs.UpdateTuningOptions(func(t *TuningOptions) { t.TransferSize = eff })
				return true
			}
			eo := srv.nfs.GetExportOptions()
			eo.TransferSize = eff
			return srv.nfs.UpdateExportOptions(eo) == nil
		}
	}
	if err := srv.srv.Listen(); err != nil {
		rec.Infra(err.Error())
		return
	}
	defer srv.srv.Stop()
	port := srv.srv.GetPort()
	desc := fmt.Sprintf("TransferSize=%d set via %s", eff, how)
	evid.Journal(desc)
	conn, err := vfDialRM(port)
	if err != nil {
		rec.Inconclusive(1)
		return
	}
	reconnect := func() bool {
		conn.c.Close()
		conn, err = vfDialRM(port)
		return err == nil
	}
	raw, closed, err := conn.call(vfProgMount, 1, (&xdrw.W{}).Str("/").B)
	if err != nil || closed {
		rec.Inconclusive(1)
		return
	}
	rep, _ := rfc.DecodeReply(raw)
	m, _ := rfc.DecodeMount(1, rep.Body)
	root := vfFH(m.FH)
	look := func(n string) uint64 {
		r, _, _ := conn.nfs(3, xdrw.ArgDirop(root, n))
		if r == nil || r.Status != 0 {
			return 0
		}
		return vfFH(r.FH)
	}
	big, w := look("big"), look("w")
	if strings.HasPrefix(how, "live:") {
		// one request of each kind under the old size, then the change, on the open connection
		conn.nfs(19, xdrw.ArgFH(root))
		conn.nfs(7, xdrw.ArgWrite(w, 0, 16, 2, make([]byte, 16)))
		if !applyLive() {
			rec.Infra("live update refused")
			return
		}
	}
	fi, _, err := conn.nfs(19, xdrw.ArgFH(root))
	if err != nil || fi == nil || fi.Status != 0 {
		rec.Infra(fmt.Sprintf("FSINFO: %v", err))
		return
	}
	f := fi.Fsinfo
	rec.Eval(1)
	if f.Rtpref > f.Rtmax {
		rec.Violate("C23/rtpref-exceeds-rtmax", fmt.Sprintf("%d > %d [%s]", f.Rtpref, f.Rtmax, desc), nil)
	}
	if f.Wtpref > f.Wtmax {
		rec.Violate("C23/wtpref-exceeds-wtmax", fmt.Sprintf("%d > %d [%s]", f.Wtpref, f.Wtmax, desc), nil)
	}
	counts := func(pref, max uint32) []uint32 {
		c := []uint32{1, pref, max - 1, max, uint32(eff), uint32(eff) + 1}
		var out []uint32
		for _, v := range c {
			if v >= 1 && v <= max {
				out = append(out, v)
			}
		}
		return out
	}
	cls := func(c, pref, max uint32) string {
		switch {
		case c == max:
			return "max"
		case c == max-1:
			return "max-1"
		case c == pref:
			return "pref"
		case c > uint32(eff):
			return ">transfer-size"
		}
		return "small"
	}
	type wcase struct {
		cnt  uint32
		frag int
	}
	var wcases []wcase
	for _, cnt := range counts(f.Wtpref, f.Wtmax) {
		wcases = append(wcases, wcase{cnt, 0})
		if cnt == f.Wtmax || cnt == f.Wtpref {
			for _, fr := range []int{65536, 4096, 512} {
				if int(cnt) > fr {
					wcases = append(wcases, wcase{cnt, fr})
				}
			}
		}
	}
	for _, wc := range wcases {
		cnt := wc.cnt
		data := make([]byte, cnt)
		for i := range data {
			data[i] = byte(i)
		}
		rec.Eval(1)
		conn.frag = wc.frag
		r, closed, err := conn.nfs(7, xdrw.ArgWrite(w, 0, cnt, 2, data))
		conn.frag = 0
		wdesc, fsig := desc, ""
		if wc.frag > 0 {
			wdesc = fmt.Sprintf("%s, record cut into %d-byte fragments", desc, wc.frag)
			fsig = "/fragmented-record"
		}
		out := "ok"
		switch {
		case err != nil:
			rec.Inconclusive(1)
			out = "error"
			reconnect()
		case closed:
			out = "connection-dropped"
			rec.Violate("C23/write-within-wtmax-drops-connection"+fsig, fmt.Sprintf("WRITE count=%d <= wtmax=%d: the server closed the connection [%s]", cnt, f.Wtmax, wdesc), nil)
			if !reconnect() {
				return
			}
		case r.Status == 22:
			out = "INVAL"
			rec.Violate("C23/write-within-wtmax-refused-as-invalid"+fsig, fmt.Sprintf("WRITE count=%d <= wtmax=%d answered NFS3ERR_INVAL [%s]", cnt, f.Wtmax, wdesc), nil)
		case r.Status != 0:
			out = fmt.Sprintf("status=%d", r.Status)
			rec.Violate("C23/write-within-wtmax-failed"+fsig, fmt.Sprintf("WRITE count=%d <= wtmax=%d answered status %d [%s]", cnt, f.Wtmax, r.Status, wdesc), nil)
		case r.Count == 0:
			out = "ok-zero"
			rec.Violate("C23/write-within-wtmax-stored-nothing"+fsig, fmt.Sprintf("WRITE count=%d answered OK with count 0 [%s]", cnt, wdesc), nil)
		}
		rec.Distinct(fmt.Sprintf("ts=%d|%s|WRITE|%s|frag=%d|%s", eff, how, cls(cnt, f.Wtpref, f.Wtmax), wc.frag, out))
	}
	for _, cnt := range counts(f.Rtpref, f.Rtmax) {
		rec.Eval(1)
		r, closed, err := conn.nfs(6, xdrw.ArgRead(big, 0, cnt))
		out := "ok"
		switch {
		case err != nil:
			rec.Inconclusive(1)
			out = "error"
			reconnect()
		case closed:
			out = "connection-dropped"
			rec.Violate("C23/read-within-rtmax-drops-connection", fmt.Sprintf("READ count=%d <= rtmax=%d [%s]", cnt, f.Rtmax, desc), nil)
			if !reconnect() {
				return
			}
		case r.Status != 0:
			out = fmt.Sprintf("status=%d", r.Status)
			rec.Violate("C23/read-within-rtmax-failed", fmt.Sprintf("READ count=%d <= rtmax=%d answered status %d [%s]", cnt, f.Rtmax, r.Status, desc), nil)
		case r.Count == 0:
			out = "ok-zero"
			rec.Violate("C23/read-before-eof-returned-nothing", fmt.Sprintf("READ count=%d at offset 0 of a 3 MiB file returned 0 bytes [%s]", cnt, desc), nil)
		}
		rec.Distinct(fmt.Sprintf("ts=%d|%s|READ|%s|%s", eff, how, cls(cnt, f.Rtpref, f.Rtmax), out))
	}
	conn.c.Close()
	rec.Sample(map[string]any{"config": desc, "fsinfo": map[string]uint32{"rtmax": f.Rtmax, "rtpref": f.Rtpref, "wtmax": f.Wtmax, "wtpref": f.Wtpref}})
}
