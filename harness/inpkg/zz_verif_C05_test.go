//go:build verif

package absnfs

import (
	"fmt"
	"sort"
	"testing"
	"time"

	"verif.local/lib/evid"
	"verif.local/lib/refs"
	"verif.local/lib/xdrw"
)

// C05: handles are live when issued, one per path, table bounded.
// C06: a handle value never silently refers to a different object.
// Oracle: ghost tables. issued[id] = path the value currently stands for
// according to the table; first[id] = path the value was first given out for
// (never forgotten).

func TestVerif_C05(t *testing.T) {
	rec := evid.New("C05")
	rec.Rule = "direct FileHandleMap histories (Allocate/Get/Release/ReleaseAll) for max in {1,2,3,5,10,64} with path pools 1-20x max, plus handler-level histories (MNT/LOOKUP/CREATE/MKDIR/SYMLINK/READDIRPLUS) with a small handle limit, and one name given to a file, a directory and a symlink in turn (every returned handle used at once for something only that kind can do); distinct = (layer, max, step kind, table state class) tuples"
	defer rec.Write()
	hist := evid.Pick(600, 20000)
	for ep := 0; ep < hist && rec.Violations() < 30; ep++ {
		vfC05Direct(rec, ep)
	}
	hh := evid.Pick(60, 2000)
	for ep := 0; ep < hh && rec.Violations() < 30; ep++ {
		vfC05Handlers(rec, ep)
	}
	for ep := 0; ep < evid.Pick(48, 1600) && rec.Violations() < 30; ep++ {
		vfC05NameReuse(rec, ep)
	}
	vfC05MntSpellings(rec)
	vfC05ListingAtLimit(rec)
}

// vfC05MntSpellings: MNT is the one procedure that takes a free-form path. While the handle of a
// directory is live, mounting that directory under any spelling of its path (trailing slash,
// doubled slashes, "." and ".." components) must return the same handle value, and the table must
// hold one entry for it.
func vfC05MntSpellings(rec *evid.Rec) {
	fs := refs.New()
	fs.PlantDir("/export", 0755, 0, 0)
	fs.PlantDir("/export/data", 0755, 0, 0)
	fs.PlantDir("/export/other", 0755, 0, 0)
	srv, err := vfNewSrv(fs, ExportOptions{AttrCacheTimeout: 1})
	if err != nil {
		rec.Infra(err.Error())
		return
	}
	defer srv.Close()
	c := srv.client()
	for _, first := range []string{"MNT", "LOOKUP"} {
		var h uint64
		if first == "MNT" {
			h, err = c.mnt("/export/data")
		} else {
			var root uint64
			root, err = c.mnt("/")
			if err == nil {
				if l, _ := c.lookup(root, "export"); l != nil && l.Status == 0 {
					if l2, _ := c.lookup(vfFH(l.FH), "data"); l2 != nil && l2.Status == 0 {
						h = vfFH(l2.FH)
					}
				}
			}
		}
		if err != nil || h == 0 {
			rec.Infra("mnt/lookup of /export/data")
			return
		}
		before := srv.nfs.fileMap.Count()
		for _, sp := range []string{"/export/data", "/export/data/", "//export/data", "/export//data", "/export/./data", "/export/data/.", "/export/other/../data", "/./export/data", "/export/data//"} {
			rec.Eval(1)
			h2, merr := c.mnt(sp)
			if merr != nil {
				rec.Distinct("mnt-spelling|refused")
				continue // refusing an odd spelling is fine
			}
			if h2 != h {
				rec.Violate("C05/two-live-values-for-one-path/MNT-spelling", fmt.Sprintf("/export/data has the live handle %d (from %s); MNT %q returned %d", h, first, sp, h2), map[string]any{"spelling": sp, "first": first})
			}
			rec.Distinct(fmt.Sprintf("mnt-spelling|first=%s|same-value=%v", first, h2 == h))
		}
		if after := srv.nfs.fileMap.Count(); after != before {
			rec.Violate("C05/two-live-values-for-one-path/MNT-spelling/table-grew", fmt.Sprintf("mounting one directory under 9 spellings of its path grew the handle table from %d to %d entries", before, after), nil)
		}
		srv.nfs.fileMap.ReleaseAll()
	}
}

func vfC05Direct(rec *evid.Rec, ep int) {
	rng := evid.Rng(5, int64(ep))
	maxes := []int{1, 2, 3, 5, 10, 64}
	max := maxes[rng.Intn(len(maxes))]
	pool := max * (1 + rng.Intn(20))
	fs := refs.New()
	fm := vfNewFileMap(max)
	var ops []string
	fail := func(sig, what string) {
		rec.Violate(sig, fmt.Sprintf("%s [max=%d pool=%d]", what, max, pool), map[string]any{"episode": ep, "max": max, "pool": pool, "ops": append([]string(nil), ops...)})
	}
	live := map[uint64]string{} // ids we believe live -> path
	steps := 200
	for i := 0; i < steps; i++ {
		switch k := rng.Intn(100); {
		case k < 75:
			p := fmt.Sprintf("/p%d", rng.Intn(pool))
			ops = append(ops, "Allocate "+p)
			rec.Eval(1)
			id := fm.Allocate(vfNode(fs, p))
			// live when issued
			f, ok := fm.Get(id)
			gp, _ := "", false
			if ok {
				gp, _ = vfNodePath(f)
			}
			state := "fresh"
			if !ok {
				state = "dead"
				fail("C05/issued-handle-dead", fmt.Sprintf("Allocate(%s) returned %d which Get does not resolve", p, id))
			} else if gp != p {
				state = "wrong"
				fail("C05/issued-handle-resolves-elsewhere", fmt.Sprintf("Allocate(%s) returned %d resolving to %s", p, id, gp))
			}
			// one per path: every other live id must not resolve to p
			tbl, rev := vfHandleTable(fm)
			n := 0
			for _, tp := range tbl {
				if tp == p {
					n++
				}
			}
			if n > 1 {
				fail("C05/two-live-handles-for-one-path", fmt.Sprintf("%d live handles for %s", n, p))
			}
			// reissue stability: if we believed an id live for p and it is still live, it must be the one returned
			for oid, op := range live {
				if op == p && oid != id {
					if tp, still := tbl[oid]; still && tp == p {
						fail("C05/reissue-different-value-while-live", fmt.Sprintf("path %s had live handle %d, reissue returned %d", p, oid, id))
					}
				}
			}
			if len(tbl) > max {
				fail("C05/table-exceeds-maximum", fmt.Sprintf("Count %d > max %d", len(tbl), max))
			}
			for rp, rid := range rev {
				if tbl[rid] != rp {
					fail("C05/reverse-map-inconsistent", fmt.Sprintf("pathHandles[%s]=%d but handles[%d]=%q", rp, rid, rid, tbl[rid]))
					break
				}
			}
			// two live values must never name... and one value must never be issued while it is live for another path
			for oid, op := range live {
				if oid == id && op != p {
					fail("C05/live-value-issued-again-for-other-path", fmt.Sprintf("value %d is live for %s and was returned by Allocate(%s)", id, op, p))
				}
			}
			live = tbl
			rec.Distinct(fmt.Sprintf("direct|max=%d|alloc|%s|full=%v", max, state, len(tbl) >= max))
		case k < 90:
			if len(live) == 0 {
				continue
			}
			var id uint64
			for id = range live {
				break
			}
			ops = append(ops, fmt.Sprintf("Release %d", id))
			fm.Release(id)
			if _, ok := fm.Get(id); ok {
				fail("C05/released-handle-still-live", fmt.Sprintf("%d", id))
			}
			delete(live, id)
			rec.Distinct(fmt.Sprintf("direct|max=%d|release", max))
		case k < 92:
			// a redundant release: a value released before, or one never issued
			id := uint64(1 + rng.Intn(3*max+3))
			if _, isLive := live[id]; isLive {
				continue
			}
			ops = append(ops, fmt.Sprintf("Release %d (not live)", id))
			fm.Release(id)
			rec.Distinct(fmt.Sprintf("direct|max=%d|redundant-release", max))
		case k < 94:
			ops = append(ops, "ReleaseAll")
			fm.ReleaseAll()
			if fm.Count() != 0 {
				fail("C05/releaseall-left-handles", fmt.Sprintf("Count=%d", fm.Count()))
			}
			live = map[uint64]string{}
			rec.Distinct(fmt.Sprintf("direct|max=%d|releaseall", max))
		default:
			if fm.Count() > max {
				fail("C05/table-exceeds-maximum", fmt.Sprintf("Count %d > max %d", fm.Count(), max))
			}
		}
	}
	if ep == 0 {
		rec.Sample(map[string]any{"max": max, "pool": pool, "ops": ops[:min64i(len(ops), 40)]})
	}
}

// vfC05Handlers drives MNT/LOOKUP/CREATE/MKDIR/SYMLINK/READDIRPLUS with a small
// handle limit and uses each returned handle at once.
func vfC05Handlers(rec *evid.Rec, ep int) {
	rng := evid.Rng(55, int64(ep))
	max := []int{2, 3, 5, 10}[rng.Intn(4)]
	fs := refs.New()
	nfiles := 3 + rng.Intn(3*max)
	for i := 0; i < nfiles; i++ {
		fs.PlantFile(fmt.Sprintf("/e%02d", i), []byte{byte(i)}, 0644, 0, 0)
	}
	srv, err := vfNewSrv(fs, ExportOptions{AttrCacheTimeout: 1})
	if err != nil {
		rec.Infra(err.Error())
		return
	}
	defer srv.Close()
	vfSetMaxHandles(srv.nfs, max)
	c := srv.client()
	var ops []string
	fail := func(sig, what string) {
		rec.Violate(sig, fmt.Sprintf("%s [max=%d files=%d]", what, max, nfiles), map[string]any{"episode": ep, "max": max, "ops": append([]string(nil), ops...)})
	}
	// useNow checks that handle h names path p right now (GETATTR of the backend object).
	useNow := func(proc string, h uint64, p string) {
		rec.Eval(1)
		r, err := c.getattr(h)
		e, _ := fs.Peek(p)
		switch {
		case err != nil || r == nil:
			fail("C05/handler/no-reply", fmt.Sprintf("%v", err))
		case r.Status != 0:
			fail("C05/handler/issued-handle-dead/proc="+proc, fmt.Sprintf("%s returned handle %d for %s; the immediately following GETATTR answered status %d", proc, h, p, r.Status))
		case (e.Kind == refs.KDir) != (r.Attr.Type == 2) || (e.Kind == refs.KFile && r.Attr.Size != uint64(e.Size)):
			fail("C05/handler/issued-handle-names-other-object/proc="+proc, fmt.Sprintf("%s handle %d for %s shows type %d size %d", proc, h, p, r.Attr.Type, r.Attr.Size))
		}
		if cnt := srv.nfs.fileMap.Count(); cnt > max {
			fail("C05/table-exceeds-maximum", fmt.Sprintf("Count %d > max %d after %s", cnt, max, proc))
		}
		rec.Distinct(fmt.Sprintf("handler|max=%d|%s", max, proc))
	}
	root, err := c.mnt("/")
	ops = append(ops, "MNT /")
	if err != nil {
		fail("C05/handler/mnt-failed", err.Error())
		return
	}
	useNow("MNT", root, "/")
	for i := 0; i < 30; i++ {
		// the root handle may have been evicted by now - and its value may even have been
		// reissued for another directory (C06's finding) - so it is obtained afresh every time
		nr, err := c.mnt("/")
		if err != nil {
			return
		}
		if nr != root {
			ops = append(ops, "MNT / (again)")
			root = nr
			useNow("MNT", root, "/")
		}
		switch rng.Intn(5) {
		case 0:
			name := fmt.Sprintf("e%02d", rng.Intn(nfiles))
			ops = append(ops, "LOOKUP "+name)
			r, err := c.lookup(root, name)
			if err == nil && r != nil && r.Status == 0 {
				useNow("LOOKUP", vfFH(r.FH), "/"+name)
			}
		case 1:
			name := fmt.Sprintf("n%02d", i)
			ops = append(ops, "CREATE "+name)
			r, err := c.create(root, name, 1, sattrNone, [8]byte{})
			if err == nil && r != nil && r.Status == 0 && r.FHPresent {
				useNow("CREATE", vfFH(r.FH), "/"+name)
			}
		case 2:
			name := fmt.Sprintf("d%02d", i)
			ops = append(ops, "MKDIR "+name)
			r, err := c.mkdir(root, name, sattrNone)
			if err == nil && r != nil && r.Status == 0 && r.FHPresent {
				useNow("MKDIR", vfFH(r.FH), "/"+name)
			}
		case 3:
			name := fmt.Sprintf("s%02d", i)
			ops = append(ops, "SYMLINK "+name)
			r, err := c.symlink(root, name, "e00", sattrNone)
			if err == nil && r != nil && r.Status == 0 && r.FHPresent {
				rec.Eval(1)
				g, _ := c.getattr(vfFH(r.FH))
				if g == nil || g.Status != 0 {
					fail("C05/handler/issued-handle-dead/proc=SYMLINK", fmt.Sprintf("status %+v", g))
				} else if g.Attr.Type != 5 {
					fail("C05/handler/issued-handle-names-other-object/proc=SYMLINK", fmt.Sprintf("type %d", g.Attr.Type))
				}
				rec.Distinct(fmt.Sprintf("handler|max=%d|SYMLINK", max))
			}
		case 4:
			ops = append(ops, "READDIRPLUS /")
			r, err := c.readdirplus(root, 0, 8192, 32768)
			if err == nil && r != nil && r.Status == 0 && len(r.Entries) > 0 {
				// only the most recently issued handle is required to be live
				last := r.Entries[len(r.Entries)-1]
				if last.FHPresent {
					useNow("READDIRPLUS", vfFH(last.FH), "/"+last.Name)
				}
			}
		}
	}
}

func TestVerif_C06(t *testing.T) {
	rec := evid.New("C06")
	rec.Rule = "a client keeps every handle value it ever received and replays old ones across eviction storms, Release, ReleaseAll and Unexport/Export; distinct = (layer, trigger, outcome) tuples"
	defer rec.Write()
	hist := evid.Pick(400, 15000)
	for ep := 0; ep < hist && rec.Violations() < 30; ep++ {
		vfC06Direct(rec, ep)
	}
	hh := evid.Pick(60, 2000)
	for ep := 0; ep < hh && rec.Violations() < 30; ep++ {
		vfC06Handlers(rec, ep)
	}
	for ep := 0; ep < evid.Pick(40, 1500) && rec.Violations() < 30; ep++ {
		vfC06NoEviction(rec, ep)
	}
	vfC06ListingPages(rec)
	rec.Sample(map[string]any{"direct": "Allocate/Get/Release/ReleaseAll histories; every value ever returned is kept and replayed", "handlers": "LOOKUP of 2*max files, READ through every old value, Unexport/Export, Release", "max_values": []int{1, 2, 3, 5, 10, 64}})
}

func vfC06Direct(rec *evid.Rec, ep int) {
	rng := evid.Rng(6, int64(ep))
	max := []int{1, 2, 3, 5, 10, 64}[rng.Intn(6)]
	pool := max * (2 + rng.Intn(10))
	fs := refs.New()
	fm := vfNewFileMap(max)
	first := map[uint64]string{}
	reissued := map[uint64]bool{} // values the table handed out again for another path
	// The recorded finding is reuse of ids freed one at a time (Release, eviction: the min-heap
	// free list). ReleaseAll empties the free list and keeps counting, so a value issued before
	// a ReleaseAll can only come back if the numbering itself was reset - a different failure.
	issuedIn := map[uint64]int{} // value -> ReleaseAll epoch of its latest issue
	epoch := 0
	var ops []string
	lastTrigger := "none"
	for i := 0; i < 200; i++ {
		switch k := rng.Intn(100); {
		case k < 60:
			p := fmt.Sprintf("/p%d", rng.Intn(pool))
			ops = append(ops, "Allocate "+p)
			liveBefore, _ := vfHandleTable(fm)
			id := fm.Allocate(vfNode(fs, p))
			if fm.Count() >= max {
				lastTrigger = "eviction"
			}
			if other, live := liveBefore[id]; live && other != p {
				rec.Violate("C06/live-value-issued-for-another-path", fmt.Sprintf("handle value %d is live for %s and was issued again for %s [max=%d]", id, other, p, max),
					map[string]any{"episode": ep, "max": max, "ops": append([]string(nil), ops...)})
			} else if fp, seen := first[id]; seen && fp != p {
				reissued[id] = true
				sig := "C06/freed-value-reissued-for-another-path"
				if issuedIn[id] < epoch {
					sig = "C06/value-issued-before-ReleaseAll-issued-again-for-another-path"
				}
				rec.Violate(sig,
					fmt.Sprintf("handle value %d was first issued for %s and is now issued for %s [max=%d]", id, fp, p, max),
					map[string]any{"episode": ep, "max": max, "ops": append([]string(nil), ops...)})
			} else if !seen {
				first[id] = p
			}
			issuedIn[id] = epoch
			rec.Eval(1)
			rec.Distinct(fmt.Sprintf("direct|alloc|after=%s", lastTrigger))
		case k < 85: // replay an old value
			if len(first) == 0 {
				continue
			}
			ids := make([]uint64, 0, len(first))
			for id := range first {
				ids = append(ids, id)
			}
			id := ids[rng.Intn(len(ids))]
			rec.Eval(1)
			if f, ok := fm.Get(id); ok {
				if gp, _ := vfNodePath(f); gp != first[id] {
					rec.Violate("C06/old-value-resolves-to-other-path/"+map[bool]string{true: "via-reissued-value", false: "without-reissue"}[reissued[id]],
						fmt.Sprintf("handle value %d first issued for %s now resolves to %s [max=%d]", id, first[id], gp, max),
						map[string]any{"episode": ep, "max": max, "ops": append([]string(nil), ops...)})
				}
				rec.Distinct("direct|replay|live")
			} else {
				rec.Distinct("direct|replay|stale")
			}
		case k < 93:
			tbl, _ := vfHandleTable(fm)
			for id := range tbl {
				ops = append(ops, fmt.Sprintf("Release %d", id))
				fm.Release(id)
				lastTrigger = "release"
				if rng.Intn(3) == 0 { // released twice
					ops = append(ops, fmt.Sprintf("Release %d (again)", id))
					fm.Release(id)
				}
				break
			}
		case k < 96:
			tbl, _ := vfHandleTable(fm)
			id := uint64(1 + rng.Intn(3*max+3))
			if _, isLive := tbl[id]; !isLive {
				ops = append(ops, fmt.Sprintf("Release %d (not live)", id))
				fm.Release(id)
			}
		default:
			ops = append(ops, "ReleaseAll")
			fm.ReleaseAll()
			epoch++
			lastTrigger = "releaseall"
		}
	}
}

func vfC06Handlers(rec *evid.Rec, ep int) {
	rng := evid.Rng(66, int64(ep))
	max := []int{3, 5, 10}[rng.Intn(3)]
	fs := refs.New()
	nfiles := 2 * max
	for i := 0; i < nfiles; i++ {
		fs.PlantFile(fmt.Sprintf("/e%02d", i), []byte(fmt.Sprintf("content-of-e%02d", i)), 0644, 0, 0)
	}
	srv, err := vfNewSrv(fs, ExportOptions{AttrCacheTimeout: 1})
	if err != nil {
		rec.Infra(err.Error())
		return
	}
	defer srv.Close()
	vfSetMaxHandles(srv.nfs, max)
	c := srv.client()
	first := map[uint64]string{}
	reissued := map[uint64]bool{}
	var ops []string
	lastTrigger := "none"
	via := func(id uint64) string {
		// a value that the table holds for another path now was necessarily handed out again
		if tbl, _ := vfHandleTable(srv.nfs.fileMap); reissued[id] || (tbl[id] != "" && tbl[id] != first[id]) {
			return "via-reissued-value"
		}
		return "without-reissue"
	}
	issuedIn := map[uint64]int{} // value -> Unexport epoch of its latest issue (see vfC06Direct)
	epoch := 0
	note := func(h uint64, p string) {
		if fp, seen := first[h]; seen && fp != p {
			reissued[h] = true
			sig := "C06/handler/freed-value-reissued-for-another-path"
			if issuedIn[h] < epoch {
				sig = "C06/handler/value-issued-before-Unexport-issued-again-for-another-path"
			}
			rec.Violate(sig,
				fmt.Sprintf("handle value %d was first issued for %s and is now issued for %s [max=%d]", h, fp, p, max),
				map[string]any{"episode": ep, "max": max, "ops": append([]string(nil), ops...)})
		} else if !seen {
			first[h] = p
		}
		issuedIn[h] = epoch
	}
	root, err := c.mnt("/")
	if err != nil {
		return
	}
	note(root, "/")
	for i := 0; i < 60; i++ {
		switch k := rng.Intn(100); {
		case k < 45:
			if r, _ := c.getattr(root); r == nil || r.Status != 0 {
				root, err = c.mnt("/")
				if err != nil {
					return
				}
				note(root, "/")
			}
			name := fmt.Sprintf("e%02d", rng.Intn(nfiles))
			ops = append(ops, "LOOKUP "+name)
			r, err := c.lookup(root, name)
			if err == nil && r != nil && r.Status == 0 {
				note(vfFH(r.FH), "/"+name)
				if srv.nfs.fileMap.Count() >= max {
					lastTrigger = "eviction"
				}
			}
			rec.Eval(1)
		case k < 90: // replay an old value with READ: must be STALE/BADHANDLE or that file's own bytes
			if len(first) == 0 {
				continue
			}
			ids := make([]uint64, 0, len(first))
			for id := range first {
				ids = append(ids, id)
			}
			id := ids[rng.Intn(len(ids))]
			p := first[id]
			if p == "/" {
				continue
			}
			ops = append(ops, fmt.Sprintf("READ handle=%d (first issued for %s)", id, p))
			lo := fs.LogLen()
			rec.Eval(1)
			r, err := c.read(id, 0, 100)
			if err != nil || r == nil {
				continue
			}
			for _, op := range fs.LogSlice(lo, fs.LogLen()) {
				if op.Path != p {
					rec.Violate("C06/handler/request-served-against-other-path/"+via(id),
						fmt.Sprintf("READ with handle %d (issued for %s) made the backend touch %s [max=%d]", id, p, op.Path, max),
						map[string]any{"episode": ep, "max": max, "ops": append([]string(nil), ops...)})
					break
				}
			}
			if r.Status == 0 {
				want, _ := fs.Bytes(p)
				if string(r.Data) != string(want) {
					rec.Violate("C06/handler/other-objects-data-returned/"+via(id),
						fmt.Sprintf("READ with handle %d (issued for %s) returned %q", id, p, r.Data),
						map[string]any{"episode": ep, "max": max, "ops": append([]string(nil), ops...)})
				}
				rec.Distinct("handler|replay|served|after=" + lastTrigger)
			} else if r.Status == 70 || r.Status == 10001 {
				rec.Distinct("handler|replay|stale|after=" + lastTrigger)
			} else {
				rec.Distinct(fmt.Sprintf("handler|replay|status=%d", r.Status))
			}
		case k < 95:
			ops = append(ops, "Unexport+Export")
			srv.nfs.Unexport()
			epoch++
			lastTrigger = "unexport"
			if rng.Intn(2) == 0 {
				if err := srv.nfs.Export("/", 0); err == nil {
					lastTrigger = "reexport"
				}
			}
		default:
			tbl, _ := vfHandleTable(srv.nfs.fileMap)
			for id := range tbl {
				ops = append(ops, fmt.Sprintf("Release %d", id))
				srv.nfs.fileMap.Release(id)
				lastTrigger = "release"
				break
			}
		}
	}
}

// vfC05NameReuse: one name is given to a file, a directory and a symbolic link in turn (the handle
// issued for the previous object is still live: REMOVE/RMDIR release nothing). The handle the
// creating procedure - or a LOOKUP right after it - returns must resolve to the object it names NOW:
// it is used at once for something only that kind of object can do.
func vfC05NameReuse(rec *evid.Rec, ep int) {
	rng := evid.Rng(555, int64(ep))
	fs := refs.New()
	fs.PlantFile("/target", []byte("t"), 0644, 0, 0)
	srv, err := vfNewSrv(fs, ExportOptions{AttrCacheTimeout: []time.Duration{1, 5 * time.Second}[ep%2], EnableDirCache: ep%4 >= 2, CacheNegativeLookups: ep%8 >= 4})
	if err != nil {
		rec.Infra(err.Error())
		return
	}
	defer srv.Close()
	c := srv.client()
	root, err := c.mnt("/")
	if err != nil {
		rec.Infra(err.Error())
		return
	}
	var ops []string
	fail := func(sig, what string) {
		rec.Violate(sig, what, map[string]any{"episode": ep, "ops": append([]string(nil), ops...)})
	}
	prev := "none"
	for i := 0; i < 8; i++ {
		kind := []string{"file", "dir", "symlink"}[rng.Intn(3)]
		viaLookup := rng.Intn(2) == 0
		var h uint64
		var st uint32 = 99
		switch kind {
		case "file":
			ops = append(ops, "CREATE x")
			if r, _ := c.create(root, "x", 1, sattrNone, [8]byte{}); r != nil {
				st = r.Status
				if r.FHPresent {
					h = vfFH(r.FH)
				}
			}
		case "dir":
			ops = append(ops, "MKDIR x")
			if r, _ := c.mkdir(root, "x", sattrNone); r != nil {
				st = r.Status
				if r.FHPresent {
					h = vfFH(r.FH)
				}
			}
		default:
			ops = append(ops, "SYMLINK x -> target")
			if r, _ := c.symlink(root, "x", "target", sattrNone); r != nil {
				st = r.Status
				if r.FHPresent {
					h = vfFH(r.FH)
				}
			}
		}
		if st != 0 {
			fail("C05/name-reuse/create-failed/kind="+kind, fmt.Sprintf("creating x as %s after it had been %s: status %d", kind, prev, st))
			return
		}
		src := "creating-procedure"
		if viaLookup || h == 0 {
			ops = append(ops, "LOOKUP x")
			l, _ := c.lookup(root, "x")
			if l == nil || l.Status != 0 {
				fail("C05/name-reuse/lookup-failed/kind="+kind, fmt.Sprintf("LOOKUP x right after creating it as %s (was %s): %+v", kind, prev, vfSt(l)))
				return
			}
			if h != 0 && vfFH(l.FH) != h {
				fail("C05/two-live-values-for-one-path", fmt.Sprintf("x: the creating procedure returned %d, the LOOKUP right after it %d", h, vfFH(l.FH)))
			}
			h, src = vfFH(l.FH), "LOOKUP"
		}
		rec.Eval(1)
		sig := fmt.Sprintf("C05/handler/issued-handle-names-other-object/name-reused/now=%s/was=%s", kind, prev)
		g, _ := c.getattr(h)
		wantT := map[string]uint32{"file": 1, "dir": 2, "symlink": 5}[kind]
		if g == nil || g.Status != 0 {
			fail("C05/handler/issued-handle-dead/name-reused", fmt.Sprintf("handle %d from %s for x (%s, was %s): GETATTR %+v", h, src, kind, prev, vfSt(g)))
		} else if g.Attr.Type != wantT {
			fail(sig, fmt.Sprintf("handle %d from %s for x: GETATTR says type %d, x is a %s now", h, src, g.Attr.Type, kind))
		}
		switch kind {
		case "dir":
			ops = append(ops, "LOOKUP x/absent", "CREATE x/child", "READDIR x")
			if l, _ := c.lookup(h, "absent"); l == nil || l.Status != 2 {
				fail(sig, fmt.Sprintf("handle %d from %s names the directory x, yet LOOKUP of an absent name through it answered status %d, want NOENT", h, src, vfSt(l)))
			}
			if cr, _ := c.create(h, "child", 1, sattrNone, [8]byte{}); cr == nil || cr.Status != 0 {
				fail(sig, fmt.Sprintf("handle %d from %s names the directory x, yet CREATE inside it answered status %d", h, src, vfSt(cr)))
			} else if l, _ := c.lookup(h, "child"); l == nil || l.Status != 0 {
				fail(sig, fmt.Sprintf("handle %d from %s names the directory x, yet LOOKUP of its child answered status %d", h, src, vfSt(l)))
			}
			if rd, _ := c.readdir(h, 0, 8192); rd == nil || rd.Status != 0 {
				fail(sig, fmt.Sprintf("handle %d from %s names the directory x, yet READDIR answered status %d", h, src, vfSt(rd)))
			}
			ops = append(ops, "REMOVE x/child", "RMDIR x")
			c.remove(h, "child")
			if r, _ := c.rmdir(root, "x"); r == nil || r.Status != 0 {
				fail("C05/name-reuse/rmdir-failed", fmt.Sprintf("RMDIR x (empty directory): status %d", vfSt(r)))
				return
			}
		case "file":
			ops = append(ops, "WRITE x", "READ x")
			if w, _ := c.write(h, 0, 2, []byte("data")); w == nil || w.Status != 0 {
				fail(sig, fmt.Sprintf("handle %d from %s names the regular file x, yet WRITE answered status %d", h, src, vfSt(w)))
			} else if r, _ := c.read(h, 0, 10); r == nil || r.Status != 0 || string(r.Data) != "data" {
				fail(sig, fmt.Sprintf("handle %d from %s names the regular file x, yet READ answered status %d data %q", h, src, vfSt(r), func() []byte {
					if r != nil {
						return r.Data
					}
					return nil
				}()))
			}
			ops = append(ops, "REMOVE x")
			if r, _ := c.remove(root, "x"); r == nil || r.Status != 0 {
				fail("C05/name-reuse/remove-failed", fmt.Sprintf("REMOVE x (file): status %d", vfSt(r)))
				return
			}
		default:
			ops = append(ops, "READLINK x")
			if r, _ := c.readlink(h); r == nil || r.Status != 0 || r.Link != "target" {
				fail(sig, fmt.Sprintf("handle %d from %s names the symbolic link x, yet READLINK answered status %d", h, src, vfSt(r)))
			}
			ops = append(ops, "REMOVE x")
			if r, _ := c.remove(root, "x"); r == nil || r.Status != 0 {
				fail("C05/name-reuse/remove-failed", fmt.Sprintf("REMOVE x (symlink): status %d", vfSt(r)))
				return
			}
		}
		rec.Distinct(fmt.Sprintf("handler|name-reuse|%s-after-%s|via=%s", kind, prev, src))
		prev = kind
	}
}

// vfC06NoEviction: the table is far from full and nobody calls Release, so nothing frees a handle
// value (the recorded finding - reuse of values freed by eviction or Release - cannot occur). Through
// ordinary traffic (LOOKUP, CREATE, REMOVE, RENAME, RMDIR, MNT, UMNT, READ) no value may ever be
// issued for a second path, and an old value is served against its own path or answered STALE.
func vfC06NoEviction(rec *evid.Rec, ep int) {
	rng := evid.Rng(666, int64(ep))
	fs := refs.New()
	fs.PlantDir("/dir", 0777, 0, 0)
	for i := 0; i < 6; i++ {
		fs.PlantFile(fmt.Sprintf("/dir/e%d", i), []byte(fmt.Sprintf("content-of-e%d", i)), 0666, 0, 0)
	}
	srv, err := vfNewSrv(fs, ExportOptions{AttrCacheTimeout: []time.Duration{1, 5 * time.Second}[ep%2]})
	if err != nil {
		rec.Infra(err.Error())
		return
	}
	defer srv.Close()
	c := srv.client()
	first := map[uint64]string{}
	var ops []string
	bad := func(sig, what string) {
		rec.Violate(sig, what, map[string]any{"episode": ep, "ops": append([]string(nil), ops...)})
	}
	note := func(h uint64, p, by string) {
		if h == 0 {
			return
		}
		if fp, seen := first[h]; seen && fp != p {
			bad("C06/handler/value-issued-for-a-second-path/no-eviction-no-release/by="+by, fmt.Sprintf("handle value %d was issued for %s and is now issued (by %s) for %s; the table holds %d of 100000 entries and nothing was released", h, fp, by, p, srv.nfs.fileMap.Count()))
		} else if !seen {
			first[h] = p
		}
	}
	mount := func() uint64 {
		h, err := c.mnt("/")
		if err != nil {
			return 0
		}
		note(h, "/", "MNT")
		return h
	}
	root := mount()
	dl, _ := c.lookup(root, "dir")
	if root == 0 || dl == nil || dl.Status != 0 {
		rec.Infra("setup")
		return
	}
	dir := vfFH(dl.FH)
	note(dir, "/dir", "LOOKUP")
	fresh := 0
	for i := 0; i < 50; i++ {
		rec.Eval(1)
		switch k := rng.Intn(100); {
		case k < 25:
			name := fmt.Sprintf("e%d", rng.Intn(6))
			ops = append(ops, "LOOKUP "+name)
			if r, _ := c.lookup(dir, name); r != nil && r.Status == 0 {
				note(vfFH(r.FH), "/dir/"+name, "LOOKUP")
			}
		case k < 40:
			fresh++
			name := fmt.Sprintf("n%d", fresh)
			ops = append(ops, "CREATE "+name)
			if r, _ := c.create(dir, name, 1, sattrNone, [8]byte{}); r != nil && r.Status == 0 && r.FHPresent {
				note(vfFH(r.FH), "/dir/"+name, "CREATE")
			}
		case k < 52:
			name := fmt.Sprintf("e%d", rng.Intn(6))
			ops = append(ops, "REMOVE "+name+" (then put back behind the server's back)")
			c.remove(dir, name)
			fs.PlantFile("/dir/"+name, []byte("content-of-"+name), 0666, 0, 0)
		case k < 60:
			ops = append(ops, "UMNT /")
			c.rawCall(vfProgMount, 3, 3, (&xdrw.W{}).Str("/").B)
		case k < 66:
			ops = append(ops, "MNT /")
			if h := mount(); h != 0 {
				root = h
			}
		case k < 74:
			fresh++
			a, b := fmt.Sprintf("e%d", rng.Intn(6)), fmt.Sprintf("m%d", fresh)
			ops = append(ops, "RENAME "+a+" -> "+b+" (and a new "+a+" planted)")
			c.rename(dir, a, dir, b)
			fs.PlantFile("/dir/"+a, []byte("content-of-"+a), 0666, 0, 0)
		case k < 80:
			fresh++
			name := fmt.Sprintf("d%d", fresh)
			ops = append(ops, "MKDIR+RMDIR "+name)
			if r, _ := c.mkdir(dir, name, sattrNone); r != nil && r.Status == 0 && r.FHPresent {
				note(vfFH(r.FH), "/dir/"+name, "MKDIR")
			}
			c.rmdir(dir, name)
		default: // replay an old value
			if len(first) == 0 {
				continue
			}
			ids := make([]uint64, 0, len(first))
			for id := range first {
				ids = append(ids, id)
			}
			sort.Slice(ids, func(a, b int) bool { return ids[a] < ids[b] })
			id := ids[rng.Intn(len(ids))]
			p := first[id]
			ops = append(ops, fmt.Sprintf("GETATTR+READ handle=%d (issued for %s)", id, p))
			lo := fs.LogLen()
			g, _ := c.getattr(id)
			r, _ := c.read(id, 0, 100)
			for _, op := range fs.LogSlice(lo, fs.LogLen()) {
				if op.Path != p {
					bad("C06/handler/request-served-against-other-path/no-eviction-no-release", fmt.Sprintf("a request with handle %d (issued for %s) made the backend touch %s", id, p, op.Path))
					break
				}
			}
			if r != nil && r.Status == 0 {
				if want, ok := fs.Bytes(p); !ok || string(r.Data) != string(want) {
					bad("C06/handler/other-objects-data-returned/no-eviction-no-release", fmt.Sprintf("READ with handle %d (issued for %s) returned %q", id, p, r.Data))
				}
			}
			_ = g
			rec.Distinct(fmt.Sprintf("no-eviction|replay|getattr=%d|read=%d", vfSt(g), vfSt(r)))
		}
	}
	rec.Distinct(fmt.Sprintf("no-eviction|values=%d", min64i(len(first)/5*5, 40)))
}

// vfC06ListingPages: a directory listed with READDIRPLUS over several pages; afterwards every
// (name, handle) pair the listing gave out is used. Nothing was released and the table holds a few
// dozen entries of its 100000, so each handle must still serve exactly the file it was given out for:
// READ through it returns that file's bytes. Also with a small attribute cache (the handle table is
// not bounded by it) and with the directory cache on.
func vfC06ListingPages(rec *evid.Rec) {
	for vi, o := range []ExportOptions{
		{AttrCacheTimeout: 1},
		{AttrCacheTimeout: 5 * time.Second, AttrCacheSize: 16},
		{AttrCacheTimeout: 5 * time.Second, AttrCacheSize: 16, EnableDirCache: true},
	} {
		for _, maxcount := range []uint32{1200, 2048, 65536} {
			fs := refs.New()
			fs.PlantDir("/big", 0777, 0, 0)
			const n = 40
			for i := 0; i < n; i++ {
				fs.PlantFile(fmt.Sprintf("/big/f%02d", i), []byte(fmt.Sprintf("content of f%02d", i)), 0666, 0, 0)
			}
			srv, err := vfNewSrv(fs, o)
			if err != nil {
				rec.Infra(err.Error())
				return
			}
			c := srv.client()
			root, _ := c.mnt("/")
			dl, _ := c.lookup(root, "big")
			if dl == nil || dl.Status != 0 {
				rec.Infra("lookup big")
				srv.Close()
				return
			}
			dh := vfFH(dl.FH)
			desc := map[string]any{"variant": vi, "maxcount": maxcount}
			pairs := map[string]uint64{}
			byHandle := map[uint64]string{root: "/", dh: "/big"}
			cookie, pages := uint64(0), 0
			for pages < 200 {
				r, _ := c.readdirplus(dh, cookie, maxcount, maxcount)
				if r == nil || r.Status != 0 || len(r.Entries) == 0 && !r.EOF {
					break
				}
				pages++
				for _, e := range r.Entries {
					cookie = e.Cookie
					if !e.FHPresent || e.Name == "." || e.Name == ".." {
						continue
					}
					h := vfFH(e.FH)
					if prev, dup := byHandle[h]; dup && prev != "/big/"+e.Name {
						rec.Violate("C06/handler/value-issued-for-a-second-path/no-eviction-no-release/by=READDIRPLUS-page", fmt.Sprintf("page %d of the listing gives handle %d for %s; the same value was given out for %s (table: %d entries)", pages, h, e.Name, prev, srv.nfs.fileMap.Count()), desc)
					}
					byHandle[h] = "/big/" + e.Name
					pairs[e.Name] = h
				}
				if r.EOF {
					break
				}
			}
			rec.Eval(len(pairs))
			wrong := 0
			for name, h := range pairs {
				rr, _ := c.read(h, 0, 64)
				want := "content of " + name
				if rr == nil || rr.Status != 0 || string(rr.Data) != want {
					wrong++
					if wrong == 1 {
						got := "no reply"
						if rr != nil {
							got = fmt.Sprintf("status %d %q", rr.Status, rr.Data)
						}
						rec.Violate("C06/handler/listing-handle-serves-another-object", fmt.Sprintf("READDIRPLUS (%d pages, maxcount %d) gave handle %d for %s; READ through it: %s, the file holds %q; nothing was released and the table holds %d entries", pages, maxcount, h, name, got, want, srv.nfs.fileMap.Count()), desc)
					}
				}
			}
			if g, _ := c.getattr(root); g == nil || g.Status != 0 || g.Attr.Type != 2 {
				rec.Violate("C06/handler/mount-handle-serves-another-object/after-a-listing", fmt.Sprintf("GETATTR through the mount handle after listing %d entries: %+v", len(pairs), g), desc)
			}
			rec.Distinct(fmt.Sprintf("listing-pages|variant=%d|maxcount=%d|pages=%d|pairs=%d|wrong=%d", vi, maxcount, pages, len(pairs), wrong))
			srv.Close()
		}
	}
}

// vfC05ListingAtLimit: the table is at its limit and ids are being recycled; a directory is listed
// with READDIRPLUS in pages cut short by maxcount. The handle of the LAST entry of every page is the
// most recently issued one (nothing was allocated after it that the client was told about), so it
// must resolve in the very next request - and, when the table has room for the whole page, so must
// every other handle of that page.
func vfC05ListingAtLimit(rec *evid.Rec) {
	for _, max := range []int{6, 10, 25} {
		for _, maxcount := range []uint32{700, 1300} {
			fs := refs.New()
			fs.PlantDir("/big", 0777, 0, 0)
			for i := 0; i < 40; i++ {
				fs.PlantFile(fmt.Sprintf("/big/f%02d", i), []byte("x"), 0666, 0, 0)
			}
			srv, err := vfNewSrv(fs, ExportOptions{AttrCacheTimeout: 1})
			if err != nil {
				rec.Infra(err.Error())
				return
			}
			vfSetMaxHandles(srv.nfs, max)
			c := srv.client()
			root, _ := c.mnt("/")
			dl, _ := c.lookup(root, "big")
			if dl == nil || dl.Status != 0 {
				rec.Infra("lookup big")
				srv.Close()
				return
			}
			cookie, pages, dead := uint64(0), 0, 0
			for pages < 100 {
				// the directory handle itself may have been pushed out by the previous page: ask again
				dl, _ = c.lookup(root, "big")
				if dl == nil || dl.Status != 0 {
					root, _ = c.mnt("/")
					dl, _ = c.lookup(root, "big")
					if dl == nil || dl.Status != 0 {
						break
					}
				}
				r, _ := c.readdirplus(vfFH(dl.FH), cookie, maxcount, maxcount)
				if r == nil || r.Status != 0 || len(r.Entries) == 0 {
					break
				}
				pages++
				var lastName string
				var lastH uint64
				for _, e := range r.Entries {
					cookie = e.Cookie
					if e.FHPresent && e.Name != "." && e.Name != ".." {
						lastName, lastH = e.Name, vfFH(e.FH)
					}
				}
				rec.Eval(1)
				if lastName != "" && !r.EOF {
					if g, _ := c.getattr(lastH); g == nil || g.Status != 0 {
						dead++
						rec.Violate("C05/handle-dead-in-the-next-request/issued-by=READDIRPLUS/last-entry-of-a-page-cut-short", fmt.Sprintf("table limit %d, page %d (maxcount %d, %d entries, more follow): GETATTR through the handle %d just returned for %q answers status %d", max, pages, maxcount, len(r.Entries), lastH, lastName, vfSt(g)), map[string]any{"max": max, "maxcount": maxcount})
					}
				}
				if r.EOF {
					break
				}
			}
			rec.Distinct(fmt.Sprintf("listing-at-limit|max=%d|maxcount=%d|pages=%d|dead=%d", max, maxcount, pages, dead))
			srv.Close()
		}
	}
}
