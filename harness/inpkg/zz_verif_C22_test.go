//go:build verif

package absnfs

import (
	"bytes"
	"fmt"
	"io"
	"log"
	"os"
	"sync"
	"sync/atomic"
	"syscall"
	"testing"
	"time"

	"verif.local/lib/evid"
	"verif.local/lib/refs"
	"verif.local/lib/xdrw"
)

// C22: data acknowledged as stable survives a crash.
// Oracle: refs crash mode. Acknowledgement happens at reply time and the
// durable state only changes at backend calls, so comparing the durable bytes
// with the acknowledged bytes after EVERY backend call enumerates every crash
// point of the history. Each history also ends with a real Crash(), a new
// server over the surviving state, and READs of the acknowledged ranges.

type vfAck struct {
	b []int16 // -1 unknown / not acknowledged, else the acknowledged byte value
}

func (a *vfAck) grow(n int) {
	for len(a.b) < n {
		a.b = append(a.b, -1)
	}
}

func TestVerif_C22(t *testing.T) {
	rec := evid.New("C22")
	rec.Rule = "write histories with every stable_how value, COMMITs over sub-ranges, overwrites and truncations; after every backend call (= every crash point) the durable bytes of the crash-simulating backend must contain every byte acknowledged by a FILE_SYNC reply or covered by a successful COMMIT returned before that point; each history ends with Crash(), a new server and READs; write verifier constant per instance and distinct across instances; distinct = (op, stable_how, committed, crash-point outcome) tuples"
	rec.Assumptions = []string{"namespace operations and truncation are durable when they return; file bytes are durable only after Sync on a handle of that file (refs crash model)"}
	defer rec.Write()
	eps := evid.Pick(100, 5000)
	crashPoints := 0
	for ep := 0; ep < eps && rec.Violations() < 10; ep++ {
		crashPoints += vfC22Episode(rec, ep)
	}
	rec.Set("crash_points_enumerated", crashPoints)
	// verifier uniqueness across instances created in a tight loop
	seen := map[[8]byte]int{}
	inst := evid.Pick(200, 2000)
	for i := 0; i < inst; i++ {
		fs := refs.New()
		fs.PlantFile("/f", nil, 0666, 0, 0)
		srv, err := vfNewSrv(fs, ExportOptions{})
		if err != nil {
			rec.Infra(err.Error())
			return
		}
		c := srv.client()
		root, _ := c.mnt("/")
		l, _ := c.lookup(root, "f")
		if l == nil || l.Status != 0 {
			srv.Close()
			continue
		}
		w, _ := c.write(vfFH(l.FH), 0, 2, []byte("v"))
		if w != nil && w.Status == 0 {
			if j, dup := seen[w.Verf]; dup {
				rec.Violate("C22/write-verifier-repeated-across-instances", fmt.Sprintf("instances %d and %d both use verifier %x", j, i, w.Verf), nil)
			}
			seen[w.Verf] = i
		}
		srv.Close()
	}
	rec.Eval(inst)
	rec.Distinct(fmt.Sprintf("verifier-instances|distinct=%v", len(seen) == inst))
	// an export that is BORN read-only and made writable at runtime still has a verifier that tells
	// its instances apart (through the quick-start path Export, which takes the read-only flag along)
	{
		var prev *[8]byte
		for round := 0; round < evid.Pick(3, 12); round++ {
			fs := refs.New()
			fs.PlantFile("/f", nil, 0666, 0, 0)
			n, err := New(fs, ExportOptions{ReadOnly: true})
			if err != nil {
				break
			}
			vfQuiet(n)
			if err := n.Export("/", 0); err != nil {
				n.Close()
				break
			}
			n.exportServer.logger.SetOutput(io.Discard)
			p := *n.policy.Load()
			p.ReadOnly = false
			n.UpdatePolicyOptions(p)
			sv := &vfSrv{fs: fs, bfs: fs, nfs: n, srv: n.exportServer, ph: &NFSProcedureHandler{server: n.exportServer}}
			c := sv.client()
			root, _ := c.mnt("/")
			l, _ := c.lookup(root, "f")
			if l != nil && l.Status == 0 {
				w, _ := c.write(vfFH(l.FH), 0, 2, []byte("v"))
				rec.Eval(1)
				if w != nil && w.Status == 0 {
					if prev != nil && *prev == w.Verf {
						rec.Violate("C22/write-verifier-repeated-across-instances/born-read-only", fmt.Sprintf("two successive exports created read-only and made writable at runtime both use verifier %x", w.Verf), nil)
					}
					v := w.Verf
					prev = &v
				}
			}
			n.Unexport()
			n.Close()
		}
		rec.Distinct("verifier-instances|born-read-only")
	}
	// two WRITEs to one file overlap: the one that is answered FILE_SYNC first has ITS bytes on
	// stable storage at that moment, whatever the other one is doing
	for ep := 0; ep < evid.Pick(6, 100); ep++ {
		fs := refs.New()
		fs.PlantFile("/f", make([]byte, 8192), 0666, 0, 0)
		srv, err := vfNewSrv(fs, ExportOptions{AttrCacheTimeout: 1})
		if err != nil {
			break
		}
		c := srv.client()
		root, _ := c.mnt("/")
		l, _ := c.lookup(root, "f")
		if l == nil || l.Status != 0 {
			srv.Close()
			break
		}
		fh := vfFH(l.FH)
		slowOff := int64(4096)
		parkAt := []string{"File.WriteAt", "File.Sync", "OpenFile"}[ep%3]
		parked, open := make(chan struct{}), make(chan struct{})
		var once sync.Once
		var slowStarted atomic.Bool
		fs.SetHook(func(op *refs.Op, ph refs.Phase) error {
			if ph == refs.Before && slowStarted.Load() && op.Name == parkAt && op.Path == "/f" && (op.Name != "File.WriteAt" || op.Off == slowOff) {
				first := false
				once.Do(func() { first = true })
				if first {
					close(parked)
					<-open
				}
			}
			return nil
		})
		slowDone := make(chan struct{})
		go func() {
			defer close(slowDone)
			slowStarted.Store(true)
			srv.client().write(fh, uint64(slowOff), 2, bytes.Repeat([]byte{0xBB}, 64))
		}()
		select {
		case <-parked:
		case <-time.After(20 * time.Second):
			rec.Inconclusive(1)
			close(open)
			srv.Close()
			continue
		}
		slowStarted.Store(false) // the hook leaves the fast WRITE alone
		fast := bytes.Repeat([]byte{0xAA}, 48)
		w, _ := c.write(fh, 0, 2, fast)
		rec.Eval(1)
		if w != nil && w.Status == 0 && w.Committed == 2 {
			d, _ := fs.DurableBytes("/f")
			if len(d) < int(w.Count) || !bytes.Equal(d[:w.Count], fast[:w.Count]) {
				rec.Violate("C22/acknowledged-data-not-durable/acknowledged-by=FILE_SYNC/while-another-write-to-the-file-is-in-flight", fmt.Sprintf("a WRITE at offset 0 was answered FILE_SYNC while another WRITE to the same file was parked at %s: its %d bytes are not in the durable state", parkAt, w.Count), nil)
			}
		}
		close(open)
		<-slowDone
		fs.SetHook(nil)
		rec.Distinct("overlapping-writes|parked-at=" + parkAt)
		srv.Close()
	}
	// successive SERVER instances over one and the same AbsfsNFS (Export -> Unexport -> Export, or a
	// new Server attached to the handler after the old one stopped): a restart the client must see
	{
		fs := refs.New()
		fs.PlantFile("/f", nil, 0666, 0, 0)
		n, err := New(fs, ExportOptions{})
		if err == nil {
			vfQuiet(n)
			var prev *[8]byte
			for round := 0; round < evid.Pick(6, 40); round++ {
				s, err := NewServer(ServerOptions{Hostname: "127.0.0.1", UseRecordMarking: true})
				if err != nil {
					break
				}
				s.logger = log.New(io.Discard, "", 0)
				s.SetHandler(n)
				sv := &vfSrv{fs: fs, bfs: fs, nfs: n, srv: s, ph: &NFSProcedureHandler{server: s}}
				c := sv.client()
				root, _ := c.mnt("/")
				l, _ := c.lookup(root, "f")
				if l == nil || l.Status != 0 {
					break
				}
				w, _ := c.write(vfFH(l.FH), 0, 2, []byte("v"))
				cm, _ := c.commit(vfFH(l.FH), 0, 0)
				rec.Eval(1)
				if w != nil && w.Status == 0 {
					if cm != nil && cm.Status == 0 && cm.Verf != w.Verf {
						rec.Violate("C22/write-verifier-changed-during-instance-life", fmt.Sprintf("server instance %d of one handler: WRITE %x, COMMIT %x", round, w.Verf, cm.Verf), nil)
					}
					if prev != nil && *prev == w.Verf {
						rec.Violate("C22/write-verifier-repeated-across-instances/same-handler", fmt.Sprintf("server instances %d and %d attached to the same AbsfsNFS both use verifier %x", round-1, round, w.Verf), nil)
					}
					v := w.Verf
					prev = &v
				}
				s.Stop()
			}
			rec.Distinct("verifier-instances|same-handler")
			n.Close()
		}
	}
}

type vfC22File struct {
	name  string
	fh    uint64
	ack   *vfAck  // bytes acknowledged as stable
	model []int16 // -1 = unknown (range of a failed WRITE), else last written value
}

func vfC22Episode(rec *evid.Rec, ep int) int {
	rng := evid.Rng(22, int64(ep))
	fs := refs.New()
	fs.PlantFile("/f", nil, 0666, 0, 0)
	fs.PlantFile("/g", nil, 0666, 0, 0)
	// every other episode on an export with the Async option set: whatever it makes the server do
	// with unstable writes, a reply that says FILE_SYNC/DATA_SYNC and a successful COMMIT mean durable
	srv, err := vfNewSrv(fs, ExportOptions{AttrCacheTimeout: 1, Async: ep%2 == 1})
	if err != nil {
		rec.Infra(err.Error())
		return 0
	}
	defer srv.Close()
	c := srv.client()
	root, _ := c.mnt("/")
	var files []*vfC22File
	for _, n := range []string{"f", "g"} {
		l, _ := c.lookup(root, n)
		if l == nil || l.Status != 0 {
			rec.Infra("lookup")
			return 0
		}
		files = append(files, &vfC22File{name: n, fh: vfFH(l.FH), ack: &vfAck{}})
	}
	// every third episode injects backend faults: a failing Sync / WriteAt / open must
	// never be answered with an acknowledgement the durable state does not back
	faulty := ep%3 == 2
	var ops []string
	points := 0
	var firstViolation string
	// the request currently in flight may already have replaced acknowledged
	// bytes in its own range (or cut the file): both old and new are fine there
	var flightFile *vfC22File
	var flightOff, flightTrunc = -1, -1
	var flightData []byte
	check := func(where string) {
		points++
		for _, f := range files {
			d, _ := fs.DurableBytes("/" + f.name)
			for i, v := range f.ack.b {
				if v < 0 {
					continue
				}
				if f == flightFile {
					if flightTrunc >= 0 && i >= flightTrunc {
						continue
					}
					if flightOff >= 0 && i >= flightOff && i < flightOff+len(flightData) && i < len(d) && d[i] == flightData[i-flightOff] {
						continue
					}
				}
				if i >= len(d) || int16(d[i]) != v {
					if firstViolation == "" {
						firstViolation = fmt.Sprintf("crash %s: byte %d of %s acknowledged as %d is %s in the durable state (durable size %d)", where, i, f.name, v, map[bool]string{true: "missing", false: "different"}[i >= len(d)], len(d))
					}
					return
				}
			}
		}
	}
	injected := 0
	fs.SetHook(func(op *refs.Op, ph refs.Phase) error {
		if ph == refs.After {
			check(fmt.Sprintf("after backend call %s(%s) #%d", op.Name, op.Path, op.Seq))
			return nil
		}
		if faulty {
			switch op.Name {
			case "File.Sync":
				if rng.Intn(3) == 0 {
					injected++
					return &os.PathError{Op: "sync", Path: op.Path, Err: syscall.EIO}
				}
			case "File.WriteAt":
				if rng.Intn(8) == 0 {
					injected++
					return &os.PathError{Op: "write", Path: op.Path, Err: syscall.ENOSPC}
				}
			case "File.Close":
				if rng.Intn(10) == 0 {
					injected++
					return &os.PathError{Op: "close", Path: op.Path, Err: syscall.EIO}
				}
			}
		}
		return nil
	})
	var verf *[8]byte
	committedSeen := map[uint32]bool{}
	seeVerf := func(v [8]byte, what string) {
		if verf == nil {
			verf = &v
		} else if *verf != v {
			rec.Violate("C22/write-verifier-changed-during-instance-life", fmt.Sprintf("%x then %x (%s)", *verf, v, what), ops)
		}
	}
	for i := 0; i < 24; i++ {
		f := files[0]
		if rng.Intn(4) == 0 {
			f = files[1]
		}
		switch k := rng.Intn(12); {
		case k < 6:
			off := rng.Intn(len(f.model) + 8)
			n := 1 + rng.Intn(24)
			stable := uint32(rng.Intn(3))
			data := make([]byte, n)
			for j := range data {
				data[j] = byte(1 + (i*37+j*11)%250)
			}
			cls := "overwrite"
			if off == len(f.model) {
				cls = "append"
			} else if off > len(f.model) {
				cls = "hole"
			} else if off+n > len(f.model) {
				cls = "straddle"
			}
			ops = append(ops, fmt.Sprintf("WRITE %s off=%d len=%d stable=%d", f.name, off, n, stable))
			rec.Eval(1)
			before := injected
			flightFile, flightOff, flightData = f, off, data
			w, _ := c.write(f.fh, uint64(off), stable, data)
			flightFile, flightOff, flightData = nil, -1, nil
			if w == nil || w.Status != 0 {
				// a failed WRITE leaves its range undefined: nothing there is acknowledged any more
				for len(f.model) < off+n {
					f.model = append(f.model, -1)
				}
				f.ack.grow(off + n)
				for j := off; j < off+n; j++ {
					f.model[j] = -1
					f.ack.b[j] = -1
				}
				st := -1
				if w != nil {
					st = int(w.Status)
				}
				rec.Distinct(fmt.Sprintf("WRITE-failed|%s|fault=%v|st=%d", cls, injected > before, st))
				continue
			}
			seeVerf(w.Verf, "WRITE")
			cnt := int(w.Count)
			for len(f.model) < off+cnt {
				f.model = append(f.model, 0)
			}
			for j := 0; j < cnt; j++ {
				f.model[off+j] = int16(data[j])
			}
			f.ack.grow(off + cnt)
			committedSeen[w.Committed] = true
			if w.Committed == 2 {
				for j := 0; j < cnt; j++ {
					f.ack.b[off+j] = int16(data[j])
				}
			} else if w.Committed < stable {
				rec.Violate("C22/write-committed-weaker-than-requested", fmt.Sprintf("stable_how=%d answered committed=%d", stable, w.Committed), ops)
			} else {
				for j := 0; j < cnt; j++ {
					f.ack.b[off+j] = -1 // may or may not have reached stable storage
				}
			}
			check("right after the WRITE reply")
			rec.Distinct(fmt.Sprintf("WRITE|%s|stable=%d|committed=%d|fault-in-request=%v", cls, stable, w.Committed, injected > before))
		case k < 8:
			coff := rng.Intn(len(f.model) + 1)
			ccnt := rng.Intn(len(f.model) + 4)
			if rng.Intn(2) == 0 {
				coff, ccnt = 0, 0
			}
			ops = append(ops, fmt.Sprintf("COMMIT %s off=%d count=%d", f.name, coff, ccnt))
			rec.Eval(1)
			r, _ := c.commit(f.fh, uint64(coff), uint32(ccnt))
			if r == nil || r.Status != 0 {
				rec.Distinct("COMMIT-failed")
				continue
			}
			seeVerf(r.Verf, "COMMIT")
			end := coff + ccnt
			if ccnt == 0 {
				end = len(f.model)
			}
			for j := coff; j < end && j < len(f.model); j++ {
				if f.model[j] >= 0 {
					f.ack.grow(j + 1)
					f.ack.b[j] = f.model[j]
				}
			}
			check("right after the COMMIT reply")
			rec.Distinct(fmt.Sprintf("COMMIT|whole=%v", ccnt == 0))
		case k < 10:
			ns := rng.Intn(len(f.model) + 4)
			ops = append(ops, fmt.Sprintf("SETATTR %s size=%d", f.name, ns))
			flightFile, flightTrunc = f, ns
			r, _ := c.setattr(f.fh, xdrw.Sattr3{Size: xdrw.U64p(uint64(ns))})
			flightFile, flightTrunc = nil, -1
			if r == nil || r.Status != 0 {
				continue
			}
			if ns < len(f.model) {
				f.model = f.model[:ns]
				if len(f.ack.b) > ns {
					f.ack.b = f.ack.b[:ns]
				}
			} else {
				for len(f.model) < ns {
					f.model = append(f.model, 0)
				}
			}
			rec.Distinct("SETATTR-size")
		case k < 11:
			// reconfiguration must not change the instance's write verifier
			ops = append(ops, "UpdateTuningOptions")
			srv.nfs.UpdateTuningOptions(func(t *TuningOptions) { t.TransferSize = 4096 + 1024*rng.Intn(8) })
			rec.Distinct("reconfigure")
		default:
			// a fresh handle for the same file (LOOKUP again) acknowledges against the same bytes
			if l, _ := c.lookup(root, f.name); l != nil && l.Status == 0 {
				f.fh = vfFH(l.FH)
			}
			rec.Distinct("relookup")
		}
	}
	fs.SetHook(nil)
	if firstViolation != "" {
		c2 := "FILE_SYNC"
		if !committedSeen[2] {
			c2 = "COMMIT"
		}
		if faulty && injected > 0 {
			c2 += "/with-backend-faults"
		}
		rec.Violate("C22/acknowledged-data-not-durable/acknowledged-by="+c2, firstViolation, map[string]any{"episode": ep, "ops": ops, "faults_injected": injected})
	}
	rec.Add("backend_faults_injected", injected)
	// a real crash, a new server over what survived, and READs of the acknowledged ranges
	fs.Crash()
	srv2, err := vfNewSrv(fs, ExportOptions{AttrCacheTimeout: 1})
	if err == nil {
		c2 := srv2.client()
		root2, _ := c2.mnt("/")
		for _, f := range files {
			if l2, _ := c2.lookup(root2, f.name); l2 != nil && l2.Status == 0 {
				r, _ := c2.read(vfFH(l2.FH), 0, 65536)
				if r != nil && r.Status == 0 {
					lost := 0
					for i, v := range f.ack.b {
						if v >= 0 && (i >= len(r.Data) || int16(r.Data[i]) != v) {
							lost++
						}
					}
					if lost > 0 {
						rec.Violate("C22/acknowledged-data-lost-after-crash-and-restart", fmt.Sprintf("%d acknowledged bytes of %s are not returned by READ after the crash (file is %d bytes)", lost, f.name, len(r.Data)), map[string]any{"episode": ep, "ops": ops})
					}
					rec.Distinct(fmt.Sprintf("restart|lost=%v", lost > 0))
				}
			}
		}
		srv2.Close()
	}
	if ep == 0 {
		rec.Sample(map[string]any{"ops": ops, "crash_points": points})
	}
	return points
}
