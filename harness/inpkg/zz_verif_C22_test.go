//go:build verif

package absnfs

import (
	"fmt"
	"testing"

	"verif.local/lib/evid"
	"verif.local/lib/refs"
	"verif.local/lib/xdrw"
)

// C22: data acknowledged as stable survives a crash.
// Oracle: refs crash mode. Acknowledgement happens at reply time and the
// durable state only changes at backend calls, so comparing the durable bytes
// with the acknowledged bytes after EVERY backend call enumerates every crash
// point of the history. Each history also ends with a real Crash(), a new
// server over the surviving state, and READs of the acknowledged ranges.

type vfAck struct {
	b []int16 // -1 unknown / not acknowledged, else the acknowledged byte value
}

func (a *vfAck) grow(n int) {
	for len(a.b) < n {
		a.b = append(a.b, -1)
	}
}

func TestVerif_C22(t *testing.T) {
	rec := evid.New("C22")
	rec.Rule = "write histories with every stable_how value, COMMITs over sub-ranges, overwrites and truncations; after every backend call (= every crash point) the durable bytes of the crash-simulating backend must contain every byte acknowledged by a FILE_SYNC reply or covered by a successful COMMIT returned before that point; each history ends with Crash(), a new server and READs; write verifier constant per instance and distinct across instances; distinct = (op, stable_how, committed, crash-point outcome) tuples"
	rec.Assumptions = []string{"namespace operations and truncation are durable when they return; file bytes are durable only after Sync on a handle of that file (refs crash model)"}
	defer rec.Write()
	eps := evid.Pick(100, 5000)
	crashPoints := 0
	for ep := 0; ep < eps && rec.Violations() < 10; ep++ {
		crashPoints += vfC22Episode(rec, ep)
	}
	rec.Set("crash_points_enumerated", crashPoints)
	// verifier uniqueness across instances created in a tight loop
	seen := map[[8]byte]int{}
	inst := evid.Pick(200, 2000)
	for i := 0; i < inst; i++ {
		fs := refs.New()
		fs.PlantFile("/f", nil, 0666, 0, 0)
		srv, err := vfNewSrv(fs, ExportOptions{})
		if err != nil {
			rec.Infra(err.Error())
			return
		}
		c := srv.client()
		root, _ := c.mnt("/")
		l, _ := c.lookup(root, "f")
		if l == nil || l.Status != 0 {
			srv.Close()
			continue
		}
		w, _ := c.write(vfFH(l.FH), 0, 2, []byte("v"))
		if w != nil && w.Status == 0 {
			if j, dup := seen[w.Verf]; dup {
				rec.Violate("C22/write-verifier-repeated-across-instances", fmt.Sprintf("instances %d and %d both use verifier %x", j, i, w.Verf), nil)
			}
			seen[w.Verf] = i
		}
		srv.Close()
	}
	rec.Eval(inst)
	rec.Distinct(fmt.Sprintf("verifier-instances|distinct=%v", len(seen) == inst))
}

func vfC22Episode(rec *evid.Rec, ep int) int {
	rng := evid.Rng(22, int64(ep))
	fs := refs.New()
	fs.PlantFile("/f", nil, 0666, 0, 0)
	srv, err := vfNewSrv(fs, ExportOptions{AttrCacheTimeout: 1})
	if err != nil {
		rec.Infra(err.Error())
		return 0
	}
	defer srv.Close()
	c := srv.client()
	root, _ := c.mnt("/")
	l, _ := c.lookup(root, "f")
	if l == nil || l.Status != 0 {
		rec.Infra("lookup")
		return 0
	}
	fh := vfFH(l.FH)
	ack := &vfAck{}
	var ops []string
	points := 0
	var firstViolation string
	// the request currently in flight may already have replaced acknowledged
	// bytes in its own range (or cut the file): both old and new are fine there
	var flightOff, flightTrunc = -1, -1
	var flightData []byte
	check := func(where string) {
		points++
		d, _ := fs.DurableBytes("/f")
		for i, v := range ack.b {
			if v < 0 {
				continue
			}
			if flightTrunc >= 0 && i >= flightTrunc {
				continue
			}
			if flightOff >= 0 && i >= flightOff && i < flightOff+len(flightData) && i < len(d) && d[i] == flightData[i-flightOff] {
				continue
			}
			if i >= len(d) || int16(d[i]) != v {
				if firstViolation == "" {
					firstViolation = fmt.Sprintf("crash %s: byte %d acknowledged as %d is %s in the durable state (durable size %d)", where, i, v, map[bool]string{true: "missing", false: "different"}[i >= len(d)], len(d))
				}
				return
			}
		}
	}
	fs.SetHook(func(op *refs.Op, ph refs.Phase) error {
		if ph == refs.After {
			check(fmt.Sprintf("after backend call %s(%s) #%d", op.Name, op.Path, op.Seq))
		}
		return nil
	})
	type pend struct{ off, n int }
	var pending []pend
	var model []byte
	var verf *[8]byte
	committedSeen := map[uint32]bool{}
	for i := 0; i < 20; i++ {
		switch k := rng.Intn(10); {
		case k < 6:
			off := rng.Intn(len(model) + 8)
			n := 1 + rng.Intn(24)
			stable := uint32(rng.Intn(3))
			data := make([]byte, n)
			for j := range data {
				data[j] = byte(1 + (i*37+j*11)%250)
			}
			ops = append(ops, fmt.Sprintf("WRITE off=%d len=%d stable=%d", off, n, stable))
			rec.Eval(1)
			flightOff, flightData = off, data
			w, _ := c.write(fh, uint64(off), stable, data)
			flightOff, flightData = -1, nil
			if w == nil || w.Status != 0 {
				continue
			}
			if verf == nil {
				v := w.Verf
				verf = &v
			} else if *verf != w.Verf {
				rec.Violate("C22/write-verifier-changed-during-instance-life", fmt.Sprintf("%x then %x", *verf, w.Verf), ops)
			}
			cnt := int(w.Count)
			if off+cnt > len(model) {
				model = append(model, make([]byte, off+cnt-len(model))...)
			}
			copy(model[off:], data[:cnt])
			ack.grow(off + cnt)
			committedSeen[w.Committed] = true
			if w.Committed == 2 {
				for j := 0; j < cnt; j++ {
					ack.b[off+j] = int16(data[j])
				}
			} else {
				for j := 0; j < cnt; j++ {
					ack.b[off+j] = -1 // may or may not have reached stable storage
				}
				pending = append(pending, pend{off, cnt})
			}
			check("right after the WRITE reply")
			rec.Distinct(fmt.Sprintf("WRITE|stable=%d|committed=%d", stable, w.Committed))
		case k < 8:
			coff := rng.Intn(len(model) + 1)
			ccnt := rng.Intn(len(model) + 4)
			if rng.Intn(2) == 0 {
				coff, ccnt = 0, 0
			}
			ops = append(ops, fmt.Sprintf("COMMIT off=%d count=%d", coff, ccnt))
			rec.Eval(1)
			r, _ := c.commit(fh, uint64(coff), uint32(ccnt))
			if r == nil || r.Status != 0 {
				continue
			}
			if verf != nil && *verf != r.Verf {
				rec.Violate("C22/write-verifier-changed-during-instance-life", fmt.Sprintf("WRITE %x, COMMIT %x", *verf, r.Verf), ops)
			}
			end := coff + ccnt
			if ccnt == 0 {
				end = len(model)
			}
			for j := coff; j < end && j < len(model); j++ {
				ack.grow(j + 1)
				ack.b[j] = int16(model[j])
			}
			check("right after the COMMIT reply")
			rec.Distinct(fmt.Sprintf("COMMIT|whole=%v", ccnt == 0))
		default:
			ns := rng.Intn(len(model) + 4)
			ops = append(ops, fmt.Sprintf("SETATTR size=%d", ns))
			flightTrunc = ns
			r, _ := c.setattr(fh, xdrw.Sattr3{Size: xdrw.U64p(uint64(ns))})
			flightTrunc = -1
			if r == nil || r.Status != 0 {
				continue
			}
			if ns < len(model) {
				model = model[:ns]
				if len(ack.b) > ns {
					ack.b = ack.b[:ns]
				}
			} else {
				model = append(model, make([]byte, ns-len(model))...)
			}
			rec.Distinct("SETATTR-size")
		}
	}
	fs.SetHook(nil)
	if firstViolation != "" {
		c2 := "FILE_SYNC"
		if !committedSeen[2] {
			c2 = "COMMIT"
		}
		rec.Violate("C22/acknowledged-data-not-durable/acknowledged-by="+c2, firstViolation, map[string]any{"episode": ep, "ops": ops})
	}
	// a real crash, a new server over what survived, and READs of the acknowledged ranges
	fs.Crash()
	srv2, err := vfNewSrv(fs, ExportOptions{AttrCacheTimeout: 1})
	if err == nil {
		c2 := srv2.client()
		root2, _ := c2.mnt("/")
		if l2, _ := c2.lookup(root2, "f"); l2 != nil && l2.Status == 0 {
			r, _ := c2.read(vfFH(l2.FH), 0, 65536)
			if r != nil && r.Status == 0 {
				lost := 0
				for i, v := range ack.b {
					if v >= 0 && (i >= len(r.Data) || int16(r.Data[i]) != v) {
						lost++
					}
				}
				if lost > 0 {
					rec.Violate("C22/acknowledged-data-lost-after-crash-and-restart", fmt.Sprintf("%d acknowledged bytes are not returned by READ after the crash (file is %d bytes)", lost, len(r.Data)), map[string]any{"episode": ep, "ops": ops})
				}
				rec.Distinct(fmt.Sprintf("restart|lost=%v", lost > 0))
			}
		}
		srv2.Close()
	}
	if ep == 0 {
		rec.Sample(map[string]any{"ops": ops, "crash_points": points})
	}
	_ = pending
	return points
}
