//go:build verif

package absnfs

import (
	"context"
	"errors"
	"fmt"
	"io"
	"os"
	"regexp"
	"runtime"
	"syscall"
	"testing"
	"time"

	"verif.local/lib/evid"
	"verif.local/lib/refs"
	"verif.local/lib/rfc"
	"verif.local/lib/xdrw"
)

// C14: every reply is a well-formed RFC 1813 / RFC 1831 reply.
// Oracle: the strict decoders of package rfc applied to the exact bytes that
// EncodeRPCReply produces, for the program, procedure and status of the call.

var vfDigits = regexp.MustCompile(`[0-9]+`)

type vfC14 struct {
	rec  *evid.Rec
	seen map[string]bool // proc|ok / proc|fail coverage
}

// judge decodes one reply and records violations. state names the server state.
func (m *vfC14) judge(state string, prog, vers, proc uint32, xid uint32, raw []byte, shape string, args []byte) {
	m.rec.Eval(1)
	desc := map[string]any{"state": state, "prog": prog, "vers": vers, "proc": proc, "shape": shape, "args": args}
	rep, err := rfc.DecodeReply(raw)
	if err != nil {
		m.rec.Violate(fmt.Sprintf("C14/rpc-reply-undecodable/state=%s/%s", state, vfDigits.ReplaceAllString(err.Error(), "N")), fmt.Sprintf("prog %d proc %d: %v", prog, proc, err), desc)
		return
	}
	if rep.XID != xid {
		m.rec.Violate("C14/xid-not-echoed/state="+state, fmt.Sprintf("sent %d got %d", xid, rep.XID), desc)
	}
	cls := "denied"
	if !rep.Denied {
		cls = fmt.Sprintf("accept=%d", rep.AcceptStat)
	}
	if rep.Denied || rep.AcceptStat != 0 {
		m.rec.Distinct(fmt.Sprintf("%s|prog=%d|proc=%d|%s|%s", state, prog, proc, shape, cls))
		return
	}
	switch {
	case prog == vfProgNFS && vers == 3 && proc <= 21:
		res, err := rfc.DecodeNFS(proc, rep.Body)
		st := uint32(0)
		if res != nil {
			st = res.Status
		}
		if err != nil {
			if res != nil && !rfc.IsNfsstat3(res.Status) {
				m.rec.Violate(fmt.Sprintf("C14/status-not-in-nfsstat3/status=%d", res.Status), fmt.Sprintf("NFS proc %d (%s args, state %s) answered status %d", proc, shape, state, res.Status), desc)
			} else {
				m.rec.Violate(fmt.Sprintf("C14/result-undecodable/state=%s/proc=%d/status=%d/%s", state, proc, st, vfDigits.ReplaceAllString(err.Error(), "N")),
					fmt.Sprintf("NFS proc %d (%s args, state %s) status %d: %v (result is %d bytes)", proc, shape, state, st, err, len(rep.Body)), desc)
			}
		} else if proc != 0 {
			k := "fail"
			if st == 0 {
				k = "ok"
			}
			m.seen[fmt.Sprintf("%d|%s", proc, k)] = true
		}
		m.rec.Distinct(fmt.Sprintf("%s|nfs|proc=%d|%s|st=%d", state, proc, shape, st))
	case prog == vfProgMount && vers == 3 && proc <= 5:
		res, err := rfc.DecodeMount(proc, rep.Body)
		st := uint32(0)
		if res != nil {
			st = res.Status
		}
		if err != nil {
			m.rec.Violate(fmt.Sprintf("C14/mount-result-undecodable/state=%s/proc=%d/%s", state, proc, vfDigits.ReplaceAllString(err.Error(), "N")), fmt.Sprintf("MOUNT proc %d (%s args, state %s): %v", proc, shape, state, err), desc)
		}
		m.rec.Distinct(fmt.Sprintf("%s|mount|proc=%d|%s|st=%d", state, proc, shape, st))
	default:
		// accepted with SUCCESS for something that is not an NFSv3/MOUNTv3 procedure
		if prog != vfProgMount || vers != 1 {
			m.rec.Violate(fmt.Sprintf("C14/success-for-unknown-procedure/state=%s/prog=%d/vers=%d", state, prog, vers), fmt.Sprintf("proc %d", proc), desc)
		}
	}
}

type vfC14Env struct {
	fs                       *refs.FS
	srv                      *vfSrv
	c                        *vfClient
	root, dir, file, link, stale uint64
	specials                     []uint64
}

func vfC14Setup(opts ExportOptions) (*vfC14Env, error) {
	fs := refs.New()
	fs.PlantDir("/d", 0777, 0, 0)
	fs.PlantDir("/d/sub", 0777, 0, 0)
	fs.PlantDir("/d/full", 0777, 0, 0)
	fs.PlantFile("/d/full/x", []byte("x"), 0666, 0, 0)
	fs.PlantFile("/d/f", []byte("some file data for reading"), 0666, 0, 0)
	fs.PlantSymlink("/d/ln", "f")
	fs.PlantFile("/gone", nil, 0666, 0, 0)
	// objects of every kind a backend's lstat can report, including ones RFC 1813 has no ftype3 for
	vfC14PlantSpecials(fs)
	srv, err := vfNewSrv(fs, opts)
	if err != nil {
		return nil, err
	}
	e := &vfC14Env{fs: fs, srv: srv, c: srv.client()}
	if e.root, err = e.c.mnt("/"); err != nil {
		return nil, err
	}
	look := func(h uint64, n string) uint64 {
		l, err := e.c.lookup(h, n)
		if err != nil || l == nil || l.Status != 0 {
			return 0
		}
		return vfFH(l.FH)
	}
	e.dir = look(e.root, "d")
	e.file = look(e.dir, "f")
	e.link = look(e.dir, "ln")
	e.stale = 0xdeadbeef
	for _, sp := range vfC14Specials {
		if h := look(e.dir, sp.name); h != 0 {
			e.specials = append(e.specials, h)
		}
	}
	return e, nil
}

var vfC14Specials = []struct {
	name string
	bits os.FileMode
}{
	{"sp-fifo", os.ModeNamedPipe}, {"sp-socket", os.ModeSocket}, {"sp-blockdev", os.ModeDevice},
	{"sp-chardev", os.ModeDevice | os.ModeCharDevice}, {"sp-irregular", os.ModeIrregular},
	{"sp-chardev-bit-alone", os.ModeCharDevice}, {"sp-fifo-and-socket", os.ModeNamedPipe | os.ModeSocket},
}

func vfC14PlantSpecials(fs *refs.FS) {
	for _, sp := range vfC14Specials {
		fs.PlantSpecial("/d/"+sp.name, sp.bits, 0644)
	}
}

// calls returns (prog, vers, proc, args, shape) tuples covering every procedure.
func (e *vfC14Env) calls(rng interface{ Intn(int) int }, deep bool) [][5]any {
	var out [][5]any
	add := func(prog, vers, proc uint32, shape string, a []byte) {
		out = append(out, [5]any{prog, vers, proc, shape, a})
	}
	tg := vfC08Target{root: e.root, dir: e.dir, file: e.file, link: e.link}
	byProc := vfC08Args(tg, rng)
	// stale handle variants and over-long handles/strings
	for proc := uint32(1); proc <= 21; proc++ {
		byProc[proc] = append(byProc[proc], xdrw.ArgFH(e.stale))
		long := (&xdrw.W{}).Opaque(make([]byte, 72)).B // handle longer than 64
		byProc[proc] = append(byProc[proc], long)
		h32 := (&xdrw.W{}).Opaque(make([]byte, 32)).B // legal size, unknown handle
		byProc[proc] = append(byProc[proc], append(h32, xdrw.ArgDirop(e.dir, "f")[12:]...))
	}
	for _, sp := range vfC14Specials {
		byProc[3] = append(byProc[3], xdrw.ArgDirop(e.dir, sp.name))
	}
	for _, h := range e.specials {
		byProc[1] = append(byProc[1], xdrw.ArgFH(h))
		byProc[4] = append(byProc[4], xdrw.ArgAccess(h, 0x3f))
		byProc[5] = append(byProc[5], xdrw.ArgFH(h))
		byProc[6] = append(byProc[6], xdrw.ArgRead(h, 0, 16))
		byProc[3] = append(byProc[3], xdrw.ArgDirop(h, "x"))
	}
	byProc[17] = append(byProc[17], xdrw.ArgReaddirplus(e.dir, 0, [8]byte{}, 8192, 32768))
	byProc[3] = append(byProc[3], xdrw.ArgDirop(e.dir, string(make([]byte, 9000))), xdrw.ArgDirop(e.dir, "absent"), xdrw.ArgDirop(e.file, "x"), xdrw.ArgDirop(e.dir, ".."))
	byProc[13] = append(byProc[13], xdrw.ArgDirop(e.dir, "full"), xdrw.ArgDirop(e.dir, "f"))
	byProc[12] = append(byProc[12], xdrw.ArgDirop(e.dir, "full"))
	byProc[6] = append(byProc[6], xdrw.ArgRead(e.file, 5, 100000), xdrw.ArgRead(e.file, 1<<63, 10), xdrw.ArgRead(e.dir, 0, 10), xdrw.ArgRead(e.file, ^uint64(0), 10))
	byProc[7] = append(byProc[7], xdrw.ArgWrite(e.file, 0, 5, 7, []byte("hello")), (&xdrw.W{}).FH(e.file).U64(0).U32(9).U32(0).Opaque([]byte("short")).B, xdrw.ArgWrite(e.dir, 0, 1, 0, []byte("x")))
	byProc[16] = append(byProc[16], xdrw.ArgReaddir(e.dir, 0, [8]byte{}, 0), xdrw.ArgReaddir(e.dir, 99, [8]byte{}, 4096), xdrw.ArgReaddir(e.file, 0, [8]byte{}, 4096))
	byProc[17] = append(byProc[17], xdrw.ArgReaddirplus(e.dir, 0, [8]byte{}, 0, 0), xdrw.ArgReaddirplus(e.file, 0, [8]byte{}, 100, 100))
	byProc[2] = append(byProc[2], xdrw.ArgSetattr(e.file, xdrw.Sattr3{Size: xdrw.U64p(1 << 63)}, false, 0, 0), xdrw.ArgSetattr(e.file, xdrw.Sattr3{Mode: xdrw.U32p(0100644)}, false, 0, 0), xdrw.ArgSetattr(e.file, xdrw.Sattr3{}, true, 1, 1))
	byProc[9] = append(byProc[9], xdrw.ArgMkdir(e.dir, "modebad", xdrw.Sattr3{Mode: xdrw.U32p(0170000)}))
	for proc := uint32(0); proc <= 23; proc++ {
		list := byProc[proc]
		if len(list) == 0 {
			list = [][]byte{nil}
		}
		for i, a := range list {
			if !deep && i%4 != int(proc)%4 && i > 6 {
				continue
			}
			add(vfProgNFS, 3, proc, "valid-form", a)
			if deep || i < 2 {
				for cut := 0; cut < len(a); cut += 4 {
					add(vfProgNFS, 3, proc, "truncated", a[:cut])
				}
			}
		}
		for g := 0; g < 3; g++ {
			b := make([]byte, rng.Intn(120))
			for j := range b {
				b[j] = byte(rng.Intn(256))
			}
			add(vfProgNFS, 3, proc, "garbage", b)
			add(vfProgNFS, 3, proc, "handle+garbage", append(xdrw.ArgFH(e.dir), b...))
		}
	}
	for proc := uint32(0); proc <= 7; proc++ {
		for _, p := range []string{"/", "/d", "/nope", "relative", "", "/d/f"} {
			add(vfProgMount, 3, proc, "valid-form", (&xdrw.W{}).Str(p).B)
		}
		add(vfProgMount, 3, proc, "truncated", nil)
		add(vfProgMount, 3, proc, "garbage", []byte{0xff, 0xff, 0xff, 0xff, 1, 2})
		add(vfProgMount, 3, proc, "overlong", (&xdrw.W{}).Str(string(make([]byte, 9000))).B)
	}
	// wrong versions, unknown program
	add(vfProgNFS, 2, 1, "wrong-version", xdrw.ArgFH(e.root))
	add(vfProgNFS, 4, 0, "wrong-version", nil)
	add(vfProgMount, 2, 1, "wrong-version", (&xdrw.W{}).Str("/").B)
	add(vfProgMount, 1, 1, "mount-v1", (&xdrw.W{}).Str("/").B)
	add(100000, 2, 3, "unknown-program", nil)
	add(0, 0, 0, "unknown-program", nil)
	add(400123, 1, 99, "unknown-program", []byte{1, 2, 3, 4})
	return out
}

func (e *vfC14Env) restore() {
	// undo what valid mutating calls may have done so that every state sees the same tree
	e.fs.PlantFile("/d/f", []byte("some file data for reading"), 0666, 0, 0)
	e.fs.PlantSymlink("/d/ln", "f")
	e.fs.PlantDir("/d/sub", 0777, 0, 0)
	e.fs.PlantDir("/d/full", 0777, 0, 0)
	e.fs.PlantFile("/d/full/x", []byte("x"), 0666, 0, 0)
}

func TestVerif_C14(t *testing.T) {
	rec := evid.New("C14")
	rec.Rule = "every NFSv3 procedure 0-21 (+2 unknown), MOUNT 0-5 (+2 unknown), unknown programs and wrong versions x argument shapes {valid form incl. stale handles, wrong object kinds, absent names; truncated at every 4-byte cut; garbage; over-long strings/handles} x server state {normal, read-only, per-operation rate limited, connection rate limited (real loop over net.Pipe), policy drain (update held open by a request parked at a backend gate), backend faults}; every reply strictly decoded; distinct = (state, program, procedure, shape, status) tuples"
	defer rec.Write()
	m := &vfC14{rec: rec, seen: map[string]bool{}}
	deep := evid.Tier() == "thorough"
	rng := evid.Rng(14)

	runAll := func(state string, e *vfC14Env, before func(i int)) {
		for i, cl := range e.calls(rng, deep) {
			prog, vers, proc, shape, args := cl[0].(uint32), cl[1].(uint32), cl[2].(uint32), cl[3].(string), cl[4].([]byte)
			if before != nil {
				before(i)
			}
			evid.Journal(map[string]any{"state": state, "prog": prog, "proc": proc, "shape": shape, "args": args})
			xid, raw, err := e.c.rawCall(prog, vers, proc, args)
			if err != nil {
				rec.Add("calls_without_reply", 1)
				continue
			}
			m.judge(state, prog, vers, proc, xid, raw, shape, args)
			if i%50 == 0 {
				e.restore()
			}
		}
	}

	// state: normal
	e, err := vfC14Setup(ExportOptions{AttrCacheTimeout: 1, TransferSize: 131072})
	if err != nil {
		rec.Infra(err.Error())
		return
	}
	runAll("normal", e, nil)
	// state: backend faults
	faults := []syscall.Errno{syscall.EIO, syscall.ENOSPC, syscall.EACCES, syscall.EEXIST, syscall.ENOTEMPTY, syscall.ENOENT, syscall.EFBIG, syscall.ENOTDIR, syscall.EISDIR}
	var nth, cnt int
	var ferr syscall.Errno
	e.fs.SetHook(func(op *refs.Op, ph refs.Phase) error {
		if ph != refs.Before {
			return nil
		}
		cnt++
		if cnt == nth {
			return &fsPathErr{op.Name, op.Path, ferr}
		}
		return nil
	})
	runAll("backend-fault", e, func(i int) { cnt = 0; nth = 1 + i%4; ferr = faults[i%len(faults)] })
	// errno sweep: every errno a backend can plausibly return (and errors that are no errno at
	// all), at the first three backend calls of well-formed requests of every procedure. The
	// status on the wire must be a member of nfsstat3 and the result must have that status's shape.
	var sweep []error
	for en := 1; en <= 40; en++ {
		sweep = append(sweep, syscall.Errno(en))
	}
	for _, en := range []syscall.Errno{syscall.EREMOTE, syscall.ENOTSUP, syscall.ETIMEDOUT, syscall.ESTALE, syscall.EDQUOT, syscall.ECANCELED, syscall.EOVERFLOW, syscall.ENOSYS, syscall.Errno(0), syscall.Errno(10001), syscall.Errno(10008)} {
		sweep = append(sweep, en)
	}
	sweep = append(sweep, errors.New("backend exploded"), io.ErrUnexpectedEOF, io.EOF, os.ErrClosed, context.DeadlineExceeded, context.Canceled, os.ErrNotExist, os.ErrExist, os.ErrPermission, os.ErrInvalid, os.ErrDeadlineExceeded)
	var ferrAny error
	e.fs.SetHook(func(op *refs.Op, ph refs.Phase) error {
		if ph != refs.Before {
			return nil
		}
		cnt++
		if cnt == nth {
			if en, ok := ferrAny.(syscall.Errno); ok {
				return &fsPathErr{op.Name, op.Path, en}
			}
			return fmt.Errorf("%s %s: %w", op.Name, op.Path, ferrAny)
		}
		return nil
	})
	var wellFormed [][5]any
	perProc := map[uint32]int{}
	for _, cl := range e.calls(rng, false) {
		if cl[0].(uint32) == vfProgNFS && cl[3].(string) == "valid-form" && cl[2].(uint32) >= 1 && cl[2].(uint32) <= 21 && perProc[cl[2].(uint32)] < evid.Pick(2, 6) {
			perProc[cl[2].(uint32)]++
			wellFormed = append(wellFormed, cl)
		}
	}
	// MOUNT MNT too: its failure status is a mountstat3, whatever the backend error was
	for _, mp := range []string{"/", "/d", "/d/f", "/nope"} {
		wellFormed = append(wellFormed, [5]any{uint32(vfProgMount), uint32(3), uint32(1), "valid-form", (&xdrw.W{}).Str(mp).B})
	}
	sweepCalls := 0
	for si, fe := range sweep {
		for n := 1; n <= 3; n++ {
			for _, cl := range wellFormed {
				prog, vers, proc, args := cl[0].(uint32), cl[1].(uint32), cl[2].(uint32), cl[4].([]byte)
				cnt, nth, ferrAny = 0, n, fe
				evid.Journal(map[string]any{"state": "backend-errno-sweep", "proc": proc, "fault": fmt.Sprint(fe), "nth": n, "args": args})
				xid, raw, err := e.c.rawCall(prog, vers, proc, args)
				if err != nil {
					rec.Add("calls_without_reply", 1)
					continue
				}
				sweepCalls++
				m.judge("backend-errno-sweep", prog, vers, proc, xid, raw, "valid-form", args)
			}
			if (si*3+n)%8 == 0 {
				nth = 0
				e.restore()
			}
		}
	}
	rec.Set("errno_sweep", map[string]any{"faults": len(sweep), "positions": 3, "calls": sweepCalls})
	e.fs.SetHook(nil)
	e.srv.Close()

	// state: an allow-list is configured (the client is on it): every reply as well-formed as without
	e, err = vfC14Setup(ExportOptions{AttrCacheTimeout: 1, AllowedIPs: []string{"127.0.0.1", "10.0.0.0/8", "2001:db8::/32"}})
	if err != nil {
		rec.Infra(err.Error())
		return
	}
	runAll("allow-list", e, nil)
	e.srv.Close()
	e, err = vfC14Setup(ExportOptions{AttrCacheTimeout: 1, AllowedIPs: []string{"127.0.0.1"}, Squash: "root", EnableDirCache: true, CacheNegativeLookups: true, MaxFileSize: 1 << 20})
	if err != nil {
		rec.Infra(err.Error())
		return
	}
	runAll("non-default-options", e, nil)
	e.srv.Close()
	// state: read-only
	e, err = vfC14Setup(ExportOptions{AttrCacheTimeout: 1, ReadOnly: true})
	if err != nil {
		rec.Infra(err.Error())
		return
	}
	runAll("read-only", e, nil)
	e.srv.Close()

	// state: per-operation rate limiting with exhausted buckets
	rl := DefaultRateLimiterConfig()
	rl.ReadLargeOpsPerSecond, rl.WriteLargeOpsPerSecond, rl.ReaddirOpsPerSecond, rl.MountOpsPerMinute = 0, 0, 0, 0
	e, err = vfC14Setup(ExportOptions{AttrCacheTimeout: 1, TransferSize: 131072, EnableRateLimiting: true, RateLimitConfig: &rl})
	if err != nil {
		rec.Infra(err.Error())
		return
	}
	big := make([]byte, 70000)
	for i := 0; i < 14; i++ { // exhaust the fixed bursts (10/5/5/2)
		e.c.read(e.file, 0, 100000)
		e.c.write(e.file, 0, 2, big)
		e.c.readdir(e.dir, 0, 4096)
		e.c.mount(1, (&xdrw.W{}).Str("/").B)
	}
	limited := [][4]any{
		{uint32(vfProgNFS), uint32(6), "large-read", xdrw.ArgRead(e.file, 0, 100000)},
		{uint32(vfProgNFS), uint32(7), "large-write", xdrw.ArgWrite(e.file, 0, 70000, 2, big)},
		{uint32(vfProgNFS), uint32(16), "readdir", xdrw.ArgReaddir(e.dir, 0, [8]byte{}, 4096)},
		{uint32(vfProgNFS), uint32(17), "readdirplus", xdrw.ArgReaddirplus(e.dir, 0, [8]byte{}, 4096, 8192)},
		{uint32(vfProgMount), uint32(1), "mnt", (&xdrw.W{}).Str("/").B},
	}
	for _, l := range limited {
		xid, raw, err := e.c.rawCall(l[0].(uint32), 3, l[1].(uint32), l[3].([]byte))
		if err == nil {
			m.judge("op-rate-limited", l[0].(uint32), 3, l[1].(uint32), xid, raw, l[2].(string), nil)
		}
	}
	e.srv.Close()

	// state: connection-level rate limiting through the real loop
	rl = DefaultRateLimiterConfig()
	rl.PerConnectionRequestsPerSecond, rl.PerConnectionBurstSize = 1, 1
	e, err = vfC14Setup(ExportOptions{AttrCacheTimeout: 1, EnableRateLimiting: true, RateLimitConfig: &rl})
	if err != nil {
		rec.Infra(err.Error())
		return
	}
	p := e.srv.pipe("127.0.0.9", 900)
	refused := 0
	for i, cl := range e.calls(rng, false) {
		if i > 200 {
			break
		}
		prog, vers, proc, shape, args := cl[0].(uint32), cl[1].(uint32), cl[2].(uint32), cl[3].(string), cl[4].([]byte)
		xid, raw, err := p.call(prog, vers, proc, vfRootCred(), args)
		if err != nil {
			// the loop closes the connection on undecodable calls; open a new one
			p.close()
			p = e.srv.pipe("127.0.0.9", 900)
			continue
		}
		if rep, derr := rfc.DecodeReply(raw); derr == nil && rep.Denied {
			refused++
		}
		m.judge("conn-rate-limited", prog, vers, proc, xid, raw, shape, args)
	}
	p.close()
	rec.Set("conn_rate_limited_replies", refused)
	e.srv.Close()

	// state: policy drain. A LOOKUP is parked inside the backend, an
	// UpdatePolicyOptions then waits for it, and every procedure is tried
	// while the drain is in progress.
	e, err = vfC14Setup(ExportOptions{AttrCacheTimeout: 1})
	if err != nil {
		rec.Infra(err.Error())
		return
	}
	gate := make(chan struct{})
	parked := make(chan struct{}, 1)
	e.fs.SetHook(func(op *refs.Op, ph refs.Phase) error {
		if ph == refs.Before && op.Path == "/d/gate-name" {
			select {
			case parked <- struct{}{}:
			default:
			}
			<-gate
		}
		return nil
	})
	c2 := e.srv.client()
	lookDone := make(chan struct{})
	go func() { defer close(lookDone); c2.lookup(e.dir, "gate-name") }()
	select {
	case <-parked:
	case <-time.After(20 * time.Second):
		rec.Inconclusive(1)
		close(gate)
		return
	}
	updDone := make(chan error, 1)
	go func() { updDone <- e.srv.nfs.UpdatePolicyOptions(*e.srv.nfs.policy.Load()) }()
	deadline := time.Now().Add(20 * time.Second)
	for !vfDraining(e.srv.nfs) && time.Now().Before(deadline) {
		runtime.Gosched()
	}
	if !vfDraining(e.srv.nfs) {
		rec.Inconclusive(1)
	} else {
		drained := 0
		for _, cl := range e.calls(rng, false) {
			prog, vers, proc, shape, args := cl[0].(uint32), cl[1].(uint32), cl[2].(uint32), cl[3].(string), cl[4].([]byte)
			if shape != "valid-form" && shape != "wrong-version" && shape != "unknown-program" {
				continue
			}
			xid, raw, err := e.c.rawCall(prog, vers, proc, args)
			if err != nil {
				continue
			}
			drained++
			m.judge("policy-drain", prog, vers, proc, xid, raw, shape, args)
		}
		rec.Set("replies_observed_mid_drain", drained)
	}
	close(gate)
	<-lookDone
	select {
	case <-updDone:
	case <-time.After(20 * time.Second):
		rec.Inconclusive(1)
	}
	e.fs.SetHook(nil)
	e.srv.Close()

	missing := []string{}
	for proc := 1; proc <= 21; proc++ {
		for _, k := range []string{"ok", "fail"} {
			if !m.seen[fmt.Sprintf("%d|%s", proc, k)] && !((proc == 11 || proc == 15) && k == "ok") {
				missing = append(missing, fmt.Sprintf("%d|%s", proc, k))
			}
		}
	}
	rec.Set("procedures_without_decodable_ok_or_fail_reply", missing)
	rec.Sample(map[string]any{"states": []string{"normal", "backend-fault", "read-only", "op-rate-limited", "conn-rate-limited", "policy-drain"}})
}

type fsPathErr struct {
	Op, Path string
	Err      syscall.Errno
}

func (e *fsPathErr) Error() string { return e.Op + " " + e.Path + ": " + e.Err.Error() }
func (e *fsPathErr) Unwrap() error { return e.Err }
