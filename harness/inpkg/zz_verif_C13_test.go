//go:build verif

package absnfs

import (
	"bytes"
	"fmt"
	"io"
	"runtime"
	"testing"
	"time"

	"verif.local/lib/evid"
	"verif.local/lib/refs"
	"verif.local/lib/rfc"
	"verif.local/lib/xdrw"
)

// C13: XDR, RPC and record-marking codecs are exact and bounded.
// Oracle: xdrw as independent encoder for the repo's decoders, rfc as
// independent decoder for the repo's encoders; a counting reader for
// consumption; runtime.MemStats.TotalAlloc delta around a single decode.

type vfCountR struct {
	r io.Reader
	n int
}

func (c *vfCountR) Read(p []byte) (int, error) { n, err := c.r.Read(p); c.n += n; return n, err }

// vfAllocDelta runs f on this goroutine and returns bytes allocated meanwhile.
func vfAllocDelta(f func()) uint64 {
	var a, b runtime.MemStats
	runtime.GC()
	runtime.ReadMemStats(&a)
	func() {
		defer func() {
			if r := recover(); r != nil {
				vfC13Panics = append(vfC13Panics, fmt.Sprint(r))
			}
		}()
		f()
	}()
	runtime.ReadMemStats(&b)
	return b.TotalAlloc - a.TotalAlloc
}

// vfC13Panics collects panics raised by decoders on hostile input.
var vfC13Panics []string

// vfC13ServerRecordLimit: the 1 MiB record limit as the SERVER applies it to a connection, for
// small and very large configured transfer sizes: a record beyond it (one fragment, or many whose sum
// is beyond it) is not reassembled and not answered; one well within it is.
func vfC13ServerRecordLimit(rec *evid.Rec) {
	for _, ts := range []int{0, 1 << 20, 8 << 20} {
		for _, shape := range []string{"within-limit", "one-fragment-over", "many-fragments-over", "far-over"} {
			fs := refs.New()
			srv, err := vfNewSrv(fs, ExportOptions{AttrCacheTimeout: 1, TransferSize: ts})
			if err != nil {
				rec.Infra(err.Error())
				return
			}
			p := srv.pipe("127.0.0.1", 690)
			total := map[string]int{"within-limit": 512 << 10, "one-fragment-over": 1<<20 + 4, "many-fragments-over": 1<<20 + 65536, "far-over": 6 << 20}[shape]
			msg := xdrw.CallHeader(7777, vfProgNFS, 3, 0, xdrw.Cred{})
			msg = append(msg, make([]byte, total-len(msg))...)
			var stream []byte
			if shape == "many-fragments-over" || shape == "far-over" {
				n := (len(msg) - 1) / 65536
				sizes := make([]int, n)
				for i := range sizes {
					sizes[i] = 65536
				}
				stream = xdrw.Fragments(msg, sizes)
			} else {
				stream = xdrw.Record(msg)
			}
			go func() {
				p.c.SetWriteDeadline(time.Now().Add(30 * time.Second))
				p.c.Write(stream)
			}()
			raw, rerr := p.recv(30 * time.Second)
			answered := rerr == nil && len(raw) >= 4
			rec.Eval(1)
			desc := fmt.Sprintf("TransferSize=%d, a %d-byte record (%s) carrying a NULL call", ts, total, shape)
			if shape == "within-limit" && !answered {
				if ne, ok := rerr.(interface{ Timeout() bool }); ok && ne.Timeout() {
					rec.Inconclusive(1)
				} else {
					rec.Violate("C13/server/record-within-limit-not-answered", fmt.Sprintf("%s: %v", desc, rerr), nil)
				}
			}
			if shape != "within-limit" && answered {
				rec.Violate("C13/server/record-over-limit-reassembled-and-answered/"+shape, desc+" was answered; the record limit is 1 MiB whatever the transfer size", map[string]any{"transfer_size": ts, "record_bytes": total})
			}
			rec.Distinct(fmt.Sprintf("server-record-limit|ts=%d|%s|answered=%v", ts, shape, answered))
			p.close()
			srv.Close()
		}
	}
}

func TestVerif_C13(t *testing.T) {
	rec := evid.New("C13")
	rec.Rule = "strings/opaques of length 0-9 and limit-1..limit+1 for every limit (string 8192, auth 400, handle 64, gids 16, record 1MiB), every cut point of every valid encoding, declared lengths 2^31 and 2^32-1 with tiny payloads (allocation measured), all 2^(n-1) fragmentations of records of n<=10 (quick) / 13 (thorough) bytes with zero-length fragments interleaved, random fragmentations up to 1MiB, writer fragment sizes {1,3,4,5,1MiB}; distinct = (codec, length class, outcome) tuples"
	defer rec.Write()
	vfC13ServerRecordLimit(rec)
	rng := evid.Rng(13)
	content := func(n int, nul bool) []byte {
		b := make([]byte, n)
		for i := range b {
			b[i] = byte(1 + rng.Intn(255))
			if nul && i%5 == 2 {
				b[i] = 0
			}
		}
		return b
	}
	// ---- strings ----
	lens := []int{0, 1, 2, 3, 4, 5, 6, 7, 8, 9, 255, 256, 8191, 8192, 8193, 8200, 65536}
	for _, n := range lens {
		s := content(n, false)
		enc := (&xdrw.W{}).Opaque(s).B
		trailer := []byte{0xAA, 0xBB, 0xCC, 0xDD}
		cr := &vfCountR{r: bytes.NewReader(append(append([]byte(nil), enc...), trailer...))}
		rec.Eval(1)
		got, err := xdrDecodeString(cr)
		switch {
		case n > 8192:
			if err == nil {
				rec.Violate("C13/string-over-limit-accepted", fmt.Sprintf("len %d", n), nil)
			}
		case err != nil:
			rec.Violate("C13/string-within-limit-rejected", fmt.Sprintf("len %d: %v", n, err), nil)
		case got != string(s):
			rec.Violate("C13/string-roundtrip-differs", fmt.Sprintf("len %d", n), nil)
		case cr.n != len(enc):
			rec.Violate("C13/string-consumed-wrong-length", fmt.Sprintf("len %d: consumed %d want %d", n, cr.n, len(enc)), nil)
		}
		rec.Distinct(fmt.Sprintf("string-dec|len%%4=%d|over=%v|err=%v", n%4, n > 8192, err != nil))
		if n <= 8192 {
			// repo encoder -> independent decoder
			var buf bytes.Buffer
			xdrEncodeString(&buf, string(s))
			back, derr := rfc.DecodeString(buf.Bytes())
			if derr != nil || back != string(s) {
				rec.Violate("C13/string-encoder-not-rfc", fmt.Sprintf("len %d: %v", n, derr), nil)
			}
			// every cut point must fail
			for cut := 0; cut < len(enc); cut++ {
				if n > 300 && cut%97 != 0 && cut < len(enc)-8 {
					continue
				}
				rec.Eval(1)
				if _, err := xdrDecodeString(bytes.NewReader(enc[:cut])); err == nil {
					rec.Violate("C13/truncated-string-decoded", fmt.Sprintf("len %d cut %d", n, cut), nil)
				}
			}
			rec.Distinct(fmt.Sprintf("string-enc|len%%4=%d", n%4))
		}
	}
	// NUL content: either exact or rejected, never altered
	for _, n := range []int{3, 8, 100} {
		s := content(n, true)
		got, err := xdrDecodeString(bytes.NewReader((&xdrw.W{}).Opaque(s).B))
		if err == nil && got != string(s) {
			rec.Violate("C13/string-with-nul-altered", "", nil)
		}
		rec.Distinct(fmt.Sprintf("string-nul|err=%v", err != nil))
	}
	// huge declared lengths with tiny payloads: must be rejected without allocating them
	for _, decl := range []uint32{8193, 1 << 20, 1 << 31, 1<<32 - 1} {
		in := (&xdrw.W{}).U32(decl).Raw([]byte("tiny")).B
		var err error
		d := vfAllocDelta(func() { _, err = xdrDecodeString(bytes.NewReader(in)) })
		rec.Eval(1)
		if err == nil {
			rec.Violate("C13/string-over-limit-accepted", fmt.Sprintf("declared %d", decl), nil)
		}
		if d > 64<<10 {
			rec.Violate("C13/allocation-before-limit-check/string", fmt.Sprintf("declared %d allocated %d bytes", decl, d), nil)
		}
		rec.Distinct(fmt.Sprintf("string-huge|decl=%d", decl))
	}
	// ---- file handles ----
	for n := 0; n <= 70; n++ {
		hb := content(n, false)
		enc := (&xdrw.W{}).Opaque(hb).B
		cr := &vfCountR{r: bytes.NewReader(append(append([]byte(nil), enc...), 9, 9, 9, 9))}
		rec.Eval(1)
		v, err := xdrDecodeFileHandle(cr)
		if n == 8 {
			if err != nil || v != vfFH(hb) || cr.n != len(enc) {
				rec.Violate("C13/handle-roundtrip", fmt.Sprintf("%v consumed %d", err, cr.n), nil)
			}
			var buf bytes.Buffer
			xdrEncodeFileHandle(&buf, v)
			if !bytes.Equal(buf.Bytes(), enc) {
				rec.Violate("C13/handle-encoder-not-rfc", "", nil)
			}
		} else if err == nil {
			rec.Violate("C13/handle-wrong-length-accepted", fmt.Sprintf("len %d", n), nil)
		} else if n <= 64 && cr.n != len(enc) {
			rec.Violate("C13/handle-consumed-wrong-length", fmt.Sprintf("len %d consumed %d want %d", n, cr.n, len(enc)), nil)
		}
		rec.Distinct(fmt.Sprintf("handle|len=%d|err=%v", min64i(n, 66), err != nil))
	}
	for _, decl := range []uint32{65, 1 << 20, 1 << 31, 1<<32 - 1} {
		in := (&xdrw.W{}).U32(decl).Raw([]byte("tinytiny")).B
		var err error
		d := vfAllocDelta(func() { _, err = xdrDecodeFileHandle(bytes.NewReader(in)) })
		rec.Eval(1)
		if err == nil {
			rec.Violate("C13/handle-over-limit-accepted", fmt.Sprintf("declared %d", decl), nil)
		}
		if d > 64<<10 {
			rec.Violate("C13/allocation-before-limit-check/handle", fmt.Sprintf("declared %d allocated %d", decl, d), nil)
		}
	}
	// ---- RPC call header: cred / verf lengths 0..401 ----
	for n := 0; n <= 402; n++ {
		body := content(n, true)
		for _, where := range []string{"cred", "verf"} {
			w := &xdrw.W{}
			w.U32(0x1234).U32(0).U32(2).U32(100003).U32(3).U32(uint32(n % 22))
			if where == "cred" {
				w.U32(1).Opaque(body).U32(0).U32(0)
			} else {
				w.U32(0).U32(0).U32(5).Opaque(body)
			}
			enc := w.B
			cr := &vfCountR{r: bytes.NewReader(append(append([]byte(nil), enc...), 1, 2, 3, 4, 5, 6, 7, 8))}
			rec.Eval(1)
			call, err := DecodeRPCCall(cr)
			if n > 400 {
				if err == nil {
					rec.Violate("C13/auth-over-limit-accepted/"+where, fmt.Sprintf("len %d", n), nil)
				}
			} else if err != nil {
				rec.Violate("C13/auth-within-limit-rejected/"+where, fmt.Sprintf("len %d: %v", n, err), nil)
			} else {
				got := call.Credential.Body
				if where == "verf" {
					got = call.Verifier.Body
				}
				if !bytes.Equal(got, body) || call.Header.Xid != 0x1234 || call.Header.Program != 100003 || call.Header.Procedure != uint32(n%22) {
					rec.Violate("C13/rpc-header-roundtrip-differs/"+where, fmt.Sprintf("len %d", n), nil)
				}
				if cr.n != len(enc) {
					rec.Violate("C13/rpc-header-consumed-wrong-length/"+where, fmt.Sprintf("len %d consumed %d want %d", n, cr.n, len(enc)), nil)
				}
				if n < 12 || n > 396 {
					for cut := 0; cut < len(enc); cut++ {
						if _, err := DecodeRPCCall(bytes.NewReader(enc[:cut])); err == nil {
							rec.Violate("C13/truncated-rpc-header-decoded", fmt.Sprintf("%s len %d cut %d", where, n, cut), nil)
						}
					}
				}
			}
			rec.Distinct(fmt.Sprintf("rpc-header|%s|len%%4=%d|over=%v", where, n%4, n > 400))
		}
	}
	for _, decl := range []uint32{401, 1 << 24, 1 << 31, 1<<32 - 1} {
		in := (&xdrw.W{}).U32(1).U32(0).U32(2).U32(100003).U32(3).U32(0).U32(1).U32(decl).Raw([]byte("abcd")).B
		var err error
		d := vfAllocDelta(func() { _, err = DecodeRPCCall(bytes.NewReader(in)) })
		rec.Eval(1)
		if err == nil {
			rec.Violate("C13/auth-over-limit-accepted/cred", fmt.Sprintf("declared %d", decl), nil)
		}
		if d > 64<<10 {
			rec.Violate("C13/allocation-before-limit-check/auth", fmt.Sprintf("declared %d allocated %d", decl, d), nil)
		}
	}
	// ---- AUTH_SYS bodies ----
	for ng := 0; ng <= 18; ng++ {
		gids := make([]uint32, ng)
		for i := range gids {
			gids[i] = rng.Uint32()
		}
		for _, mn := range []string{"", "a", "ab", "abc", "abcd", "host.example.org"} {
			body := xdrw.AuthSys(99, mn, 11, 22, gids).Body
			rec.Eval(1)
			cr, err := ParseAuthSysCredential(body)
			if ng > 16 {
				if err == nil {
					rec.Violate("C13/too-many-gids-accepted", fmt.Sprintf("%d gids", ng), nil)
				}
				continue
			}
			if err != nil {
				rec.Violate("C13/auth-sys-rejected", fmt.Sprintf("%d gids machine %q: %v", ng, mn, err), nil)
				continue
			}
			ok := cr.Stamp == 99 && cr.MachineName == mn && cr.UID == 11 && cr.GID == 22 && len(cr.AuxGIDs) == ng
			for i := range gids {
				ok = ok && cr.AuxGIDs[i] == gids[i]
			}
			if !ok {
				rec.Violate("C13/auth-sys-roundtrip-differs", fmt.Sprintf("%d gids machine %q", ng, mn), nil)
			}
			for cut := 0; cut < len(body); cut++ {
				if _, err := ParseAuthSysCredential(body[:cut]); err == nil {
					rec.Violate("C13/truncated-auth-sys-decoded", fmt.Sprintf("%d gids cut %d of %d", ng, cut, len(body)), nil)
				}
			}
			rec.Distinct(fmt.Sprintf("auth-sys|gids=%d|mn%%4=%d", ng, len(mn)%4))
		}
	}
	{
		in := (&xdrw.W{}).U32(1).Str("m").U32(1).U32(1).U32(0xffffffff).B
		var err error
		d := vfAllocDelta(func() { _, err = ParseAuthSysCredential(in) })
		if err == nil || d > 64<<10 {
			rec.Violate("C13/allocation-before-limit-check/gids", fmt.Sprintf("err=%v allocated %d", err, d), nil)
		}
	}
	// ---- record marking: all fragmentations of small records ----
	maxN := evid.Pick(10, 13)
	frags := 0
	for n := 1; n <= maxN; n++ {
		msg := content(n, true)
		for mask := 0; mask < 1<<(n-1); mask++ {
			var sizes []int
			run := 1
			for i := 0; i < n-1; i++ {
				if mask>>i&1 == 1 {
					sizes = append(sizes, run)
					run = 1
				} else {
					run++
				}
			}
			for _, zeros := range []bool{false, true} {
				sz := sizes
				if zeros {
					sz = nil
					for _, s := range sizes {
						sz = append(sz, 0, s)
					}
					sz = append(sz, 0)
				}
				stream := xdrw.Fragments(msg, sz)
				next := []byte{0x80, 0, 0, 2, 7, 7}
				rd := NewRecordMarkingReader(bytes.NewReader(append(append([]byte(nil), stream...), next...)))
				frags++
				got, err := rd.ReadRecord()
				if err != nil || !bytes.Equal(got, msg) {
					rec.Violate("C13/fragmentation-reassembles-differently", fmt.Sprintf("n=%d sizes=%v zeros=%v: %v", n, sizes, zeros, err), nil)
					continue
				}
				if nxt, err := rd.ReadRecord(); err != nil || !bytes.Equal(nxt, []byte{7, 7}) {
					rec.Violate("C13/record-boundary-lost", fmt.Sprintf("n=%d sizes=%v zeros=%v", n, sizes, zeros), nil)
				}
			}
		}
		rec.Distinct(fmt.Sprintf("fragmentations|n=%d", n))
	}
	rec.Eval(frags)
	rec.Set("fragmentations_checked", frags)
	// random fragmentations of large records; exact limit and limit+1
	for i := 0; i < evid.Pick(30, 600); i++ {
		n := []int{1 << 20, 1<<20 - 1, 70000, 4097, 1 + rng.Intn(1<<20)}[i%5]
		msg := content(n, true)
		var sizes []int
		left := n
		for left > 0 && len(sizes) < 200 {
			s := rng.Intn(left + 1)
			if rng.Intn(3) == 0 {
				s = rng.Intn(9)
			}
			if s > left {
				s = left
			}
			sizes = append(sizes, s)
			left -= s
		}
		rec.Eval(1)
		got, err := NewRecordMarkingReader(bytes.NewReader(xdrw.Fragments(msg, sizes))).ReadRecord()
		if err != nil || !bytes.Equal(got, msg) {
			rec.Violate("C13/fragmentation-reassembles-differently/large", fmt.Sprintf("n=%d frags=%d: %v", n, len(sizes)+1, err), nil)
		}
		rec.Distinct(fmt.Sprintf("large-record|n-class=%d", i%5))
	}
	for _, over := range [][]int{{1<<20 + 1}, {1 << 20, 1}, {1 << 19, 1 << 19, 1}, {0, 0, 1<<20 + 1}} {
		total := 0
		for _, s := range over {
			total += s
		}
		msg := make([]byte, total)
		rec.Eval(1)
		_, err := NewRecordMarkingReader(bytes.NewReader(xdrw.Fragments(msg[:total], over[:len(over)-1]))).ReadRecord()
		if err == nil {
			rec.Violate("C13/record-over-limit-accepted", fmt.Sprintf("fragments %v", over), nil)
		}
		rec.Distinct("record-over-limit")
	}
	for _, decl := range []uint32{1<<20 + 1, 1 << 30, 0x7fffffff} {
		in := (&xdrw.W{}).U32(0x80000000 | decl).Raw([]byte("tiny")).B
		var err error
		d := vfAllocDelta(func() { _, err = NewRecordMarkingReader(bytes.NewReader(in)).ReadRecord() })
		rec.Eval(1)
		if err == nil {
			rec.Violate("C13/record-over-limit-accepted", fmt.Sprintf("declared %d", decl), nil)
		}
		if d > 64<<10 {
			rec.Violate("C13/allocation-before-limit-check/record", fmt.Sprintf("declared %d allocated %d", decl, d), nil)
		}
		rec.Distinct(fmt.Sprintf("record-huge|decl=%d", decl))
	}
	// many small fragments that together exceed the limit
	{
		var stream []byte
		chunk := make([]byte, 4096)
		for i := 0; i < 300; i++ {
			stream = append(stream, (&xdrw.W{}).U32(4096).Raw(chunk).B...)
		}
		stream = append(stream, 0x80, 0, 0, 0)
		var err error
		d := vfAllocDelta(func() { _, err = NewRecordMarkingReader(bytes.NewReader(stream)).ReadRecord() })
		if err == nil {
			rec.Violate("C13/record-over-limit-accepted/many-fragments", "", nil)
		}
		if d > 6<<20 {
			rec.Violate("C13/allocation-beyond-record-limit/many-fragments", fmt.Sprintf("allocated %d", d), nil)
		}
	}
	// ---- writer then reader is the identity; writer output is valid record marking ----
	for _, fsz := range []int{1, 3, 4, 5, 1 << 20, 0, -1} {
		for _, n := range []int{0, 1, 2, 3, 4, 5, 6, 7, 8, 9, 1000, 1<<20 - 1, 1 << 20} {
			if fsz > 0 && fsz < 4 && n > 1000 {
				continue
			}
			msg := content(n, true)
			// the sink refuses to take more than any correct framing could need (a 4-byte header per
			// payload byte at the very worst), so a writer that makes no progress ends in an error here
			// instead of running for ever
			buf := &vfBoundedSink{limit: 5*n + 64}
			rec.Eval(1)
			if err := NewRecordMarkingWriterWithSize(buf, fsz).WriteRecord(msg); err != nil {
				if buf.over {
					rec.Violate("C13/writer-makes-no-progress", fmt.Sprintf("fragment size %d, record of %d bytes: the writer had emitted %d bytes (more than 5 per payload byte) when the sink stopped it", fsz, n, buf.b.Len()), nil)
				} else {
					rec.Violate("C13/writer-failed", fmt.Sprintf("fsz=%d n=%d: %v", fsz, n, err), nil)
				}
				continue
			}
			// independent reassembly
			raw := buf.b.Bytes()
			var re []byte
			pos, last := 0, false
			for pos+4 <= len(raw) && !last {
				h := uint32(raw[pos])<<24 | uint32(raw[pos+1])<<16 | uint32(raw[pos+2])<<8 | uint32(raw[pos+3])
				l := int(h & 0x7fffffff)
				last = h&0x80000000 != 0
				pos += 4
				if pos+l > len(raw) {
					break
				}
				re = append(re, raw[pos:pos+l]...)
				pos += l
			}
			if !last || pos != len(raw) || !bytes.Equal(re, msg) {
				rec.Violate("C13/writer-output-not-valid-record-marking", fmt.Sprintf("fsz=%d n=%d", fsz, n), nil)
			}
			got, err := NewRecordMarkingReader(bytes.NewReader(raw)).ReadRecord()
			if err != nil || !bytes.Equal(got, msg) {
				rec.Violate("C13/write-then-read-not-identity", fmt.Sprintf("fsz=%d n=%d: %v", fsz, n, err), nil)
			}
			rec.Distinct(fmt.Sprintf("writer|fsz=%d|n=%d", fsz, min64i(n, 1001)))
		}
	}
	// every boundary length word once more, for every decoder, under recover
	for _, decl := range []uint32{0xfffffffc, 0xfffffffd, 0xfffffffe, 0xffffffff, 0x80000000, 0x7fffffff, 401, 402, 403, 404, 8193, 65, 17} {
		tiny := []byte("abcdefgh")
		for name, f := range map[string]func(){
			"string":  func() { xdrDecodeString(bytes.NewReader((&xdrw.W{}).U32(decl).Raw(tiny).B)) },
			"handle":  func() { xdrDecodeFileHandle(bytes.NewReader((&xdrw.W{}).U32(decl).Raw(tiny).B)) },
			"cred":    func() { DecodeRPCCall(bytes.NewReader((&xdrw.W{}).U32(1).U32(0).U32(2).U32(100003).U32(3).U32(0).U32(1).U32(decl).Raw(tiny).B)) },
			"verf":    func() { DecodeRPCCall(bytes.NewReader((&xdrw.W{}).U32(1).U32(0).U32(2).U32(100003).U32(3).U32(0).U32(0).U32(0).U32(0).U32(decl).Raw(tiny).B)) },
			"authsys": func() { ParseAuthSysCredential((&xdrw.W{}).U32(1).U32(decl).Raw(tiny).B) },
			"gids":    func() { ParseAuthSysCredential((&xdrw.W{}).U32(1).Str("m").U32(0).U32(0).U32(decl).Raw(tiny).B) },
			"record":  func() { NewRecordMarkingReader(bytes.NewReader((&xdrw.W{}).U32(decl).Raw(tiny).B)).ReadRecord() },
		} {
			before := len(vfC13Panics)
			vfAllocDelta(f)
			rec.Eval(1)
			if len(vfC13Panics) > before {
				rec.Violate("C13/decoder-panics-on-hostile-length/"+name, fmt.Sprintf("declared length %#x: %s", decl, vfC13Panics[len(vfC13Panics)-1]), nil)
			}
			rec.Distinct(fmt.Sprintf("hostile-length|%s|%#x", name, decl))
		}
	}
	if len(vfC13Panics) > 0 {
		rec.Violate("C13/decoder-panicked", vfC13Panics[0], nil)
	}
	rec.Sample(map[string]any{"string_lengths": lens, "auth_lengths": "0..402", "handle_lengths": "0..70", "fragmentations_of_records_up_to": maxN})
}

// vfBoundedSink is an io.Writer that fails once more than limit bytes (or limit+64 Write calls) arrived.
type vfBoundedSink struct {
	b      bytes.Buffer
	limit  int
	writes int
	over   bool
}

func (s *vfBoundedSink) Write(p []byte) (int, error) {
	s.writes++
	if s.b.Len()+len(p) > s.limit || s.writes > s.limit+64 {
		s.over = true
		return 0, fmt.Errorf("sink budget exhausted")
	}
	return s.b.Write(p)
}
