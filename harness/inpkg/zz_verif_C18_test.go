//go:build verif

package absnfs

import (
	"strings"
	"fmt"
	"math/big"
	"runtime"
	"sync"
	"sync/atomic"
	"testing"
	"time"

	"verif.local/lib/evid"
	"verif.local/lib/refs"
	"verif.local/lib/rfc"
	"verif.local/lib/xdrw"
)

// C18 / C19: rate limiters on a virtual clock (build variant race+vclock:
// every time.Now()/time.Since() in rate_limiter.go is rewritten to vfNow()).
// Oracle: exact-arithmetic reference token buckets.

type vfBucket struct {
	tokens, burst, rate *big.Rat // rate in tokens per nanosecond
	last                time.Time
}

func vfNewBucket(ratePerSec *big.Rat, burst int64, now time.Time) *vfBucket {
	r := new(big.Rat).Quo(ratePerSec, big.NewRat(1e9, 1))
	return &vfBucket{tokens: big.NewRat(burst, 1), burst: big.NewRat(burst, 1), rate: r, last: now}
}

func (b *vfBucket) refill(now time.Time) {
	dt := now.Sub(b.last)
	if dt > 0 {
		b.tokens.Add(b.tokens, new(big.Rat).Mul(b.rate, big.NewRat(int64(dt), 1)))
		if b.tokens.Cmp(b.burst) > 0 {
			b.tokens.Set(b.burst)
		}
	}
	b.last = now
}

var (
	vfOne     = big.NewRat(1, 1)
	vfEps     = big.NewRat(1, 1_000_000)
	vfOneLow  = new(big.Rat).Sub(vfOne, vfEps)
	vfOneHigh = new(big.Rat).Add(vfOne, vfEps)
)

func (b *vfBucket) has(now time.Time, thr *big.Rat) bool { b.refill(now); return b.tokens.Cmp(thr) >= 0 }
func (b *vfBucket) take(now time.Time) {
	b.refill(now)
	b.tokens.Sub(b.tokens, vfOne)
	if b.tokens.Sign() < 0 { // a tolerated boundary admission; never go negative
		b.tokens.SetInt64(0)
	}
}

// vfRefLimiter mirrors the key structure of the rate limiter: global, per IP,
// per connection, per (IP, operation type).
type vfRefLimiter struct {
	cfg         RateLimiterConfig
	t0          time.Time
	admitted    map[string]*vfBucket // charged for admitted requests only (upper bound)
	conserv     map[string]*vfBucket // charged for every request that reached the limiter (must-admit rule)
	globalAdmit bool                 // C19: charge the conservative global bucket for admitted requests only
}

func vfOpBurst(op OperationType) int64 {
	return map[OperationType]int64{OpTypeReadLarge: 10, OpTypeWriteLarge: 5, OpTypeReaddir: 5, OpTypeMount: 2}[op]
}

func (r *vfRefLimiter) bucket(m map[string]*vfBucket, key string, now time.Time) *vfBucket {
	if b, ok := m[key]; ok {
		return b
	}
	var rate *big.Rat
	var burst int64
	c := r.cfg
	switch {
	case key == "global":
		rate, burst = big.NewRat(int64(c.GlobalRequestsPerSecond), 1), int64(c.GlobalRequestsPerSecond)
	case key[:3] == "ip:":
		rate, burst = big.NewRat(int64(c.PerIPRequestsPerSecond), 1), int64(c.PerIPBurstSize)
	case key[:3] == "cn:":
		rate, burst = big.NewRat(int64(c.PerConnectionRequestsPerSecond), 1), int64(c.PerConnectionBurstSize)
	default: // op:<type>:<ip>
		var op OperationType
		for _, o := range []OperationType{OpTypeReadLarge, OpTypeWriteLarge, OpTypeReaddir, OpTypeMount} {
			if len(key) > 3+len(o) && key[3:3+len(o)] == string(o) {
				op = o
			}
		}
		burst = vfOpBurst(op)
		switch op {
		case OpTypeReadLarge:
			rate = big.NewRat(int64(c.ReadLargeOpsPerSecond), 1)
		case OpTypeWriteLarge:
			rate = big.NewRat(int64(c.WriteLargeOpsPerSecond), 1)
		case OpTypeReaddir:
			rate = big.NewRat(int64(c.ReaddirOpsPerSecond), 1)
		default:
			rate = big.NewRat(int64(c.MountOpsPerMinute), 60)
		}
	}
	created := now
	if key == "global" {
		created = r.t0
	}
	b := vfNewBucket(rate, burst, created)
	m[key] = b
	return b
}

// judge is told the limiter's decision for one request over the given keys and
// returns a violation class or "".
func (r *vfRefLimiter) judge(keys []string, now time.Time, admitted bool) string {
	must := true
	for _, k := range keys {
		if !r.bucket(r.conserv, k, now).has(now, vfOneHigh) {
			must = false
		}
	}
	over := ""
	if admitted {
		for _, k := range keys {
			if !r.bucket(r.admitted, k, now).has(now, vfOneLow) {
				over = k
			}
		}
	}
	// account
	for _, k := range keys {
		if admitted {
			r.bucket(r.admitted, k, now).take(now)
		}
		if k == "global" && r.globalAdmit {
			if admitted {
				r.bucket(r.conserv, k, now).take(now)
			}
		} else {
			r.bucket(r.conserv, k, now).take(now)
		}
	}
	switch {
	case over != "":
		return "over-admission:" + over
	case must && !admitted:
		return "refused-with-room"
	}
	return ""
}

func vfKeyClass(k string) string {
	switch {
	case k == "global":
		return "global"
	case k[:3] == "ip:":
		return "per-ip"
	case k[:3] == "cn:":
		return "per-connection"
	}
	for _, o := range []OperationType{OpTypeReadLarge, OpTypeWriteLarge, OpTypeReaddir, OpTypeMount} {
		if len(k) > 3+len(o) && k[3:3+len(o)] == string(o) {
			return "op-" + string(o)
		}
	}
	return "?"
}

type vfRLEvent struct {
	Adv  time.Duration
	IP   int
	Conn int
	Op   int // 0 = AllowRequest, 1..4 = AllowOperation type
}

var vfOpTypes = []OperationType{"", OpTypeReadLarge, OpTypeWriteLarge, OpTypeReaddir, OpTypeMount}

// vfRunRL plays events against a fresh limiter; returns decisions and the first violation.
func vfRunRL(cfg RateLimiterConfig, evs []vfRLEvent, globalAdmit bool) (dec []bool, viol string, at int) {
	t0 := time.Unix(1_800_000_000, 0)
	vfClockSet(t0)
	rl := NewRateLimiter(cfg)
	ref := &vfRefLimiter{cfg: cfg, t0: t0, admitted: map[string]*vfBucket{}, conserv: map[string]*vfBucket{}, globalAdmit: globalAdmit}
	now := t0
	at = -1
	for i, e := range evs {
		now = now.Add(e.Adv)
		vfClockSet(now)
		ip := vfRLIP(e.IP)
		var ok bool
		var keys []string
		if e.Op == 0 {
			conn := fmt.Sprintf("conn-%d-%d", e.IP, e.Conn)
			ok = rl.AllowRequest(ip, conn)
			keys = []string{"global", "ip:" + ip}
			if cfg.PerConnectionRequestsPerSecond > 0 {
				keys = append(keys, "cn:"+conn)
			}
		} else {
			ok = rl.AllowOperation(ip, vfOpTypes[e.Op])
			keys = []string{"op:" + string(vfOpTypes[e.Op]) + ":" + ip}
		}
		dec = append(dec, ok)
		if v := ref.judge(keys, now, ok); v != "" && viol == "" {
			viol, at = v, i
		}
	}
	return
}

func vfGenRLEvents(rng interface{ Intn(int) int }, cfg RateLimiterConfig, n int) []vfRLEvent {
	advs := []time.Duration{0, 0, 0, 1, time.Millisecond, time.Second, 3 * time.Second, cfg.CleanupInterval + time.Millisecond, 61 * time.Second}
	for _, r := range []int{cfg.GlobalRequestsPerSecond, cfg.PerIPRequestsPerSecond, cfg.PerConnectionRequestsPerSecond, cfg.ReaddirOpsPerSecond} {
		if r > 0 {
			advs = append(advs, time.Second/time.Duration(r), time.Second/time.Duration(r)-1, time.Second/time.Duration(r)+1)
		}
	}
	if cfg.MountOpsPerMinute > 0 {
		advs = append(advs, time.Minute/time.Duration(cfg.MountOpsPerMinute))
	}
	nip := 1 + rng.Intn(4)
	evs := make([]vfRLEvent, n)
	for i := range evs {
		e := vfRLEvent{IP: 1 + rng.Intn(nip), Conn: rng.Intn(3)}
		if rng.Intn(3) > 0 {
			e.Adv = advs[rng.Intn(len(advs))]
		}
		if rng.Intn(3) == 0 {
			e.Op = 1 + rng.Intn(4)
		}
		evs[i] = e
	}
	return evs
}

func vfGenRLConfig(rng interface{ Intn(int) int }) RateLimiterConfig {
	v := []int{0, 1, 3, 100}
	return RateLimiterConfig{
		GlobalRequestsPerSecond:        []int{0, 1, 3, 100, 1000}[rng.Intn(5)],
		PerIPRequestsPerSecond:         v[rng.Intn(4)],
		PerIPBurstSize:                 v[rng.Intn(4)],
		PerConnectionRequestsPerSecond: v[rng.Intn(4)],
		PerConnectionBurstSize:         v[rng.Intn(4)],
		ReadLargeOpsPerSecond:          v[rng.Intn(4)],
		WriteLargeOpsPerSecond:         v[rng.Intn(4)],
		ReaddirOpsPerSecond:            v[rng.Intn(4)],
		MountOpsPerMinute:              []int{0, 1, 7, 60}[rng.Intn(4)],
		CleanupInterval:                []time.Duration{time.Millisecond, time.Hour}[rng.Intn(2)],
	}
}

func TestVerif_C18(t *testing.T) {
	rec := evid.New("C18")
	rec.Rule = "seeded event sequences (200-1000 steps) of AllowRequest/AllowOperation over 1-4 IPs x 3 connections x 4 operation types with clock advances from {0,1ns,1ms,1/rate(+-1ns),1s,3s,>cleanup interval,61s}, for rate/burst in {0,1,3,100} per level, fractional mount rates, per-connection limit on/off, cleanup interval {1ms,1h}; every decision judged against exact reference buckets; each sequence replayed with the other cleanup interval; plus per-operation limits driven through the READ/WRITE/READDIR/MNT handlers; distinct = (limiter key class, admitted, reference state class) tuples"
	defer rec.Write()
	if !vfVirtualClock {
		rec.Infra("C18 needs the vclock build variant")
		return
	}
	seqs := evid.Pick(300, 20000)
	for s := 0; s < seqs && rec.Violations() < 20; s++ {
		rng := evid.Rng(18, int64(s))
		cfg := vfGenRLConfig(rng)
		evs := vfGenRLEvents(rng, cfg, 200+rng.Intn(evid.Pick(300, 800)))
		dec, viol, at := vfRunRL(cfg, evs, false)
		rec.Eval(len(evs))
		desc := map[string]any{"config": cfg, "events": evs[:min64i(len(evs), at+1+0)], "seq": s}
		if viol != "" {
			if viol == "refused-with-room" {
				rec.Violate("C18/refused-although-every-level-has-room", fmt.Sprintf("sequence %d step %d: request refused while the global, per-IP and per-connection reference buckets (charged for every request) all hold >= 1 token", s, at), desc)
			} else {
				rec.Violate("C18/admitted-beyond-burst-plus-rate-x-elapsed/"+vfKeyClass(viol[len("over-admission:"):]), fmt.Sprintf("sequence %d step %d: admitted although reference bucket %s is empty", s, at, viol), desc)
			}
		}
		// cleanup independence
		cfg2 := cfg
		if cfg.CleanupInterval == time.Hour {
			cfg2.CleanupInterval = time.Millisecond
		} else {
			cfg2.CleanupInterval = time.Hour
		}
		dec2, _, _ := vfRunRL(cfg2, evs, false)
		for i := range dec {
			if dec[i] != dec2[i] {
				rec.Violate("C18/cleanup-interval-changes-decision", fmt.Sprintf("sequence %d step %d: %v with cleanup %v, %v with %v", s, i, dec[i], cfg.CleanupInterval, dec2[i], cfg2.CleanupInterval), map[string]any{"config": cfg, "events": evs[:i+1]})
				break
			}
		}
		adm := 0
		for i, d := range dec {
			if d {
				adm++
			}
			if i < 50 {
				rec.Distinct(fmt.Sprintf("op=%d|admitted=%v|adv=%s", evs[i].Op, d, vfAdvClass(evs[i].Adv)))
			}
		}
		rec.Distinct(fmt.Sprintf("cfg|g=%d ip=%d/%d cn=%d/%d|admitted-frac=%d", cfg.GlobalRequestsPerSecond, cfg.PerIPRequestsPerSecond, cfg.PerIPBurstSize, cfg.PerConnectionRequestsPerSecond, cfg.PerConnectionBurstSize, adm*4/len(dec)))
		if s == 0 {
			rec.Sample(map[string]any{"config": cfg, "first_events": evs[:12], "decisions": dec[:12]})
		}
	}
	vfC18Handlers(rec)
	vfC18ZeroRates(rec)
	vfC18SamePeerAddress(rec)
}

func vfAdvClass(d time.Duration) string {
	switch {
	case d == 0:
		return "0"
	case d < time.Millisecond:
		return "<1ms"
	case d < time.Second:
		return "<1s"
	}
	return ">=1s"
}

// vfC18Handlers checks the wiring of the per-operation limits through the handlers.
func vfC18Handlers(rec *evid.Rec) {
	t0 := time.Unix(1_800_000_000, 0)
	vfClockSet(t0)
	cfg := DefaultRateLimiterConfig()
	cfg.ReadLargeOpsPerSecond, cfg.WriteLargeOpsPerSecond, cfg.ReaddirOpsPerSecond, cfg.MountOpsPerMinute = 2, 2, 2, 6
	fs := refs.New()
	fs.PlantFile("/f", make([]byte, 200000), 0666, 0, 0)
	srv, err := vfNewSrv(fs, ExportOptions{AttrCacheTimeout: 1, TransferSize: 262144, EnableRateLimiting: true, RateLimitConfig: &cfg})
	if err != nil {
		rec.Infra(err.Error())
		return
	}
	defer srv.Close()
	c := srv.client()
	root, _ := c.mnt("/")
	l, _ := c.lookup(root, "f")
	if l == nil || l.Status != 0 {
		rec.Infra("lookup")
		return
	}
	fh := vfFH(l.FH)
	status := func(prog, proc uint32, args []byte, cl *vfClient) (uint32, bool) {
		_, raw, err := cl.rawCall(prog, 3, proc, args)
		if err != nil || len(raw) < 28 {
			return 0, false
		}
		b := raw[24:28]
		return uint32(b[0])<<24 | uint32(b[1])<<16 | uint32(b[2])<<8 | uint32(b[3]), true
	}
	big := make([]byte, 70000)
	type kase struct {
		name       string
		prog, proc uint32
		args       []byte
		burst      int
		perTick    time.Duration
	}
	for _, k := range []kase{
		{"large-read", vfProgNFS, 6, xdrw.ArgRead(fh, 0, 100000), 10, 500 * time.Millisecond},
		{"large-write", vfProgNFS, 7, xdrw.ArgWrite(fh, 0, 70000, 2, big), 5, 500 * time.Millisecond},
		{"readdir", vfProgNFS, 16, xdrw.ArgReaddir(root, 0, [8]byte{}, 4096), 5, 500 * time.Millisecond},
		{"mount", vfProgMount, 1, (&xdrw.W{}).Str("/").B, 2, 10 * time.Second},
	} {
		cl := srv.client()
		cl.IP = "10.9.9." + fmt.Sprint(len(k.name))
		served := 0
		for i := 0; i < k.burst+6; i++ {
			rec.Eval(1)
			if st, ok := status(k.prog, k.proc, k.args, cl); ok && st == 0 {
				served++
			}
		}
		if served > k.burst {
			rec.Violate("C18/handler/admitted-beyond-burst/"+k.name, fmt.Sprintf("%d requests served on a frozen clock, burst is %d", served, k.burst), nil)
		}
		if served < k.burst {
			rec.Violate("C18/handler/refused-with-room/"+k.name, fmt.Sprintf("only %d of the first %d requests served on a frozen clock", served, k.burst), nil)
		}
		// one token later exactly one more is served
		vfClockAdvance(k.perTick + time.Microsecond)
		more := 0
		for i := 0; i < 3; i++ {
			if st, ok := status(k.prog, k.proc, k.args, cl); ok && st == 0 {
				more++
			}
		}
		if more != 1 {
			rec.Violate("C18/handler/refill-wrong/"+k.name, fmt.Sprintf("after 1/rate of virtual time %d requests were served, want 1", more), nil)
		}
		// another IP is unaffected
		other := srv.client()
		other.IP = "10.8.8.8"
		if st, ok := status(k.prog, k.proc, k.args, other); !ok || st != 0 {
			rec.Violate("C18/handler/other-ip-refused/"+k.name, fmt.Sprintf("status %d", st), nil)
		}
		rec.Distinct(fmt.Sprintf("handler|%s|served=%d|more=%d", k.name, served, more))
	}
	// The mount limit covers MNT requests whatever becomes of them: requests for paths that do not
	// resolve are work done for the client too (they reach the backend). On a frozen clock at most
	// `burst` MNT requests of one address may reach the backend or be served, however they are mixed.
	for vi, paths := range [][]string{{"/nope"}, {"/nope", "/"}, {"/", "/missing/deeper", "/f"}} {
		vfClockAdvance(10 * time.Minute) // every bucket full again
		cl := srv.client()
		cl.IP = fmt.Sprintf("10.7.7.%d", vi+1)
		worked := 0
		for i := 0; i < 8; i++ {
			lo := fs.LogLen()
			rec.Eval(1)
			st, ok := status(vfProgMount, 1, (&xdrw.W{}).Str(paths[i%len(paths)]).B, cl)
			if ok && (st == 0 || fs.LogLen() > lo) {
				worked++
			}
		}
		if worked > 2 {
			rec.Violate("C18/handler/admitted-beyond-burst/mount/paths-that-do-not-resolve", fmt.Sprintf("%d of 8 MNT requests (paths %v) were served or reached the backend on a frozen clock, the mount burst is 2", worked, paths), nil)
		}
		rec.Distinct(fmt.Sprintf("handler|mount-mixed-paths|variant=%d|worked=%d", vi, worked))
	}
}

// C19: traffic refused to one client does not consume capacity shared with others.
func TestVerif_C19(t *testing.T) {
	rec := evid.New("C19")
	rec.Rule = "two-population scenarios on a virtual clock: one abusive client sending k x its per-IP / per-connection limit interleaved in seeded orders with 1-3 compliant clients at <=50% of their limits, global limit a small multiple of the compliant load; must-admit rule with the global reference bucket charged for admitted requests only; distinct = (limit configuration class, abuser factor, compliant outcome) tuples"
	defer rec.Write()
	if !vfVirtualClock {
		rec.Infra("C19 needs the vclock build variant")
		return
	}
	scen := evid.Pick(200, 10000)
	for s := 0; s < scen && rec.Violations() < 10; s++ {
		rng := evid.Rng(19, int64(s))
		perIP := []int{2, 5, 20}[rng.Intn(3)]
		burst := []int{1, 2, 5, 10}[rng.Intn(4)]
		ncomp := 1 + rng.Intn(3)
		global := []int{ncomp * perIP, 2 * ncomp * perIP, 10, 50}[rng.Intn(4)]
		// three shapes: no per-connection limit; one equal to the per-IP limit; and a tight
		// per-connection limit under a generous per-IP limit (the abuser is then refused by
		// its connection's limit while its address is still within limits)
		connRate, connBurst, ipRate, ipBurst := 0, burst, perIP, burst
		switch s % 3 {
		case 1:
			connRate = perIP
		case 2:
			connRate, ipRate, ipBurst = perIP, perIP*100, burst*100
		}
		cfg := RateLimiterConfig{GlobalRequestsPerSecond: global, PerIPRequestsPerSecond: ipRate, PerIPBurstSize: ipBurst,
			PerConnectionRequestsPerSecond: connRate, PerConnectionBurstSize: connBurst, CleanupInterval: time.Hour,
			ReadLargeOpsPerSecond: 1, WriteLargeOpsPerSecond: 1, ReaddirOpsPerSecond: 1, MountOpsPerMinute: 1}
		factor := []int{3, 10, 50}[rng.Intn(3)]
		// one virtual second is sliced into ticks; per tick the abuser sends `factor` requests
		// per allowed one, the compliant clients send at half their rate
		var evs []vfRLEvent
		ticks := 40 + rng.Intn(100)
		tick := time.Second / time.Duration(perIP)
		for i := 0; i < ticks; i++ {
			adv := tick
			for j := 0; j < factor; j++ {
				evs = append(evs, vfRLEvent{Adv: adv, IP: 1})
				adv = 0
			}
			if i%2 == 0 {
				for c := 0; c < ncomp; c++ {
					evs = append(evs, vfRLEvent{IP: 2 + c})
				}
			}
		}
		// seeded local shuffles that keep time monotone
		for i := 0; i+1 < len(evs); i++ {
			if evs[i+1].Adv == 0 && evs[i].Adv == 0 && rng.Intn(2) == 0 {
				evs[i], evs[i+1] = evs[i+1], evs[i]
			}
		}
		dec, viol, at := vfRunRL(cfg, evs, true)
		rec.Eval(len(evs))
		compRefused, compTotal := 0, 0
		for i, e := range evs {
			if e.IP != 1 {
				compTotal++
				if !dec[i] {
					compRefused++
				}
			}
		}
		if viol == "refused-with-room" {
			who := "compliant"
			if evs[at].IP == 1 {
				who = "abuser"
			}
			rec.Violate("C19/client-within-limits-refused-while-admitted-traffic-within-global-limit/"+who,
				fmt.Sprintf("scenario %d step %d: %s client %s refused although the requests actually admitted leave global capacity and its own limits have room (abuser factor %d, global %d/s, per-IP %d/s burst %d); %d of %d compliant requests refused in this scenario", s, at, who, vfRLIP(evs[at].IP), factor, global, perIP, burst, compRefused, compTotal),
				map[string]any{"config": cfg, "events": evs[:at+1]})
		} else if viol != "" {
			rec.Violate("C19/"+viol, fmt.Sprintf("scenario %d step %d", s, at), map[string]any{"config": cfg, "events": evs[:at+1]})
		}
		rec.Distinct(fmt.Sprintf("global/compliant-load=%d|factor=%d|limit-shape=%d|compliant-refused=%v", global/(ncomp*perIP), factor, s%3, compRefused > 0))
		if s == 0 {
			rec.Sample(map[string]any{"config": cfg, "first_events": evs[:15], "decisions": dec[:15]})
		}
	}
	// Concurrent variant on a FROZEN clock (nothing is ever refilled, so the budget arithmetic is
	// exact whatever the schedule): the abuser first spends its own allowance, which leaves the
	// global bucket with exactly K tokens; then many goroutines keep sending for the abuser (every
	// one of those requests is refused by the abuser's own limit) while K requests arrive from K
	// fresh, compliant addresses. Refused traffic consumes no global capacity, so all K must be
	// admitted - in every interleaving.
	conc := evid.Pick(60, 1500)
	for s := 0; s < conc && rec.Violations() < 10; s++ {
		rng := evid.Rng(1919, int64(s))
		own := 1 + rng.Intn(6)   // the abuser's own allowance (burst)
		k := 1 + rng.Intn(5)     // compliant requests = what the global bucket has left
		shape := s % 2           // 0: refused by the per-IP limit, 1: refused by a tight per-connection limit
		cfg := RateLimiterConfig{GlobalRequestsPerSecond: own + k, PerIPRequestsPerSecond: 1, PerIPBurstSize: own, CleanupInterval: time.Hour,
			ReadLargeOpsPerSecond: 1, WriteLargeOpsPerSecond: 1, ReaddirOpsPerSecond: 1, MountOpsPerMinute: 1}
		if shape == 1 {
			cfg.PerIPBurstSize, cfg.PerIPRequestsPerSecond = 1000000, 1000000
			cfg.PerConnectionRequestsPerSecond, cfg.PerConnectionBurstSize = 1, own
		}
		vfClockSet(time.Unix(1_800_000_000, 0))
		rl := NewRateLimiter(cfg)
		abuser := []string{"10.0.0.1", "2001:db8::bad", "::ffff:10.0.0.1"}[s%3]
		spent := 0
		for i := 0; i < own+3; i++ {
			if rl.AllowRequest(abuser, "conn-abuser") {
				spent++
			}
		}
		if spent != own {
			rec.Violate("C19/concurrent/setup-allowance-differs", fmt.Sprintf("abuser admitted %d times with an allowance of %d", spent, own), cfg)
			continue
		}
		nab := 4 + rng.Intn(12)
		var stop atomic.Bool
		var refusedAbuser, admittedAbuser atomic.Int64
		var wg sync.WaitGroup
		for g := 0; g < nab; g++ {
			wg.Add(1)
			go func() {
				defer wg.Done()
				for !stop.Load() {
					if rl.AllowRequest(abuser, "conn-abuser") {
						admittedAbuser.Add(1)
					} else {
						refusedAbuser.Add(1)
					}
				}
			}()
		}
		// let the flood get going (bounded spin on an observed count, no sleep decides anything)
		for i := 0; i < 1_000_000 && refusedAbuser.Load() < int64(50*nab); i++ {
			runtime.Gosched()
		}
		refusedCompliant := 0
		for c := 0; c < k; c++ {
			for y := rng.Intn(4); y > 0; y-- {
				runtime.Gosched()
			}
			if !rl.AllowRequest([]string{fmt.Sprintf("10.0.1.%d", c+1), fmt.Sprintf("2001:db8:1::%x", c+1), fmt.Sprintf("::ffff:10.0.2.%d", c+1)}[(s+c)%3], fmt.Sprintf("conn-c%d", c)) {
				refusedCompliant++
			}
		}
		stop.Store(true)
		wg.Wait()
		rec.Eval(k + int(refusedAbuser.Load()))
		rec.Add("concurrent_refused_abuser_requests", int(refusedAbuser.Load()))
		if admittedAbuser.Load() > 0 {
			rec.Violate("C19/concurrent/abuser-admitted-beyond-its-allowance", fmt.Sprintf("%d extra admissions on a frozen clock", admittedAbuser.Load()), cfg)
		}
		if refusedCompliant > 0 {
			rec.Violate("C19/concurrent/client-within-limits-refused-while-admitted-traffic-within-global-limit",
				fmt.Sprintf("frozen clock, global budget %d, abuser admitted %d times and then refused %d times by its own limit from %d goroutines: %d of %d requests from fresh compliant addresses were refused although only %d requests had ever been admitted",
					own+k, own, refusedAbuser.Load(), nab, refusedCompliant, k, own+k-refusedCompliant),
				map[string]any{"config": cfg, "abuser_goroutines": nab, "compliant_requests": k})
		}
		rec.Distinct(fmt.Sprintf("concurrent|refused-by=%s|abusers=%d|k=%d|compliant-refused=%v", []string{"per-ip", "per-connection"}[shape], nab/4*4, k, refusedCompliant > 0))
	}
	for ep := 0; ep < evid.Pick(6, 60) && rec.Violations() < 10; ep++ {
		vfC19Connections(rec, ep)
	}
	for ep := 0; ep < evid.Pick(4, 40) && rec.Violations() < 10; ep++ {
		vfC19FloodWhileTimePasses(rec, ep)
	}
}

// vfC19FloodWhileTimePasses: the real connection loop (debug logging on and off), virtual time
// advancing in small steps. One connection floods far beyond its own per-connection limit - every
// one of those requests is refused - while another client sends well within all its limits and well
// within the global rate. Refused traffic neither takes global tokens nor disturbs their refill, so
// every request of the well-behaved client is admitted.
func vfC19FloodWhileTimePasses(rec *evid.Rec, ep int) {
	rng := evid.Rng(19191, int64(ep))
	t0 := time.Unix(1_800_000_000, 0)
	vfClockSet(t0)
	rl := DefaultRateLimiterConfig()
	// budgets: global 100/s (burst 100); per connection 20/s (burst 5); per address unlimited.
	// The well-behaved client sends 10/s: within its connection's limit. The flooder can be admitted
	// at most 5 + 20/s: together at most 30/s against a global refill of 100/s - the global bucket
	// never runs low, so the well-behaved client is admitted every single time.
	rl.GlobalRequestsPerSecond = 100
	rl.PerIPRequestsPerSecond, rl.PerIPBurstSize = 1000000, 1000000
	rl.PerConnectionRequestsPerSecond, rl.PerConnectionBurstSize = 20, 5
	rl.CleanupInterval = time.Hour
	fs := refs.New()
	srv, err := vfNewSrv(fs, ExportOptions{AttrCacheTimeout: 1, EnableRateLimiting: true, RateLimitConfig: &rl})
	if err != nil {
		rec.Infra(err.Error())
		return
	}
	defer srv.Close()
	debug := ep%2 == 0
	srv.srv.options.Debug = debug
	flood := srv.pipe("10.0.0.66", 900)
	good := srv.pipe("10.0.0.7", 901)
	defer flood.close()
	defer good.close()
	admitted := func(p *vfPipe) (bool, bool) {
		_, raw, err := p.call(vfProgNFS, 3, 0, vfRootCred(), nil)
		if err != nil {
			return false, false
		}
		rep, derr := rfc.DecodeReply(raw)
		return derr == nil && !rep.Denied, derr == nil
	}
	now := t0
	refusedFlood, goodSent, goodRefused := 0, 0, 0
	// 8 virtual seconds: the good client sends every 100 ms; the flooder sends 8-47 requests in
	// each of those slots
	for slot := 0; slot < 80; slot++ {
		nflood := 8 + rng.Intn(40)
		for i := 0; i < nflood; i++ {
			// spread over the whole slot (in the odd episodes: bunched at its start)
			step := 100 * time.Millisecond / time.Duration(nflood+1)
			if ep%4 >= 2 {
				step = time.Duration(20+rng.Intn(80)) * time.Microsecond
			}
			now = now.Add(step)
			vfClockSet(now)
			a, ok := admitted(flood)
			if !ok {
				rec.Inconclusive(1)
				return
			}
			if !a {
				refusedFlood++
			}
		}
		now = t0.Add(time.Duration(slot+1) * 100 * time.Millisecond)
		vfClockSet(now)
		a, ok := admitted(good)
		if !ok {
			rec.Inconclusive(1)
			return
		}
		goodSent++
		if !a {
			goodRefused++
		}
	}
	rec.Eval(goodSent + refusedFlood)
	if goodRefused > 0 {
		rec.Violate("C19/connection/client-within-limits-refused-while-a-flood-is-being-refused", fmt.Sprintf("virtual clock, debug logging %v: %d of %d requests of a client sending 10/s (connection limit 20/s, global 100/s) were refused while another connection had %d requests refused by its own limit", debug, goodRefused, goodSent, refusedFlood), map[string]any{"debug": debug, "episode": ep})
	}
	rec.Distinct(fmt.Sprintf("flood-while-time-passes|debug=%v|good-refused=%v", debug, goodRefused > 0))
}

// vfC19Connections: per-connection budgets at the server level (real TCP, frozen clock, so a
// connection has exactly its burst). Connections come and go; one of the later ones floods past its
// own per-connection limit. Every other open connection must still get what is left of ITS burst:
// a refused request of one connection consumes nothing of another's.
func vfC19Connections(rec *evid.Rec, ep int) {
	rng := evid.Rng(191919, int64(ep))
	vfClockSet(time.Unix(1_800_000_000, 0))
	burst := 3 + rng.Intn(3)
	rl := DefaultRateLimiterConfig()
	rl.GlobalRequestsPerSecond, rl.PerIPRequestsPerSecond, rl.PerIPBurstSize = 1000000, 1000000, 1000000
	rl.PerConnectionRequestsPerSecond, rl.PerConnectionBurstSize = 1, burst
	fs := refs.New()
	srv, err := vfNewSrv(fs, ExportOptions{AttrCacheTimeout: 1, EnableRateLimiting: true, RateLimitConfig: &rl})
	if err != nil {
		rec.Infra(err.Error())
		return
	}
	defer srv.Close()
	if err := srv.srv.Listen(); err != nil {
		rec.Inconclusive(1)
		return
	}
	defer srv.srv.Stop()
	port := srv.srv.GetPort()
	null := func(c *vfRM) (admitted, ok bool) {
		raw, closed, err := c.call(vfProgNFS, 0, nil)
		if err != nil || closed {
			return false, false
		}
		rep, derr := rfc.DecodeReply(raw)
		return derr == nil && !rep.Denied, derr == nil
	}
	type cn struct {
		c    *vfRM
		used int
		name string
	}
	var open []*cn
	dial := func(name string) *cn {
		c, err := vfDialRM(port)
		if err != nil {
			return nil
		}
		x := &cn{c: c, name: name}
		open = append(open, x)
		return x
	}
	connCount := func() int {
		srv.srv.connMutex.Lock()
		defer srv.srv.connMutex.Unlock()
		return len(srv.srv.activeConns)
	}
	var ops []string
	openOne := func(name string) bool {
		x := dial(name)
		if x == nil {
			return false
		}
		ops = append(ops, "open "+x.name)
		// one request, so that the server has met the connection
		if a, ok := null(x.c); ok {
			x.used++
			if !a {
				rec.Violate("C19/connection/fresh-connection-refused", fmt.Sprintf("first request of %s refused (burst %d) after %v", x.name, burst, ops), nil)
			}
		}
		return true
	}
	closeOne := func(i int) bool {
		ops = append(ops, "close "+open[i].name)
		open[i].c.c.Close()
		open = append(open[:i], open[i+1:]...)
		want := len(open)
		for d := time.Now().Add(10 * time.Second); connCount() != want && time.Now().Before(d); {
			time.Sleep(time.Millisecond)
		}
		return connCount() == want
	}
	request := func(x *cn) bool {
		ops = append(ops, "request "+x.name)
		a, ok := null(x.c)
		if !ok {
			return false
		}
		rec.Eval(1)
		if a {
			x.used++
		} else if x.used < burst {
			rec.Violate("C19/connection/within-its-own-limit-refused-after-another-connections-flood", fmt.Sprintf("%s had used %d of its burst of %d (frozen clock, global and per-IP limits far away) and was refused: %v", x.name, x.used, burst, ops), map[string]any{"ops": ops})
			x.used = burst // resynchronise: nothing more is expected of it
		}
		if x.used > burst {
			rec.Violate("C19/connection/admitted-beyond-its-burst-on-a-frozen-clock", fmt.Sprintf("%s admitted %d times, burst %d: %v", x.name, x.used, burst, ops), nil)
		}
		return true
	}
	// start with 2-3 connections, then rounds of: one leaves, a new one arrives and floods past its
	// limit, every connection that was there before asks for one more request
	for i := 0; i < 2+rng.Intn(2); i++ {
		if !openOne(fmt.Sprintf("s%d", i)) {
			rec.Inconclusive(1)
			return
		}
	}
	for round := 0; round < 5; round++ {
		if len(open) > 1 && rng.Intn(4) != 0 {
			if !closeOne(rng.Intn(len(open))) {
				rec.Inconclusive(1)
				return
			}
		}
		old := append([]*cn(nil), open...)
		if !openOne(fmt.Sprintf("r%d", round)) {
			rec.Inconclusive(1)
			return
		}
		x := open[len(open)-1]
		ops = append(ops, "flood "+x.name)
		for i := 0; i < burst+8; i++ {
			a, ok := null(x.c)
			if !ok {
				rec.Inconclusive(1)
				return
			}
			if a {
				x.used++
			}
		}
		rec.Eval(burst + 8)
		if x.used > burst {
			rec.Violate("C19/connection/admitted-beyond-its-burst-on-a-frozen-clock", fmt.Sprintf("%s admitted %d times, burst %d: %v", x.name, x.used, burst, ops), nil)
		}
		for _, o := range old {
			if !request(o) {
				rec.Inconclusive(1)
				return
			}
		}
	}
	for _, x := range open {
		x.c.c.Close()
	}
	rec.Distinct(fmt.Sprintf("connections|burst=%d|steps=%d", burst, len(ops)/4*4))
}

// vfRLIP names client k: IPv4, genuine IPv6 and IPv4-mapped IPv6 addresses take turns, so that
// every population has clients of each family (distinct clients never share an address).
func vfRLIP(k int) string {
	switch k % 3 {
	case 1:
		return fmt.Sprintf("2001:db8::%x", k)
	case 2:
		return fmt.Sprintf("::ffff:10.0.1.%d", k)
	}
	return fmt.Sprintf("10.0.0.%d", k)
}

// vfC18ZeroRates: a configuration the administrator wrote with rates of zero ("the burst and no
// refill") given to New(), to UpdateExportOptions and to UpdatePolicyOptions. The bound of the
// statement is burst + rate x elapsed with the CONFIGURED rate: once the burst is used up no amount
// of (virtual) time admits another request of that kind.
func vfC18ZeroRates(rec *evid.Rec) {
	for _, via := range []string{"New", "UpdateExportOptions", "UpdatePolicyOptions"} {
		t0 := time.Unix(1_800_000_000, 0)
		vfClockSet(t0)
		cfg := DefaultRateLimiterConfig()
		cfg.ReadLargeOpsPerSecond, cfg.WriteLargeOpsPerSecond, cfg.ReaddirOpsPerSecond, cfg.MountOpsPerMinute = 0, 0, 0, 0
		fs := refs.New()
		fs.PlantFile("/f", make([]byte, 200000), 0666, 0, 0)
		o := ExportOptions{AttrCacheTimeout: 1, TransferSize: 262144}
		if via == "New" {
			o.EnableRateLimiting, o.RateLimitConfig = true, &cfg
		}
		srv, err := vfNewSrv(fs, o)
		if err != nil {
			rec.Infra(err.Error())
			return
		}
		switch via {
		case "UpdateExportOptions":
			u := srv.nfs.GetExportOptions()
			u.EnableRateLimiting, u.RateLimitConfig = true, &cfg
			if err := srv.nfs.UpdateExportOptions(u); err != nil {
				rec.Distinct("zero-rates|" + via + "|update-refused")
				srv.Close()
				continue
			}
		case "UpdatePolicyOptions":
			p := *srv.nfs.policy.Load()
			p.EnableRateLimiting, p.RateLimitConfig = true, &cfg
			if err := srv.nfs.UpdatePolicyOptions(p); err != nil {
				rec.Distinct("zero-rates|" + via + "|update-refused")
				srv.Close()
				continue
			}
		}
		c := srv.client()
		c.IP = "10.7.7.7"
		root, err := c.mnt("/")
		if err != nil {
			// with a mount rate of zero the very first MNT may already be beyond the budget
			c2 := srv.client()
			root, err = c2.mnt("/")
		}
		l, _ := srv.client().lookup(root, "f")
		if err != nil || l == nil || l.Status != 0 {
			rec.Distinct("zero-rates|" + via + "|no-handle")
			srv.Close()
			continue
		}
		fh := vfFH(l.FH)
		status := func(proc uint32, args []byte) (uint32, bool) {
			_, raw, err := c.rawCall(vfProgNFS, 3, proc, args)
			if err != nil || len(raw) < 28 {
				return 0, false
			}
			b := raw[24:28]
			return uint32(b[0])<<24 | uint32(b[1])<<16 | uint32(b[2])<<8 | uint32(b[3]), true
		}
		for _, k := range []struct {
			name string
			proc uint32
			args []byte
		}{
			{"large-read", 6, xdrw.ArgRead(fh, 0, 100000)},
			{"large-write", 7, xdrw.ArgWrite(fh, 0, 70000, 2, make([]byte, 70000))},
			{"readdir", 16, xdrw.ArgReaddir(root, 0, [8]byte{}, 4096)},
		} {
			first := 0
			for i := 0; i < 40; i++ {
				rec.Eval(1)
				if st, ok := status(k.proc, k.args); ok && st == 0 {
					first++
				}
			}
			// the burst is used up (40 is above every burst of these kinds); now time passes
			later := 0
			for step := 0; step < 5; step++ {
				vfClockAdvance(13 * time.Second)
				for i := 0; i < 3; i++ {
					if st, ok := status(k.proc, k.args); ok && st == 0 {
						later++
					}
				}
			}
			if first < 40 && later > 0 {
				rec.Violate("C18/handler/admitted-beyond-burst-plus-rate-x-elapsed/configured-rate-zero/"+k.name, fmt.Sprintf("rate limiting configured through %s with a rate of 0 for %s: %d requests were served on a frozen clock (the burst), then %d more as 65 s of virtual time passed; the bound is burst + 0 x elapsed", via, k.name, first, later), map[string]any{"via": via})
			}
			rec.Distinct(fmt.Sprintf("zero-rates|%s|%s|burst-served=%d|later=%d", via, k.name, first, later))
		}
		srv.Close()
	}
}

// vfC18SamePeerAddress: two connections that report the same remote ip:port at the same time (a client
// reconnecting from its kept source port while the old connection is still being torn down; any
// transport whose connections share an address). Each connection has its own per-connection budget:
// on a frozen clock a connection is admitted its burst and nothing more, whatever happens to the
// other connection - also after the other one has gone.
func vfC18SamePeerAddress(rec *evid.Rec) {
	t0 := time.Unix(1_800_000_000, 0)
	vfClockSet(t0)
	cfg := DefaultRateLimiterConfig()
	cfg.PerConnectionRequestsPerSecond, cfg.PerConnectionBurstSize = 1, 20
	cfg.PerIPRequestsPerSecond, cfg.PerIPBurstSize, cfg.GlobalRequestsPerSecond = 100000, 100000, 100000
	fs := refs.New()
	srv, err := vfNewSrv(fs, ExportOptions{AttrCacheTimeout: 1, EnableRateLimiting: true, RateLimitConfig: &cfg})
	if err != nil {
		rec.Infra(err.Error())
		return
	}
	defer srv.Close()
	admitted := func(p *vfPipe, n int) (int, bool) {
		ok := 0
		for i := 0; i < n; i++ {
			_, raw, err := p.call(vfProgNFS, 3, 0, vfRootCred(), nil)
			if err != nil {
				return ok, false
			}
			if rep, derr := rfc.DecodeReply(raw); derr == nil && !rep.Denied && rep.AcceptStat == 0 {
				ok++
			}
		}
		return ok, true
	}
	p1 := srv.pipe("10.0.0.7", 875)
	p2 := srv.pipe("10.0.0.7", 875)
	a1, ok1 := admitted(p1, 10)
	a2, ok2 := admitted(p2, 30)
	if !ok1 || !ok2 {
		rec.Inconclusive(1)
		p1.close()
		p2.close()
		return
	}
	rec.Eval(40)
	if a2 > 20 {
		rec.Violate("C18/connection/admitted-beyond-burst/two-connections-report-one-address", fmt.Sprintf("the second connection was admitted %d requests on a frozen clock, its burst is 20", a2), nil)
	}
	if a1 == 10 && a2 < 20 {
		rec.Violate("C18/connection/refused-inside-its-own-budget/two-connections-report-one-address", fmt.Sprintf("two live connections report 10.0.0.7:875; the first used 10 of its 20, the second was admitted only %d of its own 20 on a frozen clock", a2), nil)
	}
	// the first connection goes away; the second has used its burst and the clock still stands
	p1.close()
	for d := time.Now().Add(10 * time.Second); time.Now().Before(d) && vfGoroutinesWithC18("absnfs.(*Server).handleConnectionLoop") > 1; {
		time.Sleep(5 * time.Millisecond)
	}
	more, ok3 := admitted(p2, 25)
	p2.close()
	if !ok3 {
		rec.Inconclusive(1)
		return
	}
	rec.Eval(25)
	if a2 >= 20 && more > 0 {
		rec.Violate("C18/connection/admitted-beyond-burst/after-another-connection-with-the-same-address-closed", fmt.Sprintf("a connection had used its burst of 20 on a frozen clock; after another connection reporting the same ip:port was closed it was admitted %d more", more), nil)
	}
	rec.Distinct(fmt.Sprintf("same-peer-address|first=%d|second=%d|after-close=%d", a1, a2, more))
}

func vfGoroutinesWithC18(frame string) int {
	buf := make([]byte, 8<<20)
	buf = buf[:runtime.Stack(buf, true)]
	n := 0
	for _, g := range strings.Split(string(buf), "\n\n") {
		if strings.Contains(g, frame) {
			n++
		}
	}
	return n
}
