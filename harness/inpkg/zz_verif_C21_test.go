//go:build verif

package absnfs

import (
	"runtime"
	"fmt"
	"os"
	"path"
	"sync"
	"sync/atomic"
	"testing"
	"time"

	"github.com/anishathalye/porcupine"
	"verif.local/lib/evid"
	"verif.local/lib/refs"
)

// C21: attribute and directory caches behave as bounded TTL LRU maps.
// Oracle: a reference LRU/TTL model on the virtual clock; exact comparison in
// the regime where nothing expires, safety clauses only in the expiry regime
// (lazy vs eager purging of expired entries is not prescribed); porcupine per
// key for the concurrent variant.

type vfLRUEnt struct {
	key      string
	val      uint64
	negative bool
	expire   time.Time
}

type vfLRU struct {
	cap  int
	ents []*vfLRUEnt // MRU first
}

func (l *vfLRU) find(k string) int {
	for i, e := range l.ents {
		if e.key == k {
			return i
		}
	}
	return -1
}
func (l *vfLRU) touch(i int) {
	e := l.ents[i]
	copy(l.ents[1:i+1], l.ents[:i])
	l.ents[0] = e
}
func (l *vfLRU) remove(i int) { l.ents = append(l.ents[:i], l.ents[i+1:]...) }
func (l *vfLRU) put(k string, v uint64, neg bool, exp time.Time) {
	if i := l.find(k); i >= 0 {
		e := l.ents[i]
		e.val, e.negative, e.expire = v, neg, exp
		l.touch(i)
		return
	}
	if len(l.ents) >= l.cap && len(l.ents) > 0 {
		l.ents = l.ents[:len(l.ents)-1]
	}
	l.ents = append([]*vfLRUEnt{{k, v, neg, exp}}, l.ents...)
}

var vfCacheKeys = []string{"/", "/a", "/ab", "/a/b", "/a/c", "/a/b/c", "/b", "/b/a", "/abc", "/a/b/c/d",
	// names built only from characters of their directory's path, and the same one level deeper
	"/a/a", "/a/a/a", "/a/a/b", "/ab/a", "/a/ab", "/b/b", "/ab/ba"}

// vfKS is what the expiry-regime oracle knows about one key.
type vfKS struct {
	val        uint64
	neg, valid bool
	putAt      time.Time
	ttl        time.Duration
	touched    map[string]bool // other keys used since this key's last use
	mayEvicted bool            // a shrinking Resize happened since its last Put
	minCap     int             // smallest capacity since its last use
}

type vfFI struct{ name string }

func (f vfFI) Name() string       { return f.name }
func (f vfFI) Size() int64        { return 0 }
func (f vfFI) Mode() os.FileMode  { return 0644 }
func (f vfFI) ModTime() time.Time { return time.Time{} }
func (f vfFI) IsDir() bool        { return false }
func (f vfFI) Sys() interface{}   { return nil }

func TestVerif_C21(t *testing.T) {
	rec := evid.New("C21")
	rec.Rule = "seeded 300-op sequences over Put/PutNegative/Get/Invalidate/InvalidateNegativeInDir/Resize/UpdateTTL/ConfigureNegativeCaching/Clear and clock advances, capacities {1,2,3,8}, keys with parent/child/sibling-prefix relations, for AttrCache and DirCache; exact comparison with a reference LRU when nothing expires, safety clauses in the expiry regime; copy isolation by mutating inputs and outputs; concurrent histories (8 goroutines) checked per key by porcupine plus the size bound; a strict concurrent regime (capacity above the key count, clock frozen during a round, every key expired when a round begins, yields at the cache's own logging points) in which a miss needs an absent key; distinct = (cache, regime, op, outcome) tuples"
	defer rec.Write()
	if !vfVirtualClock {
		rec.Infra("C21 needs the vclock build variant")
		return
	}
	seqs := evid.Pick(400, 30000)
	for s := 0; s < seqs && rec.Violations() < 25; s++ {
		vfC21Attr(rec, s)
		vfC21Dir(rec, s)
	}
	conc := evid.Pick(30, 1500)
	for s := 0; s < conc && rec.Violations() < 25; s++ {
		vfC21Concurrent(rec, s)
	}
	strict := evid.Pick(40, 2500)
	for s := 0; s < strict && rec.Violations() < 25; s++ {
		vfC21ConcurrentStrict(rec, s)
	}
}

func vfC21Attr(rec *evid.Rec, s int) {
	rng := evid.Rng(21, int64(s))
	capy := []int{1, 2, 3, 8}[rng.Intn(4)]
	expiry := s%2 == 1
	ttl := time.Hour
	negTTL := time.Hour
	if expiry {
		ttl = time.Duration(1+rng.Intn(5)) * time.Second
		negTTL = time.Duration(1+rng.Intn(5)) * time.Second
	}
	t0 := time.Unix(1_800_000_000, 0)
	now := t0
	vfClockSet(now)
	c := NewAttrCache(ttl, capy)
	negOn := rng.Intn(2) == 0
	c.ConfigureNegativeCaching(negOn, negTTL)
	ref := &vfLRU{cap: capy}
	// bookkeeping for the expiry regime
	ks := map[string]*vfKS{}
	for _, k := range vfCacheKeys {
		ks[k] = &vfKS{touched: map[string]bool{}}
	}
	var ops []string
	regime := map[bool]string{false: "no-expiry", true: "expiry"}[expiry]
	fail := func(sig, what string) {
		rec.Violate(sig, fmt.Sprintf("%s [cap=%d %s]", what, capy, regime), map[string]any{"seq": s, "cap": capy, "regime": regime, "ops": append([]string(nil), ops...)})
	}
	touch := func(k string) { // k became the most recently used entry
		for o, st := range ks {
			if o != k {
				st.touched[k] = true
			}
		}
		ks[k].touched = map[string]bool{}
		ks[k].minCap = capy
	}
	store := func(k string, v uint64, neg bool, ttl time.Duration) {
		st := ks[k]
		st.val, st.neg, st.valid, st.putAt, st.ttl, st.mayEvicted = v, neg, true, now, ttl, false
		touch(k)
	}
	nextVal := uint64(s)*1000 + 1
	for i := 0; i < 300; i++ {
		k := vfCacheKeys[rng.Intn(len(vfCacheKeys))]
		rec.Eval(1)
		switch op := rng.Intn(100); {
		case op < 28: // Put
			v := nextVal
			nextVal++
			in := &NFSAttrs{Mode: 0644, Size: int64(v), FileId: v, Uid: 1, Gid: 2}
			ops = append(ops, fmt.Sprintf("Put %s v%d", k, v))
			c.Put(k, in)
			in.FileId, in.Size, in.Mode = 999999, -1, 0 // caller mutates its struct afterwards
			ref.put(k, v, false, now.Add(ttl))
			store(k, v, false, ttl)
			rec.Distinct("attr|" + regime + "|put")
		case op < 36: // PutNegative
			ops = append(ops, "PutNegative "+k)
			c.PutNegative(k)
			if negOn {
				ref.put(k, 0, true, now.Add(negTTL))
				store(k, 0, true, negTTL)
			}
			rec.Distinct(fmt.Sprintf("attr|%s|putnegative|enabled=%v", regime, negOn))
		case op < 72: // Get
			ops = append(ops, "Get "+k)
			got, found := c.Get(k)
			out := "miss"
			if found && got == nil {
				out = "negative"
			} else if found {
				out = "hit"
			}
			if found && got == nil && !negOn {
				fail("C21/attr/negative-entry-served-while-negative-caching-disabled", "Get "+k+" returned a negative hit")
			}
			if !expiry {
				// exact comparison
				ri := ref.find(k)
				want := "miss"
				if ri >= 0 {
					want = map[bool]string{true: "negative", false: "hit"}[ref.ents[ri].negative]
				}
				if want != out && !(want == "negative" && !negOn) {
					fail(fmt.Sprintf("C21/attr/get-differs-from-reference-lru/want=%s/got=%s", want, out), "Get "+k)
				} else if want == "hit" && got.FileId != ref.ents[ri].val {
					fail("C21/attr/get-returned-stale-or-foreign-value", fmt.Sprintf("Get %s returned v%d, latest stored v%d", k, got.FileId, ref.ents[ri].val))
				}
				if ri >= 0 && found {
					ref.touch(ri)
				} else if ri >= 0 && !found {
					ref.remove(ri) // resync
				}
			} else {
				// safety clauses
				st := ks[k]
				exp := st.putAt.Add(st.ttl)
				if found {
					switch {
					case !st.valid:
						fail("C21/attr/value-for-invalidated-or-never-stored-key", "Get "+k+" hit")
					case !now.Before(exp):
						fail("C21/attr/value-for-expired-key", fmt.Sprintf("Get %s hit %v after its entry expired", k, now.Sub(exp)))
					case got != nil && (st.neg || got.FileId != st.val):
						fail("C21/attr/get-returned-stale-or-foreign-value", fmt.Sprintf("Get %s returned v%d, latest stored v%d", k, got.FileId, st.val))
					case got == nil && !st.neg:
						fail("C21/attr/negative-hit-for-positive-entry", "Get "+k)
					}
					if st.valid {
						touch(k)
					}
				} else {
					// a miss needs a possible cause: invalidated, expired, possibly evicted by a
					// Resize, or at least `capacity` distinct other keys used since its last use
					if st.valid && now.Before(exp) && !st.mayEvicted && len(st.touched) < st.minCap {
						fail("C21/attr/miss-without-possible-cause", fmt.Sprintf("Get %s missed: entry is %v old (ttl %v), %d distinct other keys used since, capacity %d", k, now.Sub(st.putAt), st.ttl, len(st.touched), capy))
					}
					st.valid = false
				}
			}
			if found && got != nil {
				got.FileId = 777777 // caller mutates the returned copy
			}
			rec.Distinct("attr|" + regime + "|get|" + out)
		case op < 78:
			ops = append(ops, "Invalidate "+k)
			c.Invalidate(k)
			if i := ref.find(k); i >= 0 {
				ref.remove(i)
			}
			ks[k].valid = false
			rec.Distinct("attr|" + regime + "|invalidate")
		case op < 84:
			ops = append(ops, "InvalidateNegativeInDir "+k)
			before := map[string]string{}
			for _, e := range ref.ents {
				before[e.key] = fmt.Sprint(e.negative)
			}
			c.InvalidateNegativeInDir(k)
			for i := len(ref.ents) - 1; i >= 0; i-- {
				e := ref.ents[i]
				if e.negative && path.Dir(e.key) == k && e.key != k {
					ref.remove(i)
				}
			}
			for k2, st := range ks {
				if st.neg && path.Dir(k2) == k && k2 != k {
					st.valid = false
				}
			}
			if !expiry {
				// check membership of every key without disturbing LRU order: use Size and probing via a clone is not
				// possible, so compare sizes here and let later Gets confirm identities
				if c.Size() != len(ref.ents) {
					fail("C21/attr/invalidate-negative-in-dir-removed-wrong-set", fmt.Sprintf("InvalidateNegativeInDir(%s): size %d, reference %d (before: %v)", k, c.Size(), len(ref.ents), before))
					// resync impossible without probing; stop this sequence
					return
				}
			}
			rec.Distinct("attr|" + regime + "|invalidate-negative-in-dir")
		case op < 88:
			n := []int{1, 2, 3, 8}[rng.Intn(4)]
			ops = append(ops, fmt.Sprintf("Resize %d", n))
			c.Resize(n)
			for _, st := range ks {
				if n < capy { // eviction by Resize is a possible cause for later misses
					st.mayEvicted = true
				}
				if n < st.minCap {
					st.minCap = n
				}
			}
			capy = n
			ref.cap = n
			if len(ref.ents) > n {
				ref.ents = ref.ents[:n]
			}
			rec.Distinct("attr|" + regime + "|resize")
		case op < 91:
			if expiry {
				ttl = time.Duration(1+rng.Intn(5)) * time.Second
				ops = append(ops, fmt.Sprintf("UpdateTTL %v", ttl))
				c.UpdateTTL(ttl)
			}
		case op < 94:
			negOn = !negOn
			ops = append(ops, fmt.Sprintf("ConfigureNegativeCaching %v", negOn))
			c.ConfigureNegativeCaching(negOn, negTTL)
			if !negOn {
				// negative entries exist only while negative caching is enabled
				if n := c.NegativeStats(); n != 0 {
					fail("C21/attr/negative-entries-survive-disabling", fmt.Sprintf("%d negative entries present after ConfigureNegativeCaching(false)", n))
				}
				for i := len(ref.ents) - 1; i >= 0; i-- {
					if ref.ents[i].negative {
						ref.remove(i)
					}
				}
				for _, st := range ks {
					if st.neg {
						st.valid = false
					}
				}
				if c.NegativeStats() != 0 { // resync the implementation
					for _, k2 := range vfCacheKeys {
						if ks[k2].neg {
							c.Invalidate(k2)
						}
					}
					if !expiry {
						// Get moved hits to the front in the implementation; mirror by re-reading order is not possible: restart reference from implementation probing is not possible either; end the sequence
						return
					}
				}
			}
			rec.Distinct(fmt.Sprintf("attr|%s|configure-negative|%v", regime, negOn))
		case op < 96:
			ops = append(ops, "Clear")
			c.Clear()
			ref.ents = nil
			for _, st := range ks {
				st.valid = false
			}
			rec.Distinct("attr|" + regime + "|clear")
		default:
			var d time.Duration
			if expiry {
				d = time.Duration(rng.Intn(4))*time.Second + time.Duration(1+rng.Intn(100))
			} else {
				d = time.Duration(1+rng.Intn(1000)) * time.Millisecond
			}
			now = now.Add(d)
			vfClockSet(now)
			ops = append(ops, fmt.Sprintf("advance %v", d))
			rec.Distinct("attr|" + regime + "|advance")
		}
		if sz := c.Size(); sz > capy {
			fail("C21/attr/size-exceeds-capacity", fmt.Sprintf("size %d > capacity %d after %s", sz, capy, ops[len(ops)-1]))
		} else if !expiry && sz != len(ref.ents) {
			fail("C21/attr/size-differs-from-reference-lru", fmt.Sprintf("size %d, reference %d after %s", sz, len(ref.ents), ops[len(ops)-1]))
			return
		}
	}
	if s < 2 {
		rec.Sample(map[string]any{"cache": "attr", "cap": capy, "regime": regime, "ops": ops[:min64i(len(ops), 40)]})
	}
}

func vfC21Dir(rec *evid.Rec, s int) {
	rng := evid.Rng(2121, int64(s))
	capy := []int{1, 2, 3, 8}[rng.Intn(4)]
	expiry := s%2 == 1
	ttl := time.Hour
	if expiry {
		ttl = time.Duration(1+rng.Intn(5)) * time.Second
	}
	maxDir := 4
	now := time.Unix(1_800_000_000, 0)
	vfClockSet(now)
	c := NewDirCache(ttl, capy, maxDir)
	ref := &vfLRU{cap: capy}
	ks := map[string]*vfKS{}
	for _, k := range vfCacheKeys {
		ks[k] = &vfKS{touched: map[string]bool{}}
	}
	touch := func(k string) {
		for o, st := range ks {
			if o != k {
				st.touched[k] = true
			}
		}
		ks[k].touched = map[string]bool{}
		ks[k].minCap = capy
	}
	var ops []string
	regime := map[bool]string{false: "no-expiry", true: "expiry"}[expiry]
	fail := func(sig, what string) {
		rec.Violate(sig, fmt.Sprintf("%s [cap=%d %s]", what, capy, regime), map[string]any{"seq": s, "ops": append([]string(nil), ops...)})
	}
	nextVal := uint64(1)
	for i := 0; i < 200; i++ {
		k := vfCacheKeys[rng.Intn(len(vfCacheKeys))]
		rec.Eval(1)
		switch op := rng.Intn(100); {
		case op < 35:
			v := nextVal
			nextVal++
			n := 1 + rng.Intn(6)
			in := make([]os.FileInfo, n)
			for j := range in {
				in[j] = vfFI{fmt.Sprintf("v%d-%d", v, j)}
			}
			ops = append(ops, fmt.Sprintf("Put %s v%d (%d entries)", k, v, n))
			c.Put(k, in)
			in[0] = vfFI{"mutated-by-caller"}
			if n <= maxDir { // an oversize Put is a documented no-op
				ref.put(k, v, false, now.Add(ttl))
				st := ks[k]
				st.val, st.valid, st.putAt, st.ttl, st.mayEvicted = v, true, now, ttl, false
				touch(k)
			}
			rec.Distinct(fmt.Sprintf("dir|%s|put|oversize=%v", regime, n > maxDir))
		case op < 75:
			ops = append(ops, "Get "+k)
			got, found := c.Get(k)
			var gv uint64
			if found && len(got) > 0 {
				fmt.Sscanf(got[0].Name(), "v%d-", &gv)
				if got[0].Name() == "mutated-by-caller" {
					fail("C21/dir/cached-listing-aliases-caller-memory", "Get "+k)
				}
				got[0] = vfFI{"mutated-result"}
			}
			if !expiry {
				ri := ref.find(k)
				if (ri >= 0) != found {
					fail(fmt.Sprintf("C21/dir/get-differs-from-reference-lru/want-hit=%v", ri >= 0), "Get "+k)
					if ri >= 0 {
						ref.remove(ri)
					}
				} else if found && gv != ref.ents[ri].val {
					fail("C21/dir/get-returned-stale-or-foreign-value", fmt.Sprintf("Get %s returned v%d, latest v%d", k, gv, ref.ents[ri].val))
				}
				if ri >= 0 && found {
					ref.touch(ri)
				}
			} else if st := ks[k]; found {
				exp := st.putAt.Add(st.ttl)
				switch {
				case !st.valid:
					fail("C21/dir/value-for-invalidated-or-never-stored-key", "Get "+k)
				case now.After(exp):
					fail("C21/dir/value-for-expired-key", fmt.Sprintf("Get %s hit %v after expiry", k, now.Sub(exp)))
				case gv != st.val:
					fail("C21/dir/get-returned-stale-or-foreign-value", fmt.Sprintf("Get %s returned v%d, latest v%d", k, gv, st.val))
				}
				if st.valid {
					touch(k)
				}
			} else {
				if st.valid && now.Before(st.putAt.Add(st.ttl)) && !st.mayEvicted && len(st.touched) < st.minCap {
					fail("C21/dir/miss-without-possible-cause", fmt.Sprintf("Get %s missed: entry is %v old (ttl %v), %d distinct other keys used since, capacity %d", k, now.Sub(st.putAt), st.ttl, len(st.touched), capy))
				}
				st.valid = false
			}
			rec.Distinct(fmt.Sprintf("dir|%s|get|found=%v", regime, found))
		case op < 83:
			ops = append(ops, "Invalidate "+k)
			c.Invalidate(k)
			if i := ref.find(k); i >= 0 {
				ref.remove(i)
			}
			ks[k].valid = false
		case op < 88:
			n := []int{1, 2, 3, 8}[rng.Intn(4)]
			ops = append(ops, fmt.Sprintf("Resize %d", n))
			c.Resize(n)
			for _, st := range ks {
				if n < capy {
					st.mayEvicted = true
				}
				if n < st.minCap {
					st.minCap = n
				}
			}
			capy, ref.cap = n, n
			if len(ref.ents) > n {
				ref.ents = ref.ents[:n]
			}
		case op < 91:
			if expiry {
				ttl = time.Duration(1+rng.Intn(5)) * time.Second
				c.UpdateTTL(ttl)
				ops = append(ops, fmt.Sprintf("UpdateTTL %v", ttl))
			}
		case op < 93:
			ops = append(ops, "Clear")
			c.Clear()
			ref.ents = nil
			for _, st := range ks {
				st.valid = false
			}
		default:
			var d time.Duration
			if expiry {
				d = time.Duration(rng.Intn(4))*time.Second + time.Duration(1+rng.Intn(100))
			} else {
				d = time.Duration(1+rng.Intn(1000)) * time.Millisecond
			}
			now = now.Add(d)
			vfClockSet(now)
			ops = append(ops, fmt.Sprintf("advance %v", d))
		}
		if sz := c.Size(); sz > capy {
			fail("C21/dir/size-exceeds-capacity", fmt.Sprintf("size %d > capacity %d after %s", sz, capy, ops[len(ops)-1]))
		} else if !expiry && sz != len(ref.ents) {
			fail("C21/dir/size-differs-from-reference-lru", fmt.Sprintf("size %d, reference %d after %s", sz, len(ref.ents), ops[len(ops)-1]))
			return
		}
	}
}

// ---- concurrent variant: per-key histories checked by porcupine ----

type vfCIn struct {
	Key  string
	Kind int // 0 put, 1 get, 2 invalidate
	Val  uint64
}
type vfCOut struct {
	Found bool
	Val   uint64
}

func vfC21Concurrent(rec *evid.Rec, s int) {
	rng := evid.Rng(212121, int64(s))
	capy := []int{1, 2, 3}[rng.Intn(3)]
	vfClockSet(time.Unix(1_800_000_000, 0))
	c := NewAttrCache(time.Hour, capy)
	keys := vfCacheKeys[:4]
	var tick atomic.Int64
	var mu sync.Mutex
	var hist []porcupine.Operation
	var maxSize atomic.Int64
	var wg sync.WaitGroup
	workers := 8
	for w := 0; w < workers; w++ {
		wg.Add(1)
		seed := rng.Int63()
		go func(w int) {
			defer wg.Done()
			r := evid.Rng(seed, int64(w))
			for i := 0; i < 12; i++ {
				k := keys[r.Intn(len(keys))]
				in := vfCIn{Key: k, Kind: r.Intn(3)}
				if r.Intn(2) == 0 {
					in.Kind = 1
				}
				var out vfCOut
				call := tick.Add(1)
				switch in.Kind {
				case 0:
					in.Val = uint64(w)*1000 + uint64(i) + 1
					c.Put(k, &NFSAttrs{FileId: in.Val})
				case 1:
					a, f := c.Get(k)
					out.Found = f
					if a != nil {
						out.Val = a.FileId
					}
				default:
					c.Invalidate(k)
				}
				ret := tick.Add(1)
				if sz := int64(c.Size()); sz > maxSize.Load() {
					maxSize.Store(sz)
				}
				mu.Lock()
				hist = append(hist, porcupine.Operation{ClientId: w, Input: in, Call: call, Output: out, Return: ret})
				mu.Unlock()
			}
		}(w)
	}
	wg.Wait()
	rec.Eval(len(hist))
	if int(maxSize.Load()) > capy {
		rec.Violate("C21/attr/size-exceeds-capacity/concurrent", fmt.Sprintf("size %d > capacity %d", maxSize.Load(), capy), nil)
	}
	model := porcupine.Model{
		Partition: func(h []porcupine.Operation) [][]porcupine.Operation {
			m := map[string][]porcupine.Operation{}
			for _, o := range h {
				k := o.Input.(vfCIn).Key
				m[k] = append(m[k], o)
			}
			var out [][]porcupine.Operation
			for _, v := range m {
				out = append(out, v)
			}
			return out
		},
		Init: func() interface{} { return uint64(0) },
		Step: func(st, in, out interface{}) (bool, interface{}) {
			i, o := in.(vfCIn), out.(vfCOut)
			switch i.Kind {
			case 0:
				return true, i.Val
			case 2:
				return true, uint64(0)
			}
			if !o.Found {
				return true, uint64(0) // a miss is always possible (eviction) and leaves the key absent
			}
			return st.(uint64) != 0 && o.Val == st.(uint64), st
		},
	}
	res, _ := porcupine.CheckOperationsVerbose(model, hist, 60*time.Second)
	switch res {
	case porcupine.Illegal:
		rec.Violate("C21/attr/concurrent-history-not-linearizable-per-key", fmt.Sprintf("history of %d operations over %d keys, capacity %d", len(hist), len(keys), capy), map[string]any{"seq": s, "history": fmt.Sprint(hist)})
	case porcupine.Unknown:
		rec.Inconclusive(1)
	}
	rec.Distinct(fmt.Sprintf("concurrent|cap=%d|%v", capy, res))
	rec.Add("porcupine_histories", 1)
}

// vfYieldLogger is a structured logger whose Debug call yields the processor or sleeps a few
// microseconds: the cache logs between its critical sections (after releasing the read lock, before
// taking the write lock), so this widens exactly the windows a busy server has there.
type vfYieldLogger struct {
	n    atomic.Int64
	seed int64
}

func (l *vfYieldLogger) Debug(msg string, fields ...LogField) {
	n := l.n.Add(1)
	switch (uint64(n)*2654435761 + uint64(l.seed)) % 5 {
	case 0, 1:
		runtime.Gosched()
	case 2:
		time.Sleep(time.Duration(1+n%30) * time.Microsecond)
	}
}
func (l *vfYieldLogger) Info(msg string, fields ...LogField)  {}
func (l *vfYieldLogger) Warn(msg string, fields ...LogField)  {}
func (l *vfYieldLogger) Error(msg string, fields ...LogField) {}

// vfC21ConcurrentStrict: the concurrent regime in which a miss has only two legitimate causes left.
// Capacity exceeds the number of keys (nothing is ever evicted) and the clock stands still during
// a round; every round starts with all keys stored and then expired (the clock is moved past the
// TTL while nobody is running). So within a round a key is absent until somebody puts it, and a
// value put by a completed Put must be returned by every later Get until an Invalidate: per key,
// the history must be linearizable against a plain register with "absent".
func vfC21ConcurrentStrict(rec *evid.Rec, s int) {
	rng := evid.Rng(212122, int64(s))
	now := time.Unix(1_800_000_000, 0)
	vfClockSet(now)
	srv, err := New(refs.New(), ExportOptions{Log: &LogConfig{Level: "debug", Output: "stderr"}})
	if err != nil {
		rec.Infra(err.Error())
		return
	}
	defer srv.Close()
	vfQuiet(srv)
	srv.SetLogger(&vfYieldLogger{seed: rng.Int63()})
	ttl := time.Minute
	c := NewAttrCache(ttl, 16)
	keys := vfCacheKeys[:2+rng.Intn(2)]
	for round := 0; round < 5; round++ {
		for i, k := range keys {
			c.Put(k, &NFSAttrs{FileId: uint64(900000 + round*10 + i)})
		}
		now = now.Add(ttl + time.Second)
		vfClockSet(now) // everything stored so far is expired now; the clock does not move during the round
		var tick atomic.Int64
		var mu sync.Mutex
		var hist []porcupine.Operation
		var wg sync.WaitGroup
		for w := 0; w < 6; w++ {
			wg.Add(1)
			seed := rng.Int63()
			go func(w int) {
				defer wg.Done()
				r := evid.Rng(seed, int64(w))
				for i := 0; i < 8; i++ {
					k := keys[r.Intn(len(keys))]
					in := vfCIn{Key: k, Kind: []int{1, 1, 1, 0, 0, 2}[r.Intn(6)]}
					var out vfCOut
					call := tick.Add(1)
					switch in.Kind {
					case 0:
						in.Val = uint64(round+1)*100000 + uint64(w)*1000 + uint64(i) + 1
						c.Put(k, &NFSAttrs{FileId: in.Val})
					case 1:
						a, f := c.Get(k, srv)
						out.Found = f
						if a != nil {
							out.Val = a.FileId
						}
					default:
						c.Invalidate(k)
					}
					ret := tick.Add(1)
					mu.Lock()
					hist = append(hist, porcupine.Operation{ClientId: w, Input: in, Call: call, Output: out, Return: ret})
					mu.Unlock()
				}
			}(w)
		}
		wg.Wait()
		rec.Eval(len(hist))
		model := porcupine.Model{
			Partition: func(h []porcupine.Operation) [][]porcupine.Operation {
				m := map[string][]porcupine.Operation{}
				for _, o := range h {
					k := o.Input.(vfCIn).Key
					m[k] = append(m[k], o)
				}
				var out [][]porcupine.Operation
				for _, v := range m {
					out = append(out, v)
				}
				return out
			},
			Init: func() interface{} { return uint64(0) },
			Step: func(st, in, out interface{}) (bool, interface{}) {
				i, o := in.(vfCIn), out.(vfCOut)
				switch i.Kind {
				case 0:
					return true, i.Val
				case 2:
					return true, uint64(0)
				}
				if !o.Found {
					return st.(uint64) == 0, st
				}
				return st.(uint64) != 0 && o.Val == st.(uint64), st
			},
		}
		res, _ := porcupine.CheckOperationsVerbose(model, hist, 60*time.Second)
		switch res {
		case porcupine.Illegal:
			var lines []string
			for _, o := range hist {
				lines = append(lines, fmt.Sprintf("[%d,%d] w%d %+v -> %+v", o.Call, o.Return, o.ClientId, o.Input, o.Output))
			}
			rec.Violate("C21/attr/concurrent-history-not-linearizable-per-key/no-eviction-no-expiry-possible", fmt.Sprintf("round %d: %d operations over %d keys, capacity 16, clock frozen, every key expired when the round began: a stored value went missing (or a removed one came back) without eviction, expiry or invalidation", round, len(hist), len(keys)), map[string]any{"seq": s, "round": round, "history": lines})
		case porcupine.Unknown:
			rec.Inconclusive(1)
		}
		rec.Distinct(fmt.Sprintf("concurrent-strict|keys=%d|%v", len(keys), res))
		rec.Add("porcupine_histories", 1)
		if res == porcupine.Illegal {
			return
		}
	}
}
