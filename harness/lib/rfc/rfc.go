// Package rfc contains strict decoders for ONC RPC replies (RFC 1831), NFSv3
// results (RFC 1813), MOUNTv3 results (RFC 1813 appendix I) and portmap /
// rpcbind results (RFC 1833). They are written from the RFC text and are
// independent of the server's encoders. "Strict" means: every byte is consumed
// and none is missing, booleans are 0/1, enumerations are members, opaque
// padding is zero.
package rfc

import (
	"encoding/binary"
	"fmt"
)

type rd struct {
	b   []byte
	pos int
}

func (r *rd) left() int { return len(r.b) - r.pos }
func (r *rd) u32() (uint32, error) {
	if r.left() < 4 {
		return 0, fmt.Errorf("short: need uint32 at %d of %d", r.pos, len(r.b))
	}
	v := binary.BigEndian.Uint32(r.b[r.pos:])
	r.pos += 4
	return v, nil
}
func (r *rd) u64() (uint64, error) {
	if r.left() < 8 {
		return 0, fmt.Errorf("short: need uint64 at %d of %d", r.pos, len(r.b))
	}
	v := binary.BigEndian.Uint64(r.b[r.pos:])
	r.pos += 8
	return v, nil
}
func (r *rd) boolean() (bool, error) {
	v, err := r.u32()
	if err != nil {
		return false, err
	}
	if v > 1 {
		return false, fmt.Errorf("bool value %d at %d", v, r.pos-4)
	}
	return v == 1, nil
}
func (r *rd) fixed(n int) ([]byte, error) {
	if r.left() < n {
		return nil, fmt.Errorf("short: need %d bytes at %d of %d", n, r.pos, len(r.b))
	}
	v := r.b[r.pos : r.pos+n]
	r.pos += n
	return v, nil
}
func (r *rd) opaque(max int) ([]byte, error) {
	n, err := r.u32()
	if err != nil {
		return nil, err
	}
	if max >= 0 && int(n) > max {
		return nil, fmt.Errorf("opaque length %d exceeds %d", n, max)
	}
	if uint64(n) > uint64(r.left()) {
		return nil, fmt.Errorf("short: opaque of %d at %d of %d", n, r.pos, len(r.b))
	}
	v := r.b[r.pos : r.pos+int(n)]
	r.pos += int(n)
	pad := (4 - int(n)%4) % 4
	p, err := r.fixed(pad)
	if err != nil {
		return nil, fmt.Errorf("missing opaque padding: %v", err)
	}
	for _, c := range p {
		if c != 0 {
			return nil, fmt.Errorf("non-zero opaque padding")
		}
	}
	return v, nil
}
func (r *rd) done() error {
	if r.left() != 0 {
		return fmt.Errorf("%d trailing bytes", r.left())
	}
	return nil
}

// ---------------- RPC reply ----------------

type Reply struct {
	XID        uint32
	Denied     bool
	AcceptStat uint32 // 0 SUCCESS 1 PROG_UNAVAIL 2 PROG_MISMATCH 3 PROC_UNAVAIL 4 GARBAGE_ARGS 5 SYSTEM_ERR
	Low, High  uint32 // PROG_MISMATCH / RPC_MISMATCH
	RejectStat uint32 // 0 RPC_MISMATCH 1 AUTH_ERROR
	AuthStat   uint32
	Body       []byte // result bytes when accepted with SUCCESS
}

func DecodeReply(b []byte) (*Reply, error) {
	r := &rd{b: b}
	rep := &Reply{}
	var err error
	if rep.XID, err = r.u32(); err != nil {
		return nil, err
	}
	mt, err := r.u32()
	if err != nil {
		return nil, err
	}
	if mt != 1 {
		return nil, fmt.Errorf("msg_type %d, want REPLY", mt)
	}
	st, err := r.u32()
	if err != nil {
		return nil, err
	}
	switch st {
	case 0:
		if _, err = r.u32(); err != nil { // verf flavor
			return nil, err
		}
		if _, err = r.opaque(400); err != nil {
			return nil, fmt.Errorf("verifier: %v", err)
		}
		if rep.AcceptStat, err = r.u32(); err != nil {
			return nil, err
		}
		switch rep.AcceptStat {
		case 0:
			rep.Body = r.b[r.pos:]
			return rep, nil
		case 2:
			if rep.Low, err = r.u32(); err != nil {
				return nil, fmt.Errorf("mismatch_info: %v", err)
			}
			if rep.High, err = r.u32(); err != nil {
				return nil, fmt.Errorf("mismatch_info: %v", err)
			}
		case 1, 3, 4, 5:
		default:
			return nil, fmt.Errorf("accept_stat %d not in enum", rep.AcceptStat)
		}
		return rep, r.done()
	case 1:
		rep.Denied = true
		if rep.RejectStat, err = r.u32(); err != nil {
			return nil, err
		}
		switch rep.RejectStat {
		case 0:
			if rep.Low, err = r.u32(); err != nil {
				return nil, err
			}
			if rep.High, err = r.u32(); err != nil {
				return nil, err
			}
		case 1:
			if rep.AuthStat, err = r.u32(); err != nil {
				return nil, err
			}
			if rep.AuthStat > 13 {
				return nil, fmt.Errorf("auth_stat %d not in enum", rep.AuthStat)
			}
		default:
			return nil, fmt.Errorf("reject_stat %d not in enum", rep.RejectStat)
		}
		return rep, r.done()
	}
	return nil, fmt.Errorf("reply_stat %d not in enum", st)
}

// ---------------- NFSv3 ----------------

var nfsstat3 = map[uint32]bool{0: true, 1: true, 2: true, 5: true, 6: true, 13: true, 17: true, 18: true, 19: true, 20: true,
	21: true, 22: true, 27: true, 28: true, 30: true, 31: true, 63: true, 66: true, 69: true, 70: true, 71: true,
	10001: true, 10002: true, 10003: true, 10004: true, 10005: true, 10006: true, 10007: true, 10008: true}

func IsNfsstat3(s uint32) bool { return nfsstat3[s] }

var mountstat3 = map[uint32]bool{0: true, 1: true, 2: true, 5: true, 13: true, 20: true, 22: true, 63: true, 10004: true, 10006: true}

func IsMountstat3(s uint32) bool { return mountstat3[s] }

type Fattr struct {
	Type, Mode, Nlink, UID, GID uint32
	Size, Used                  uint64
	Rdev                        [2]uint32
	Fsid, Fileid                uint64
	Atime, Mtime, Ctime         [2]uint32
}

type PostOp struct {
	Present bool
	A       Fattr
}
type WccAttr struct {
	Size         uint64
	Mtime, Ctime [2]uint32
}
type Wcc struct {
	PrePresent bool
	Pre        WccAttr
	Post       PostOp
}
type DirEntry struct {
	Fileid    uint64
	Name      string
	Cookie    uint64
	Attr      PostOp
	FHPresent bool
	FH        []byte
}

type Res struct {
	Proc   uint32
	Status uint32
	Attr   Fattr  // GETATTR ok
	Obj    PostOp // LOOKUP obj, CREATE-family obj attrs, and the single post_op_attr of read-type results
	Dir    PostOp // LOOKUP dir attrs
	Wcc    Wcc    // first wcc_data
	Wcc2   Wcc    // RENAME todir
	FHPresent bool
	FH     []byte
	Access uint32
	Link   string
	Count  uint32
	EOF    bool
	Data   []byte
	Committed uint32
	Verf   [8]byte
	Entries []DirEntry
	Fsinfo struct {
		Rtmax, Rtpref, Rtmult, Wtmax, Wtpref, Wtmult, Dtpref uint32
		Maxfilesize                                         uint64
		TimeDelta                                           [2]uint32
		Properties                                          uint32
	}
	Fsstat   [6]uint64
	Invarsec uint32
	Pathconf struct {
		Linkmax, NameMax                                      uint32
		NoTrunc, ChownRestricted, CaseInsensitive, CasePreserving bool
	}
	ResLen int // bytes of the resok/resfail structure (excluding the status word)
}

func (r *rd) time() ([2]uint32, error) {
	var t [2]uint32
	var err error
	if t[0], err = r.u32(); err != nil {
		return t, err
	}
	t[1], err = r.u32()
	if err == nil && t[1] >= 1_000_000_000 {
		return t, fmt.Errorf("nfstime3 nseconds %d out of range", t[1])
	}
	return t, err
}

func (r *rd) fattr() (Fattr, error) {
	var a Fattr
	var err error
	g32 := func(p *uint32) {
		if err == nil {
			*p, err = r.u32()
		}
	}
	g64 := func(p *uint64) {
		if err == nil {
			*p, err = r.u64()
		}
	}
	g32(&a.Type)
	if err == nil && (a.Type < 1 || a.Type > 7) {
		return a, fmt.Errorf("ftype3 %d not in enum", a.Type)
	}
	g32(&a.Mode)
	g32(&a.Nlink)
	g32(&a.UID)
	g32(&a.GID)
	g64(&a.Size)
	g64(&a.Used)
	g32(&a.Rdev[0])
	g32(&a.Rdev[1])
	g64(&a.Fsid)
	g64(&a.Fileid)
	if err != nil {
		return a, fmt.Errorf("fattr3: %v", err)
	}
	if a.Atime, err = r.time(); err != nil {
		return a, err
	}
	if a.Mtime, err = r.time(); err != nil {
		return a, err
	}
	if a.Ctime, err = r.time(); err != nil {
		return a, err
	}
	if a.Mode&^07777 != 0 {
		return a, fmt.Errorf("fattr3 mode %#o has bits outside 07777", a.Mode)
	}
	return a, nil
}

func (r *rd) postop() (PostOp, error) {
	var p PostOp
	var err error
	if p.Present, err = r.boolean(); err != nil {
		return p, fmt.Errorf("post_op_attr: %v", err)
	}
	if p.Present {
		p.A, err = r.fattr()
	}
	return p, err
}

func (r *rd) wcc() (Wcc, error) {
	var w Wcc
	var err error
	if w.PrePresent, err = r.boolean(); err != nil {
		return w, fmt.Errorf("pre_op_attr: %v", err)
	}
	if w.PrePresent {
		if w.Pre.Size, err = r.u64(); err != nil {
			return w, err
		}
		if w.Pre.Mtime, err = r.time(); err != nil {
			return w, err
		}
		if w.Pre.Ctime, err = r.time(); err != nil {
			return w, err
		}
	}
	w.Post, err = r.postop()
	return w, err
}

func (r *rd) postfh() (bool, []byte, error) {
	p, err := r.boolean()
	if err != nil || !p {
		return p, nil, err
	}
	fh, err := r.opaque(64)
	return true, fh, err
}

// DecodeNFS decodes the result body of NFSv3 procedure proc.
func DecodeNFS(proc uint32, body []byte) (*Res, error) {
	r := &rd{b: body}
	res := &Res{Proc: proc}
	if proc == 0 {
		return res, r.done()
	}
	if proc > 21 {
		return nil, fmt.Errorf("no such procedure %d", proc)
	}
	var err error
	if res.Status, err = r.u32(); err != nil {
		return nil, fmt.Errorf("status: %v", err)
	}
	if !nfsstat3[res.Status] {
		return res, fmt.Errorf("status %d not in nfsstat3", res.Status)
	}
	ok := res.Status == 0
	start := r.pos
	switch proc {
	case 1: // GETATTR
		if ok {
			res.Attr, err = r.fattr()
		}
	case 2: // SETATTR
		res.Wcc, err = r.wcc()
	case 3: // LOOKUP
		if ok {
			if res.FH, err = r.opaque(64); err != nil {
				break
			}
			res.FHPresent = true
			if res.Obj, err = r.postop(); err != nil {
				break
			}
		}
		res.Dir, err = r.postop()
	case 4: // ACCESS
		if res.Obj, err = r.postop(); err == nil && ok {
			res.Access, err = r.u32()
		}
	case 5: // READLINK
		if res.Obj, err = r.postop(); err == nil && ok {
			var b []byte
			b, err = r.opaque(-1)
			res.Link = string(b)
		}
	case 6: // READ
		if res.Obj, err = r.postop(); err == nil && ok {
			if res.Count, err = r.u32(); err != nil {
				break
			}
			if res.EOF, err = r.boolean(); err != nil {
				break
			}
			if res.Data, err = r.opaque(-1); err != nil {
				break
			}
			if uint32(len(res.Data)) != res.Count {
				err = fmt.Errorf("READ count %d != opaque length %d", res.Count, len(res.Data))
			}
		}
	case 7: // WRITE
		if res.Wcc, err = r.wcc(); err == nil && ok {
			if res.Count, err = r.u32(); err != nil {
				break
			}
			if res.Committed, err = r.u32(); err != nil {
				break
			}
			if res.Committed > 2 {
				err = fmt.Errorf("stable_how %d not in enum", res.Committed)
				break
			}
			var v []byte
			if v, err = r.fixed(8); err == nil {
				copy(res.Verf[:], v)
			}
		}
	case 8, 9, 10, 11: // CREATE MKDIR SYMLINK MKNOD
		if ok {
			if res.FHPresent, res.FH, err = r.postfh(); err != nil {
				break
			}
			if res.Obj, err = r.postop(); err != nil {
				break
			}
		}
		res.Wcc, err = r.wcc()
	case 12, 13: // REMOVE RMDIR
		res.Wcc, err = r.wcc()
	case 14: // RENAME
		if res.Wcc, err = r.wcc(); err == nil {
			res.Wcc2, err = r.wcc()
		}
	case 15: // LINK
		if res.Obj, err = r.postop(); err == nil {
			res.Wcc, err = r.wcc()
		}
	case 16, 17: // READDIR, READDIRPLUS
		if res.Obj, err = r.postop(); err != nil || !ok {
			break
		}
		var v []byte
		if v, err = r.fixed(8); err != nil {
			break
		}
		copy(res.Verf[:], v)
		for {
			var more bool
			if more, err = r.boolean(); err != nil || !more {
				break
			}
			var e DirEntry
			if e.Fileid, err = r.u64(); err != nil {
				break
			}
			var nb []byte
			if nb, err = r.opaque(-1); err != nil {
				break
			}
			e.Name = string(nb)
			if e.Cookie, err = r.u64(); err != nil {
				break
			}
			if proc == 17 {
				if e.Attr, err = r.postop(); err != nil {
					break
				}
				if e.FHPresent, e.FH, err = r.postfh(); err != nil {
					break
				}
			}
			res.Entries = append(res.Entries, e)
		}
		if err == nil {
			res.EOF, err = r.boolean()
		}
	case 18: // FSSTAT
		if res.Obj, err = r.postop(); err == nil && ok {
			for i := range res.Fsstat {
				if res.Fsstat[i], err = r.u64(); err != nil {
					break
				}
			}
			if err == nil {
				res.Invarsec, err = r.u32()
			}
		}
	case 19: // FSINFO
		if res.Obj, err = r.postop(); err == nil && ok {
			f := &res.Fsinfo
			for _, p := range []*uint32{&f.Rtmax, &f.Rtpref, &f.Rtmult, &f.Wtmax, &f.Wtpref, &f.Wtmult, &f.Dtpref} {
				if *p, err = r.u32(); err != nil {
					break
				}
			}
			if err != nil {
				break
			}
			if f.Maxfilesize, err = r.u64(); err != nil {
				break
			}
			if f.TimeDelta, err = r.time(); err != nil {
				break
			}
			f.Properties, err = r.u32()
		}
	case 20: // PATHCONF
		if res.Obj, err = r.postop(); err == nil && ok {
			p := &res.Pathconf
			if p.Linkmax, err = r.u32(); err != nil {
				break
			}
			if p.NameMax, err = r.u32(); err != nil {
				break
			}
			for _, b := range []*bool{&p.NoTrunc, &p.ChownRestricted, &p.CaseInsensitive, &p.CasePreserving} {
				if *b, err = r.boolean(); err != nil {
					break
				}
			}
		}
	case 21: // COMMIT
		if res.Wcc, err = r.wcc(); err == nil && ok {
			var v []byte
			if v, err = r.fixed(8); err == nil {
				copy(res.Verf[:], v)
			}
		}
	}
	if err != nil {
		return res, err
	}
	res.ResLen = r.pos - start
	return res, r.done()
}

// ---------------- MOUNT v3 ----------------

type MountRes struct {
	Proc    uint32
	Status  uint32
	FH      []byte
	Flavors []uint32
	Exports []string
}

func DecodeMount(proc uint32, body []byte) (*MountRes, error) {
	r := &rd{b: body}
	m := &MountRes{Proc: proc}
	var err error
	switch proc {
	case 0, 3, 4:
		return m, r.done()
	case 1:
		if m.Status, err = r.u32(); err != nil {
			return nil, err
		}
		if !mountstat3[m.Status] {
			return m, fmt.Errorf("status %d not in mountstat3", m.Status)
		}
		if m.Status == 0 {
			if m.FH, err = r.opaque(64); err != nil {
				return m, err
			}
			n, err := r.u32()
			if err != nil {
				return m, err
			}
			if int(n) > r.left()/4 {
				return m, fmt.Errorf("auth_flavors count %d too large", n)
			}
			for i := uint32(0); i < n; i++ {
				v, err := r.u32()
				if err != nil {
					return m, err
				}
				m.Flavors = append(m.Flavors, v)
			}
		}
		return m, r.done()
	case 2: // DUMP: mountlist
		for {
			more, err := r.boolean()
			if err != nil {
				return m, err
			}
			if !more {
				break
			}
			if _, err = r.opaque(255); err != nil {
				return m, err
			}
			if _, err = r.opaque(1024); err != nil {
				return m, err
			}
		}
		return m, r.done()
	case 5: // EXPORT
		for {
			more, err := r.boolean()
			if err != nil {
				return m, err
			}
			if !more {
				break
			}
			d, err := r.opaque(1024)
			if err != nil {
				return m, err
			}
			m.Exports = append(m.Exports, string(d))
			for {
				g, err := r.boolean()
				if err != nil {
					return m, err
				}
				if !g {
					break
				}
				if _, err = r.opaque(255); err != nil {
					return m, err
				}
			}
		}
		return m, r.done()
	}
	return nil, fmt.Errorf("no such MOUNT procedure %d", proc)
}

// ---------------- portmap v2 / rpcbind v3,v4 ----------------

type PmapEntry struct {
	Prog, Vers, Prot, Port uint32
	Netid, Addr, Owner     string
}

func DecodeBool(body []byte) (bool, error) {
	r := &rd{b: body}
	v, err := r.boolean()
	if err != nil {
		return false, err
	}
	return v, r.done()
}
func DecodeU32(body []byte) (uint32, error) {
	r := &rd{b: body}
	v, err := r.u32()
	if err != nil {
		return 0, err
	}
	return v, r.done()
}
func DecodeString(body []byte) (string, error) {
	r := &rd{b: body}
	v, err := r.opaque(-1)
	if err != nil {
		return "", err
	}
	return string(v), r.done()
}
func DecodePmapDump(body []byte) ([]PmapEntry, error) {
	r := &rd{b: body}
	var out []PmapEntry
	for {
		more, err := r.boolean()
		if err != nil {
			return out, err
		}
		if !more {
			return out, r.done()
		}
		var e PmapEntry
		for _, p := range []*uint32{&e.Prog, &e.Vers, &e.Prot, &e.Port} {
			if *p, err = r.u32(); err != nil {
				return out, err
			}
		}
		out = append(out, e)
	}
}
func DecodeRpcbDump(body []byte) ([]PmapEntry, error) {
	r := &rd{b: body}
	var out []PmapEntry
	for {
		more, err := r.boolean()
		if err != nil {
			return out, err
		}
		if !more {
			return out, r.done()
		}
		var e PmapEntry
		if e.Prog, err = r.u32(); err != nil {
			return out, err
		}
		if e.Vers, err = r.u32(); err != nil {
			return out, err
		}
		for _, p := range []*string{&e.Netid, &e.Addr, &e.Owner} {
			b, err := r.opaque(-1)
			if err != nil {
				return out, err
			}
			*p = string(b)
		}
		out = append(out, e)
	}
}
