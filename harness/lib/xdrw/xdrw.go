// Package xdrw is an XDR / ONC RPC / NFSv3 argument encoder written from the
// RFCs, independent of the server's own codec.
package xdrw

import "encoding/binary"

type W struct{ B []byte }

func (w *W) U32(v uint32) *W { w.B = binary.BigEndian.AppendUint32(w.B, v); return w }
func (w *W) U64(v uint64) *W { w.B = binary.BigEndian.AppendUint64(w.B, v); return w }
func (w *W) Bool(b bool) *W {
	if b {
		return w.U32(1)
	}
	return w.U32(0)
}
func (w *W) Raw(b []byte) *W { w.B = append(w.B, b...); return w }
func (w *W) Opaque(b []byte) *W {
	w.U32(uint32(len(b)))
	w.B = append(w.B, b...)
	for len(w.B)%4 != 0 {
		w.B = append(w.B, 0)
	}
	return w
}
func (w *W) Str(s string) *W { return w.Opaque([]byte(s)) }
func (w *W) FH(h uint64) *W  { w.U32(8); return w.U64(h) }

// Cred is an opaque_auth.
type Cred struct {
	Flavor uint32
	Body   []byte
}

// AuthSys builds an AUTH_SYS credential body.
func AuthSys(stamp uint32, machine string, uid, gid uint32, gids []uint32) Cred {
	w := &W{}
	w.U32(stamp).Str(machine).U32(uid).U32(gid).U32(uint32(len(gids)))
	for _, g := range gids {
		w.U32(g)
	}
	return Cred{Flavor: 1, Body: w.B}
}

// CallHeader encodes an RPC call header (rpcvers 2) with AUTH_NONE verifier.
func CallHeader(xid, prog, vers, proc uint32, c Cred) []byte {
	w := &W{}
	w.U32(xid).U32(0).U32(2).U32(prog).U32(vers).U32(proc)
	w.U32(c.Flavor).Opaque(c.Body)
	w.U32(0).U32(0)
	return w.B
}

// Record wraps msg as a single last fragment.
func Record(msg []byte) []byte {
	w := &W{}
	w.U32(0x80000000 | uint32(len(msg)))
	return append(w.B, msg...)
}

// Fragments splits msg at the given cut sizes; the remainder is the last
// fragment. A zero size yields an empty fragment.
func Fragments(msg []byte, sizes []int) []byte {
	var out []byte
	rest := msg
	for _, s := range sizes {
		if s > len(rest) {
			s = len(rest)
		}
		out = binary.BigEndian.AppendUint32(out, uint32(s))
		out = append(out, rest[:s]...)
		rest = rest[s:]
	}
	out = binary.BigEndian.AppendUint32(out, 0x80000000|uint32(len(rest)))
	return append(out, rest...)
}

// Sattr3 is the settable attribute structure.
type Sattr3 struct {
	Mode         *uint32
	UID, GID     *uint32
	Size         *uint64
	Atime, Mtime uint32 // 0 don't change, 1 server time, 2 client time
	ATime, MTime [2]uint32
}

func (w *W) Sattr(s Sattr3) *W {
	opt32 := func(p *uint32) {
		if p == nil {
			w.U32(0)
		} else {
			w.U32(1).U32(*p)
		}
	}
	opt32(s.Mode)
	opt32(s.UID)
	opt32(s.GID)
	if s.Size == nil {
		w.U32(0)
	} else {
		w.U32(1).U64(*s.Size)
	}
	w.U32(s.Atime)
	if s.Atime == 2 {
		w.U32(s.ATime[0]).U32(s.ATime[1])
	}
	w.U32(s.Mtime)
	if s.Mtime == 2 {
		w.U32(s.MTime[0]).U32(s.MTime[1])
	}
	return w
}

func U32p(v uint32) *uint32 { return &v }
func U64p(v uint64) *uint64 { return &v }

// NFSv3 argument builders (RFC 1813).
func ArgFH(h uint64) []byte { return (&W{}).FH(h).B }
func ArgSetattr(h uint64, s Sattr3, guard bool, gs, gn uint32) []byte {
	w := (&W{}).FH(h).Sattr(s).Bool(guard)
	if guard {
		w.U32(gs).U32(gn)
	}
	return w.B
}
func ArgDirop(h uint64, name string) []byte { return (&W{}).FH(h).Str(name).B }
func ArgAccess(h uint64, mask uint32) []byte { return (&W{}).FH(h).U32(mask).B }
func ArgRead(h uint64, off uint64, count uint32) []byte {
	return (&W{}).FH(h).U64(off).U32(count).B
}
func ArgWrite(h uint64, off uint64, count, stable uint32, data []byte) []byte {
	return (&W{}).FH(h).U64(off).U32(count).U32(stable).Opaque(data).B
}

// ArgCreate: how 0 UNCHECKED, 1 GUARDED (sattr), 2 EXCLUSIVE (verf).
func ArgCreate(h uint64, name string, how uint32, s Sattr3, verf [8]byte) []byte {
	w := (&W{}).FH(h).Str(name).U32(how)
	if how == 2 {
		w.Raw(verf[:])
	} else {
		w.Sattr(s)
	}
	return w.B
}
func ArgMkdir(h uint64, name string, s Sattr3) []byte { return (&W{}).FH(h).Str(name).Sattr(s).B }
func ArgSymlink(h uint64, name string, s Sattr3, target string) []byte {
	return (&W{}).FH(h).Str(name).Sattr(s).Str(target).B
}
func ArgMknod(h uint64, name string, ftype uint32) []byte {
	w := (&W{}).FH(h).Str(name).U32(ftype)
	switch ftype {
	case 3, 4: // CHR/BLK: sattr + specdata
		w.Sattr(Sattr3{}).U32(0).U32(0)
	case 6, 7:
		w.Sattr(Sattr3{})
	}
	return w.B
}
func ArgRename(fh uint64, fn string, th uint64, tn string) []byte {
	return (&W{}).FH(fh).Str(fn).FH(th).Str(tn).B
}
func ArgLink(h, dir uint64, name string) []byte { return (&W{}).FH(h).FH(dir).Str(name).B }
func ArgReaddir(h, cookie uint64, verf [8]byte, count uint32) []byte {
	return (&W{}).FH(h).U64(cookie).Raw(verf[:]).U32(count).B
}
func ArgReaddirplus(h, cookie uint64, verf [8]byte, dircount, maxcount uint32) []byte {
	return (&W{}).FH(h).U64(cookie).Raw(verf[:]).U32(dircount).U32(maxcount).B
}
func ArgCommit(h, off uint64, count uint32) []byte { return (&W{}).FH(h).U64(off).U32(count).B }
