module verif.local/lib

go 1.23

require github.com/absfs/absfs v1.0.0
