// Package refs is a small, thread-safe, recording in-memory POSIX-like
// filesystem implementing absfs.SymlinkFileSystem. It is built for
// observation, not speed: every call is logged (name, raw path arguments,
// result, request tag, global sequence number), classified as mutating or not,
// and can be gated, delayed or failed by a hook that runs outside the lock.
// It also models volatile vs durable file bytes (Sync / Crash).
package refs

import (
	"errors"
	"hash/fnv"
	"io"
	"io/fs"
	"os"
	"path"
	"sort"
	"strings"
	"sync"
	"sync/atomic"
	"syscall"
	"time"

	"github.com/absfs/absfs"
)

type Kind int

const (
	KFile Kind = iota
	KDir
	KLink
)

func (k Kind) String() string { return [...]string{"file", "dir", "symlink"}[k] }

type node struct {
	kind     Kind
	perm     os.FileMode // permission + setuid/setgid/sticky bits only
	uid, gid int
	ownerSet bool
	mtime    time.Time
	atime    time.Time
	data     []byte // volatile bytes
	durable  []byte // bytes that survive Crash()
	target   string
	children map[string]*node
	ino      uint64
	special  os.FileMode // extra type bits reported by stat for a KFile node (fifo, socket, device, irregular)
}

// Phase of a hook invocation.
type Phase int

const (
	Before Phase = iota
	After
)

// Op is one backend call.
type Op struct {
	Seq      uint64
	Name     string // method name, File methods are "File.X"
	Path     string // raw first path argument (or the open path for File methods)
	Path2    string // raw second path argument (Rename new)
	Target   string // symlink target (Symlink)
	Flag     int
	Off      int64
	Len      int
	UID, GID int
	Mutating bool
	Err      string
	Tag      string
	Injected bool
}

// Hook is called (outside the filesystem lock) before and after each logged
// call. A non-nil error returned in the Before phase makes the call fail with
// that error without touching the tree.
type Hook func(op *Op, ph Phase) error

type FS struct {
	mu      sync.Mutex
	root    *node
	nextIno uint64
	tick    int64
	base    time.Time

	MaxSize int64 // EFBIG above this (overflow-safe)

	seq      atomic.Uint64
	mut      atomic.Uint64
	hook     atomic.Pointer[Hook]
	tag      atomic.Pointer[string]
	logMu    sync.Mutex
	log      []Op
	keepLog  bool
	counts   map[string]int
	badPaths []string // raw path arguments that were not clean absolute paths
}

// New returns an empty filesystem with a root directory (mode 0755, owner 0:0).
func New() *FS {
	f := &FS{MaxSize: 1 << 20, base: time.Unix(1_700_000_000, 0), keepLog: true, counts: map[string]int{}}
	f.root = &node{kind: KDir, perm: 0755, children: map[string]*node{}, ino: 1, ownerSet: true, mtime: f.base, atime: f.base}
	f.nextIno = 2
	return f
}

func (f *FS) SetHook(h Hook) {
	if h == nil {
		f.hook.Store(nil)
		return
	}
	f.hook.Store(&h)
}
func (f *FS) SetTag(t string)      { f.tag.Store(&t) }
func (f *FS) KeepLog(b bool)       { f.logMu.Lock(); f.keepLog = b; f.logMu.Unlock() }
func (f *FS) MutCount() uint64     { return f.mut.Load() }
func (f *FS) Seq() uint64          { return f.seq.Load() }
func (f *FS) LogLen() int          { f.logMu.Lock(); defer f.logMu.Unlock(); return len(f.log) }
func (f *FS) ResetLog()            { f.logMu.Lock(); f.log = f.log[:0]; f.logMu.Unlock() }
func (f *FS) Counts() map[string]int {
	f.logMu.Lock()
	defer f.logMu.Unlock()
	m := make(map[string]int, len(f.counts))
	for k, v := range f.counts {
		m[k] = v
	}
	return m
}
func (f *FS) LogSlice(lo, hi int) []Op {
	f.logMu.Lock()
	defer f.logMu.Unlock()
	if hi > len(f.log) {
		hi = len(f.log)
	}
	if lo > hi {
		lo = hi
	}
	out := make([]Op, hi-lo)
	copy(out, f.log[lo:hi])
	return out
}
func (f *FS) BadPaths() []string {
	f.logMu.Lock()
	defer f.logMu.Unlock()
	return append([]string(nil), f.badPaths...)
}

// CleanAbs reports whether p is an absolute, normalized path without NUL.
func CleanAbs(p string) bool {
	return p != "" && p[0] == '/' && path.Clean(p) == p && !strings.ContainsRune(p, 0)
}

func (f *FS) begin(op *Op) error {
	op.Seq = f.seq.Add(1)
	if t := f.tag.Load(); t != nil {
		op.Tag = *t
	}
	if op.Mutating {
		f.mut.Add(1)
	}
	if !CleanAbs(op.Path) || (op.Path2 != "" && !CleanAbs(op.Path2)) {
		f.logMu.Lock()
		if len(f.badPaths) < 64 {
			f.badPaths = append(f.badPaths, op.Name+":"+op.Path+"|"+op.Path2)
		}
		f.logMu.Unlock()
	}
	if h := f.hook.Load(); h != nil {
		if err := (*h)(op, Before); err != nil {
			op.Injected = true
			return err
		}
	}
	return nil
}

func (f *FS) end(op *Op, err error) {
	if err != nil {
		op.Err = errString(err)
	}
	f.logMu.Lock()
	f.counts[op.Name]++
	if f.keepLog {
		f.log = append(f.log, *op)
	}
	f.logMu.Unlock()
	if h := f.hook.Load(); h != nil {
		(*h)(op, After)
	}
}

func errString(err error) string {
	var en syscall.Errno
	if errors.As(err, &en) {
		return errnoName(en)
	}
	if err == io.EOF {
		return "EOF"
	}
	return err.Error()
}

func errnoName(e syscall.Errno) string {
	switch e {
	case syscall.ENOENT:
		return "ENOENT"
	case syscall.EEXIST:
		return "EEXIST"
	case syscall.ENOTDIR:
		return "ENOTDIR"
	case syscall.EISDIR:
		return "EISDIR"
	case syscall.ENOTEMPTY:
		return "ENOTEMPTY"
	case syscall.EINVAL:
		return "EINVAL"
	case syscall.EFBIG:
		return "EFBIG"
	case syscall.ELOOP:
		return "ELOOP"
	case syscall.EBADF:
		return "EBADF"
	case syscall.EIO:
		return "EIO"
	case syscall.ENOSPC:
		return "ENOSPC"
	case syscall.EACCES:
		return "EACCES"
	case syscall.EBUSY:
		return "EBUSY"
	case syscall.ENAMETOOLONG:
		return "ENAMETOOLONG"
	}
	return e.Error()
}

func perr(op, p string, e syscall.Errno) error { return &os.PathError{Op: op, Path: p, Err: e} }

func (f *FS) now() time.Time {
	f.tick++
	return f.base.Add(time.Duration(f.tick) * time.Millisecond)
}

// ---- resolution (caller holds f.mu) ----

func split(p string) []string {
	p = path.Clean("/" + p)
	if p == "/" {
		return nil
	}
	return strings.Split(p[1:], "/")
}

// walk resolves p. If followLast is false the final component is not
// dereferenced. Returns the parent directory, the final name, and the node
// (nil when the final component does not exist but the parent does).
func (f *FS) walk(p string, followLast bool, depth int) (parent *node, name string, n *node, err syscall.Errno) {
	if depth > 40 {
		return nil, "", nil, syscall.ELOOP
	}
	comps := split(p)
	cur := f.root
	if len(comps) == 0 {
		return nil, "", f.root, 0
	}
	curPath := "/"
	for i, c := range comps {
		if len(c) > 255 {
			return nil, "", nil, syscall.ENAMETOOLONG
		}
		if cur.kind != KDir {
			return nil, "", nil, syscall.ENOTDIR
		}
		child := cur.children[c]
		last := i == len(comps)-1
		if child == nil {
			if last {
				return cur, c, nil, 0
			}
			return nil, "", nil, syscall.ENOENT
		}
		if child.kind == KLink && (!last || followLast) {
			var tp string
			if strings.HasPrefix(child.target, "/") {
				tp = child.target
			} else {
				tp = path.Join(curPath, child.target)
			}
			rest := strings.Join(comps[i+1:], "/")
			if rest != "" {
				tp = tp + "/" + rest
			}
			return f.walk(tp, followLast, depth+1)
		}
		if last {
			return cur, c, child, 0
		}
		cur = child
		curPath = path.Join(curPath, c)
	}
	return nil, "", nil, syscall.ENOENT
}

func (f *FS) newNode(k Kind, perm os.FileMode) *node {
	t := f.now()
	n := &node{kind: k, perm: perm & permMask, uid: -1, gid: -1, mtime: t, atime: t, ino: f.nextIno}
	f.nextIno++
	if k == KDir {
		n.children = map[string]*node{}
	}
	return n
}

const permMask = os.ModePerm | os.ModeSetuid | os.ModeSetgid | os.ModeSticky

// ---- FileInfo ----

// Stat is what FileInfo.Sys() returns.
type Stat struct {
	Uid, Gid int
	OwnerSet bool
	Ino      uint64
}

type info struct {
	name  string
	size  int64
	mode  os.FileMode
	mtime time.Time
	sys   Stat
}

func (i *info) Name() string       { return i.name }
func (i *info) Size() int64        { return i.size }
func (i *info) Mode() os.FileMode  { return i.mode }
func (i *info) ModTime() time.Time { return i.mtime }
func (i *info) IsDir() bool        { return i.mode.IsDir() }
func (i *info) Sys() interface{}   { s := i.sys; return &s }

func (n *node) size() int64 {
	switch n.kind {
	case KDir:
		return 4096
	case KLink:
		return int64(len(n.target))
	}
	return int64(len(n.data))
}

func (n *node) mode() os.FileMode {
	switch n.kind {
	case KDir:
		return n.perm | os.ModeDir
	case KLink:
		return n.perm | os.ModeSymlink
	}
	return n.perm | n.special
}

func mkinfo(name string, n *node) *info {
	return &info{name: name, size: n.size(), mode: n.mode(), mtime: n.mtime, sys: Stat{n.uid, n.gid, n.ownerSet, n.ino}}
}

func base(p string) string {
	p = path.Clean("/" + p)
	if p == "/" {
		return "/"
	}
	return path.Base(p)
}

// ---- absfs.SymlinkFileSystem ----

var _ absfs.SymlinkFileSystem = (*FS)(nil)

func (f *FS) statImpl(opn, name string, follow bool) (os.FileInfo, error) {
	op := &Op{Name: opn, Path: name}
	if err := f.begin(op); err != nil {
		f.end(op, err)
		return nil, err
	}
	f.mu.Lock()
	_, _, n, e := f.walk(name, follow, 0)
	var fi os.FileInfo
	var err error
	if e != 0 {
		err = perr(strings.ToLower(opn), name, e)
	} else if n == nil {
		err = perr(strings.ToLower(opn), name, syscall.ENOENT)
	} else {
		fi = mkinfo(base(name), n)
	}
	f.mu.Unlock()
	f.end(op, err)
	return fi, err
}

func (f *FS) Stat(name string) (os.FileInfo, error)  { return f.statImpl("Stat", name, true) }
func (f *FS) Lstat(name string) (os.FileInfo, error) { return f.statImpl("Lstat", name, false) }

func writeFlags(flag int) bool {
	return flag&(os.O_WRONLY|os.O_RDWR|os.O_CREATE|os.O_TRUNC|os.O_APPEND) != 0
}

func (f *FS) OpenFile(name string, flag int, perm os.FileMode) (absfs.File, error) {
	return f.openImpl("OpenFile", name, flag, perm)
}
func (f *FS) Open(name string) (absfs.File, error) { return f.openImpl("Open", name, os.O_RDONLY, 0) }
func (f *FS) Create(name string) (absfs.File, error) {
	return f.openImpl("Create", name, os.O_RDWR|os.O_CREATE|os.O_TRUNC, 0666)
}

func (f *FS) openImpl(opn, name string, flag int, perm os.FileMode) (absfs.File, error) {
	op := &Op{Name: opn, Path: name, Flag: flag, Mutating: writeFlags(flag)}
	if err := f.begin(op); err != nil {
		f.end(op, err)
		return nil, err
	}
	f.mu.Lock()
	var file *File
	var err error
	parent, last, n, e := f.walk(name, true, 0)
	switch {
	case e != 0:
		err = perr("open", name, e)
	case n == nil:
		if flag&os.O_CREATE == 0 {
			err = perr("open", name, syscall.ENOENT)
		} else if parent == nil || parent.kind != KDir {
			err = perr("open", name, syscall.ENOTDIR)
		} else {
			n = f.newNode(KFile, perm)
			parent.children[last] = n
			parent.mtime = f.now()
		}
	default:
		if flag&os.O_CREATE != 0 && flag&os.O_EXCL != 0 {
			err = perr("open", name, syscall.EEXIST)
		} else if n.kind == KDir && writeFlags(flag) {
			err = perr("open", name, syscall.EISDIR)
		} else if flag&os.O_TRUNC != 0 && n.kind == KFile {
			n.data = nil
			n.mtime = f.now()
		}
	}
	if err == nil {
		file = &File{fs: f, n: n, name: name, flag: flag}
	}
	f.mu.Unlock()
	f.end(op, err)
	if err != nil {
		return nil, err
	}
	return file, nil
}

func (f *FS) Mkdir(name string, perm os.FileMode) error {
	op := &Op{Name: "Mkdir", Path: name, Mutating: true}
	if err := f.begin(op); err != nil {
		f.end(op, err)
		return err
	}
	f.mu.Lock()
	var err error
	parent, last, n, e := f.walk(name, false, 0)
	switch {
	case e != 0:
		err = perr("mkdir", name, e)
	case n != nil:
		err = perr("mkdir", name, syscall.EEXIST)
	case parent == nil || parent.kind != KDir:
		err = perr("mkdir", name, syscall.ENOTDIR)
	default:
		parent.children[last] = f.newNode(KDir, perm)
		parent.mtime = f.now()
	}
	f.mu.Unlock()
	f.end(op, err)
	return err
}

func (f *FS) MkdirAll(name string, perm os.FileMode) error {
	op := &Op{Name: "MkdirAll", Path: name, Mutating: true}
	if err := f.begin(op); err != nil {
		f.end(op, err)
		return err
	}
	f.mu.Lock()
	var err error
	cur := f.root
	for _, c := range split(name) {
		ch := cur.children[c]
		if ch == nil {
			ch = f.newNode(KDir, perm)
			cur.children[c] = ch
		} else if ch.kind != KDir {
			err = perr("mkdir", name, syscall.ENOTDIR)
			break
		}
		cur = ch
	}
	f.mu.Unlock()
	f.end(op, err)
	return err
}

func (f *FS) Remove(name string) error {
	op := &Op{Name: "Remove", Path: name, Mutating: true}
	if err := f.begin(op); err != nil {
		f.end(op, err)
		return err
	}
	f.mu.Lock()
	var err error
	parent, last, n, e := f.walk(name, false, 0)
	switch {
	case e != 0:
		err = perr("remove", name, e)
	case n == nil:
		err = perr("remove", name, syscall.ENOENT)
	case parent == nil:
		err = perr("remove", name, syscall.EBUSY)
	case n.kind == KDir && len(n.children) > 0:
		err = perr("remove", name, syscall.ENOTEMPTY)
	default:
		delete(parent.children, last)
		parent.mtime = f.now()
	}
	f.mu.Unlock()
	f.end(op, err)
	return err
}

func (f *FS) RemoveAll(name string) error {
	op := &Op{Name: "RemoveAll", Path: name, Mutating: true}
	if err := f.begin(op); err != nil {
		f.end(op, err)
		return err
	}
	f.mu.Lock()
	parent, last, n, e := f.walk(name, false, 0)
	if e == 0 && n != nil && parent != nil {
		delete(parent.children, last)
		parent.mtime = f.now()
	}
	f.mu.Unlock()
	f.end(op, nil)
	return nil
}

func isAncestor(a, b *node) bool { // a is b or an ancestor of b
	if a == b {
		return true
	}
	for _, c := range a.children {
		if c.kind == KDir && isAncestor(c, b) {
			return true
		}
	}
	return false
}

func (f *FS) Rename(oldpath, newpath string) error {
	op := &Op{Name: "Rename", Path: oldpath, Path2: newpath, Mutating: true}
	if err := f.begin(op); err != nil {
		f.end(op, err)
		return err
	}
	f.mu.Lock()
	err := f.renameLocked(oldpath, newpath)
	f.mu.Unlock()
	f.end(op, err)
	return err
}

func (f *FS) renameLocked(oldpath, newpath string) error {
	lerr := func(e syscall.Errno) error { return &os.LinkError{Op: "rename", Old: oldpath, New: newpath, Err: e} }
	op, on, o, e := f.walk(oldpath, false, 0)
	if e != 0 {
		return lerr(e)
	}
	if o == nil {
		return lerr(syscall.ENOENT)
	}
	if op == nil {
		return lerr(syscall.EBUSY)
	}
	np, nn, n, e := f.walk(newpath, false, 0)
	if e != 0 {
		return lerr(e)
	}
	if np == nil { // new is root
		return lerr(syscall.EBUSY)
	}
	if np.kind != KDir {
		return lerr(syscall.ENOTDIR)
	}
	if n == o {
		return nil
	}
	if o.kind == KDir && isAncestor(o, np) {
		return lerr(syscall.EINVAL)
	}
	if n != nil {
		if o.kind == KDir {
			if n.kind != KDir {
				return lerr(syscall.ENOTDIR)
			}
			if len(n.children) > 0 {
				return lerr(syscall.ENOTEMPTY)
			}
		} else if n.kind == KDir {
			return lerr(syscall.EISDIR)
		}
	}
	delete(op.children, on)
	np.children[nn] = o
	t := f.now()
	op.mtime, np.mtime = t, t
	return nil
}

func (f *FS) Symlink(oldname, newname string) error {
	op := &Op{Name: "Symlink", Path: newname, Target: oldname, Mutating: true}
	if err := f.begin(op); err != nil {
		f.end(op, err)
		return err
	}
	f.mu.Lock()
	var err error
	parent, last, n, e := f.walk(newname, false, 0)
	lerr := func(e syscall.Errno) error { return &os.LinkError{Op: "symlink", Old: oldname, New: newname, Err: e} }
	switch {
	case e != 0:
		err = lerr(e)
	case n != nil:
		err = lerr(syscall.EEXIST)
	case parent == nil || parent.kind != KDir:
		err = lerr(syscall.ENOTDIR)
	default:
		ln := f.newNode(KLink, 0777)
		ln.target = oldname
		parent.children[last] = ln
		parent.mtime = f.now()
	}
	f.mu.Unlock()
	f.end(op, err)
	return err
}

func (f *FS) Readlink(name string) (string, error) {
	op := &Op{Name: "Readlink", Path: name}
	if err := f.begin(op); err != nil {
		f.end(op, err)
		return "", err
	}
	f.mu.Lock()
	var err error
	var t string
	_, _, n, e := f.walk(name, false, 0)
	switch {
	case e != 0:
		err = perr("readlink", name, e)
	case n == nil:
		err = perr("readlink", name, syscall.ENOENT)
	case n.kind != KLink:
		err = perr("readlink", name, syscall.EINVAL)
	default:
		t = n.target
	}
	f.mu.Unlock()
	f.end(op, err)
	return t, err
}

func (f *FS) attrOp(opn, name string, follow bool, uid, gid int, fn func(n *node) syscall.Errno) error {
	op := &Op{Name: opn, Path: name, Mutating: true, UID: uid, GID: gid}
	if err := f.begin(op); err != nil {
		f.end(op, err)
		return err
	}
	f.mu.Lock()
	var err error
	_, _, n, e := f.walk(name, follow, 0)
	if e == 0 && n == nil {
		e = syscall.ENOENT
	}
	if e == 0 {
		e = fn(n)
	}
	if e != 0 {
		err = perr(strings.ToLower(opn), name, e)
	}
	f.mu.Unlock()
	f.end(op, err)
	return err
}

func (f *FS) Chmod(name string, mode os.FileMode) error {
	return f.attrOp("Chmod", name, true, 0, 0, func(n *node) syscall.Errno { n.perm = mode & permMask; return 0 })
}
func chownFn(uid, gid int) func(n *node) syscall.Errno {
	return func(n *node) syscall.Errno {
		if uid != -1 {
			n.uid = uid
		}
		if gid != -1 {
			n.gid = gid
		}
		n.ownerSet = true
		return 0
	}
}
func (f *FS) Chown(name string, uid, gid int) error {
	return f.attrOp("Chown", name, true, uid, gid, chownFn(uid, gid))
}
func (f *FS) Lchown(name string, uid, gid int) error {
	return f.attrOp("Lchown", name, false, uid, gid, chownFn(uid, gid))
}
func (f *FS) Chtimes(name string, atime, mtime time.Time) error {
	return f.attrOp("Chtimes", name, true, 0, 0, func(n *node) syscall.Errno {
		if !atime.IsZero() {
			n.atime = atime
		}
		if !mtime.IsZero() {
			n.mtime = mtime
		}
		return 0
	})
}

func (f *FS) truncNode(n *node, size int64) syscall.Errno {
	if n.kind == KDir {
		return syscall.EISDIR
	}
	if n.kind != KFile || size < 0 {
		return syscall.EINVAL
	}
	if size > f.MaxSize {
		return syscall.EFBIG
	}
	n.data = resize(n.data, size)
	n.durable = resize(n.durable, size) // a size change is metadata: durable when it returns (stated assumption of C22)
	n.mtime = f.now()
	return 0
}

func min64(a, b int64) int64 {
	if a < b {
		return a
	}
	return b
}

func resize(b []byte, size int64) []byte {
	if int64(len(b)) >= size {
		return b[:size:size]
	}
	nb := make([]byte, size)
	copy(nb, b)
	return nb
}

func (f *FS) Truncate(name string, size int64) error {
	op := &Op{Name: "Truncate", Path: name, Mutating: true, Off: size}
	if err := f.begin(op); err != nil {
		f.end(op, err)
		return err
	}
	f.mu.Lock()
	var err error
	_, _, n, e := f.walk(name, true, 0)
	if e == 0 && n == nil {
		e = syscall.ENOENT
	}
	if e == 0 {
		e = f.truncNode(n, size)
	}
	if e != 0 {
		err = perr("truncate", name, e)
	}
	f.mu.Unlock()
	f.end(op, err)
	return err
}

func (f *FS) ReadDir(name string) ([]fs.DirEntry, error) {
	op := &Op{Name: "ReadDir", Path: name}
	if err := f.begin(op); err != nil {
		f.end(op, err)
		return nil, err
	}
	f.mu.Lock()
	var out []fs.DirEntry
	var err error
	_, _, n, e := f.walk(name, true, 0)
	switch {
	case e != 0:
		err = perr("readdir", name, e)
	case n == nil:
		err = perr("readdir", name, syscall.ENOENT)
	case n.kind != KDir:
		err = perr("readdir", name, syscall.ENOTDIR)
	default:
		for _, fi := range listDir(n) {
			out = append(out, fs.FileInfoToDirEntry(fi))
		}
	}
	f.mu.Unlock()
	f.end(op, err)
	return out, err
}

func listDir(n *node) []os.FileInfo {
	names := make([]string, 0, len(n.children))
	for k := range n.children {
		names = append(names, k)
	}
	sort.Strings(names)
	if ReverseListings.Load() {
		// a backend whose directory order is stable but not ascending by name (most real ones)
		for i, j := 0, len(names)-1; i < j; i, j = i+1, j-1 {
			names[i], names[j] = names[j], names[i]
		}
	}
	out := make([]os.FileInfo, 0, len(names))
	for _, k := range names {
		out = append(out, mkinfo(k, n.children[k]))
	}
	return out
}

// ReverseListings makes every directory listing come back in descending name order.
var ReverseListings atomic.Bool

func (f *FS) ReadFile(name string) ([]byte, error) {
	op := &Op{Name: "ReadFile", Path: name}
	if err := f.begin(op); err != nil {
		f.end(op, err)
		return nil, err
	}
	f.mu.Lock()
	var out []byte
	var err error
	_, _, n, e := f.walk(name, true, 0)
	switch {
	case e != 0:
		err = perr("read", name, e)
	case n == nil:
		err = perr("read", name, syscall.ENOENT)
	case n.kind != KFile:
		err = perr("read", name, syscall.EISDIR)
	default:
		out = append([]byte(nil), n.data...)
	}
	f.mu.Unlock()
	f.end(op, err)
	return out, err
}

func (f *FS) Sub(dir string) (fs.FS, error) { return nil, errors.New("refs: Sub not supported") }
func (f *FS) Chdir(dir string) error {
	op := &Op{Name: "Chdir", Path: dir}
	f.begin(op)
	f.end(op, nil)
	return nil
}
func (f *FS) Getwd() (string, error) { return "/", nil }
func (f *FS) TempDir() string        { return "/tmp" }

// ---- File ----

type File struct {
	fs     *FS
	n      *node
	name   string
	flag   int
	pos    int64
	dirPos int
	closed bool
}

var _ absfs.File = (*File)(nil)

func (fl *File) Name() string { return fl.name }

func (fl *File) canRead() bool  { return fl.flag&os.O_WRONLY == 0 }
func (fl *File) canWrite() bool { return fl.flag&(os.O_WRONLY|os.O_RDWR) != 0 }

func (fl *File) op(name string, mut bool) *Op { return &Op{Name: "File." + name, Path: fl.name, Mutating: mut} }

func (fl *File) ReadAt(b []byte, off int64) (int, error) {
	op := fl.op("ReadAt", false)
	op.Off, op.Len = off, len(b)
	if err := fl.fs.begin(op); err != nil {
		fl.fs.end(op, err)
		return 0, err
	}
	fl.fs.mu.Lock()
	n, err := fl.readAtLocked(b, off)
	fl.fs.mu.Unlock()
	fl.fs.end(op, err)
	return n, err
}

func (fl *File) readAtLocked(b []byte, off int64) (int, error) {
	if fl.closed || !fl.canRead() {
		return 0, perr("read", fl.name, syscall.EBADF)
	}
	if fl.n.kind == KDir {
		return 0, perr("read", fl.name, syscall.EISDIR)
	}
	if off < 0 {
		return 0, perr("read", fl.name, syscall.EINVAL)
	}
	if off >= int64(len(fl.n.data)) {
		return 0, io.EOF
	}
	n := copy(b, fl.n.data[off:])
	if n < len(b) {
		return n, io.EOF
	}
	return n, nil
}

func (fl *File) Read(b []byte) (int, error) {
	op := fl.op("Read", false)
	op.Len = len(b)
	if err := fl.fs.begin(op); err != nil {
		fl.fs.end(op, err)
		return 0, err
	}
	fl.fs.mu.Lock()
	n, err := fl.readAtLocked(b, fl.pos)
	fl.pos += int64(n)
	if n > 0 && err == io.EOF {
		err = nil
	}
	fl.fs.mu.Unlock()
	fl.fs.end(op, err)
	return n, err
}

func (fl *File) writeAtLocked(b []byte, off int64) (int, error) {
	if fl.closed || !fl.canWrite() {
		return 0, perr("write", fl.name, syscall.EBADF)
	}
	if fl.n.kind != KFile {
		return 0, perr("write", fl.name, syscall.EISDIR)
	}
	if off < 0 {
		return 0, perr("write", fl.name, syscall.EINVAL)
	}
	if off > fl.fs.MaxSize || int64(len(b)) > fl.fs.MaxSize-off {
		return 0, perr("write", fl.name, syscall.EFBIG)
	}
	if len(b) == 0 {
		return 0, nil // POSIX: a zero-length write changes nothing
	}
	end := off + int64(len(b))
	if end > int64(len(fl.n.data)) {
		fl.n.data = resize(fl.n.data, end)
	}
	copy(fl.n.data[off:], b)
	fl.n.mtime = fl.fs.now()
	return len(b), nil
}

// ShortWrite, returned by a hook in the Before phase of File.WriteAt, makes the call store only
// the first N bytes and return (N, Err): a backend that takes part of the buffer.
type ShortWrite struct {
	N   int
	Err error
}

func (s *ShortWrite) Error() string { return "short write" }

func (fl *File) WriteAt(b []byte, off int64) (int, error) {
	op := fl.op("WriteAt", true)
	op.Off, op.Len = off, len(b)
	if err := fl.fs.begin(op); err != nil {
		if sw, ok := err.(*ShortWrite); ok && sw.N >= 0 && sw.N <= len(b) {
			fl.fs.mu.Lock()
			n, werr := fl.writeAtLocked(b[:sw.N], off)
			fl.fs.mu.Unlock()
			if werr == nil {
				werr = sw.Err
			}
			fl.fs.end(op, werr)
			return n, werr
		}
		fl.fs.end(op, err)
		return 0, err
	}
	fl.fs.mu.Lock()
	n, err := fl.writeAtLocked(b, off)
	fl.fs.mu.Unlock()
	fl.fs.end(op, err)
	return n, err
}

func (fl *File) Write(b []byte) (int, error) {
	op := fl.op("Write", true)
	op.Len = len(b)
	if err := fl.fs.begin(op); err != nil {
		fl.fs.end(op, err)
		return 0, err
	}
	fl.fs.mu.Lock()
	pos := fl.pos
	if fl.flag&os.O_APPEND != 0 {
		pos = int64(len(fl.n.data))
	}
	n, err := fl.writeAtLocked(b, pos)
	fl.pos = pos + int64(n)
	fl.fs.mu.Unlock()
	fl.fs.end(op, err)
	return n, err
}

func (fl *File) WriteString(s string) (int, error) { return fl.Write([]byte(s)) }

func (fl *File) Seek(offset int64, whence int) (int64, error) {
	fl.fs.mu.Lock()
	defer fl.fs.mu.Unlock()
	switch whence {
	case io.SeekStart:
		fl.pos = offset
	case io.SeekCurrent:
		fl.pos += offset
	case io.SeekEnd:
		fl.pos = int64(len(fl.n.data)) + offset
	}
	return fl.pos, nil
}

func (fl *File) Close() error {
	op := fl.op("Close", false)
	if err := fl.fs.begin(op); err != nil {
		fl.fs.end(op, err)
		return err
	}
	fl.fs.mu.Lock()
	fl.closed = true
	fl.fs.mu.Unlock()
	fl.fs.end(op, nil)
	return nil
}

// Sync makes the file's current bytes durable.
func (fl *File) Sync() error {
	op := fl.op("Sync", false)
	if err := fl.fs.begin(op); err != nil {
		fl.fs.end(op, err)
		return err
	}
	fl.fs.mu.Lock()
	var err error
	if fl.closed {
		err = perr("sync", fl.name, syscall.EBADF)
	} else if fl.n.kind == KFile {
		fl.n.durable = append([]byte(nil), fl.n.data...)
	}
	fl.fs.mu.Unlock()
	fl.fs.end(op, err)
	return err
}

func (fl *File) Stat() (os.FileInfo, error) {
	op := fl.op("Stat", false)
	if err := fl.fs.begin(op); err != nil {
		fl.fs.end(op, err)
		return nil, err
	}
	fl.fs.mu.Lock()
	fi := mkinfo(base(fl.name), fl.n)
	fl.fs.mu.Unlock()
	fl.fs.end(op, nil)
	return fi, nil
}

func (fl *File) Truncate(size int64) error {
	op := fl.op("Truncate", true)
	op.Off = size
	if err := fl.fs.begin(op); err != nil {
		fl.fs.end(op, err)
		return err
	}
	fl.fs.mu.Lock()
	var err error
	if !fl.canWrite() {
		err = perr("truncate", fl.name, syscall.EBADF)
	} else if e := fl.fs.truncNode(fl.n, size); e != 0 {
		err = perr("truncate", fl.name, e)
	}
	fl.fs.mu.Unlock()
	fl.fs.end(op, err)
	return err
}

func (fl *File) Readdir(count int) ([]os.FileInfo, error) {
	op := fl.op("Readdir", false)
	if err := fl.fs.begin(op); err != nil {
		fl.fs.end(op, err)
		return nil, err
	}
	fl.fs.mu.Lock()
	var out []os.FileInfo
	var err error
	if fl.n.kind != KDir {
		err = perr("readdir", fl.name, syscall.ENOTDIR)
	} else {
		all := listDir(fl.n)
		if fl.dirPos > len(all) {
			fl.dirPos = len(all)
		}
		rest := all[fl.dirPos:]
		if count > 0 {
			if len(rest) == 0 {
				err = io.EOF
			}
			if len(rest) > count {
				rest = rest[:count]
			}
		}
		out = rest
		fl.dirPos += len(rest)
	}
	fl.fs.mu.Unlock()
	fl.fs.end(op, err)
	return out, err
}

func (fl *File) Readdirnames(n int) ([]string, error) {
	fis, err := fl.Readdir(n)
	out := make([]string, len(fis))
	for i, fi := range fis {
		out[i] = fi.Name()
	}
	return out, err
}

func (fl *File) ReadDir(n int) ([]fs.DirEntry, error) {
	fis, err := fl.Readdir(n)
	out := make([]fs.DirEntry, len(fis))
	for i, fi := range fis {
		out[i] = fs.FileInfoToDirEntry(fi)
	}
	return out, err
}

// ---- quiet (unlogged) planting and inspection, for the harness ----

// Entry is the canonical description of one object.
type Entry struct {
	Kind     Kind
	Perm     os.FileMode
	Uid, Gid int
	OwnerSet bool
	Size     int64
	Hash     uint64 // fnv64a of file bytes
	Target   string
	Ino      uint64
}

func hashBytes(b []byte) uint64 { h := fnv.New64a(); h.Write(b); return h.Sum64() }

func entryOf(n *node, durable bool) Entry {
	e := Entry{Kind: n.kind, Perm: n.perm, Uid: n.uid, Gid: n.gid, OwnerSet: n.ownerSet, Target: n.target, Ino: n.ino}
	if n.kind == KFile {
		d := n.data
		if durable {
			d = n.durable
		}
		e.Size = int64(len(d))
		e.Hash = hashBytes(d)
	}
	return e
}

// Snapshot returns path -> Entry for the whole tree (volatile view).
func (f *FS) Snapshot() map[string]Entry { return f.snap(false) }

// DurableSnapshot returns the tree as it would look after Crash().
func (f *FS) DurableSnapshot() map[string]Entry { return f.snap(true) }

func (f *FS) snap(durable bool) map[string]Entry {
	f.mu.Lock()
	defer f.mu.Unlock()
	out := map[string]Entry{}
	var rec func(p string, n *node)
	rec = func(p string, n *node) {
		out[p] = entryOf(n, durable)
		for k, c := range n.children {
			rec(path.Join(p, k), c)
		}
	}
	rec("/", f.root)
	return out
}

// SnapEqual compares two snapshots ignoring inode numbers unless withIno.
func SnapEqual(a, b map[string]Entry) (bool, string) {
	for p, ea := range a {
		eb, ok := b[p]
		if !ok {
			return false, "missing " + p
		}
		ea.Ino, eb.Ino = 0, 0
		if ea != eb {
			return false, "differs " + p
		}
	}
	for p := range b {
		if _, ok := a[p]; !ok {
			return false, "extra " + p
		}
	}
	return true, ""
}

// Peek describes the object at p without following a final symlink; unlogged.
func (f *FS) Peek(p string) (Entry, bool) {
	f.mu.Lock()
	defer f.mu.Unlock()
	_, _, n, e := f.walk(p, false, 0)
	if e != 0 || n == nil {
		return Entry{}, false
	}
	return entryOf(n, false), true
}

// PeekFollow is Peek following symlinks.
func (f *FS) PeekFollow(p string) (Entry, bool) {
	f.mu.Lock()
	defer f.mu.Unlock()
	_, _, n, e := f.walk(p, true, 0)
	if e != 0 || n == nil {
		return Entry{}, false
	}
	return entryOf(n, false), true
}

// Bytes returns a copy of the file bytes at p (no symlink following); unlogged.
func (f *FS) Bytes(p string) ([]byte, bool) {
	f.mu.Lock()
	defer f.mu.Unlock()
	_, _, n, e := f.walk(p, false, 0)
	if e != 0 || n == nil || n.kind != KFile {
		return nil, false
	}
	return append([]byte(nil), n.data...), true
}

// DurableBytes returns the durable bytes of the file at p.
func (f *FS) DurableBytes(p string) ([]byte, bool) {
	f.mu.Lock()
	defer f.mu.Unlock()
	_, _, n, e := f.walk(p, false, 0)
	if e != 0 || n == nil || n.kind != KFile {
		return nil, false
	}
	return append([]byte(nil), n.durable...), true
}

// Names lists the directory at p (sorted); unlogged.
func (f *FS) Names(p string) ([]string, bool) {
	f.mu.Lock()
	defer f.mu.Unlock()
	_, _, n, e := f.walk(p, false, 0)
	if e != 0 || n == nil || n.kind != KDir {
		return nil, false
	}
	names := make([]string, 0, len(n.children))
	for k := range n.children {
		names = append(names, k)
	}
	sort.Strings(names)
	return names, true
}

func (f *FS) plant(p string, n *node) {
	f.mu.Lock()
	defer f.mu.Unlock()
	comps := split(p)
	cur := f.root
	for i, c := range comps {
		if i == len(comps)-1 {
			cur.children[c] = n
			return
		}
		ch := cur.children[c]
		if ch == nil {
			ch = f.newNode(KDir, 0755)
			ch.uid, ch.gid, ch.ownerSet = 0, 0, true
			cur.children[c] = ch
		}
		cur = ch
	}
}

// PlantFile creates (or replaces) a file with the given bytes, durable.
func (f *FS) PlantFile(p string, data []byte, perm os.FileMode, uid, gid int) {
	f.mu.Lock()
	n := f.newNode(KFile, perm)
	f.mu.Unlock()
	n.data = append([]byte(nil), data...)
	n.durable = append([]byte(nil), data...)
	n.uid, n.gid, n.ownerSet = uid, gid, true
	f.plant(p, n)
}

// PlantSpecial plants an object whose lstat reports the given type bits (os.ModeNamedPipe,
// os.ModeSocket, os.ModeDevice, os.ModeCharDevice, os.ModeIrregular ...): what a backend over a real
// file system reports for fifos, sockets, device nodes and objects it cannot classify.
func (f *FS) PlantSpecial(p string, typeBits os.FileMode, perm os.FileMode) {
	f.mu.Lock()
	n := f.newNode(KFile, perm)
	f.mu.Unlock()
	n.special = typeBits
	n.uid, n.gid, n.ownerSet = 0, 0, true
	f.plant(p, n)
}

func (f *FS) PlantDir(p string, perm os.FileMode, uid, gid int) {
	f.mu.Lock()
	n := f.newNode(KDir, perm)
	f.mu.Unlock()
	n.uid, n.gid, n.ownerSet = uid, gid, true
	f.plant(p, n)
}

func (f *FS) PlantSymlink(p, target string) {
	f.mu.Lock()
	n := f.newNode(KLink, 0777)
	f.mu.Unlock()
	n.target = target
	n.uid, n.gid, n.ownerSet = 0, 0, true
	f.plant(p, n)
}

// SetPerm sets permission bits without logging.
func (f *FS) SetPerm(p string, perm os.FileMode) {
	f.mu.Lock()
	defer f.mu.Unlock()
	if _, _, n, e := f.walk(p, false, 0); e == 0 && n != nil {
		n.perm = perm & permMask
	}
}

// Crash discards all volatile file bytes.
func (f *FS) Crash() {
	f.mu.Lock()
	defer f.mu.Unlock()
	var rec func(n *node)
	rec = func(n *node) {
		if n.kind == KFile {
			n.data = append([]byte(nil), n.durable...)
		}
		for _, c := range n.children {
			rec(c)
		}
	}
	rec(f.root)
}

// IsMutatingName reports whether a logged op name is a modifying call
// regardless of flags (used by monitors over LogSlice).
func (o Op) IsWriteOpen() bool {
	return (o.Name == "OpenFile" || o.Name == "Open" || o.Name == "Create") && writeFlags(o.Flag)
}
