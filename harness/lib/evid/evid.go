// Package evid collects what a monitor observed and writes the result record
// that the vcheck driver turns into /verif/evidence/<id>.json.
package evid

import (
	"encoding/json"
	"fmt"
	"math/rand"
	"os"
	"sort"
	"strconv"
	"strings"
	"sync"
	"time"
)

type Violation struct {
	Sig    string `json:"sig"`
	What   string `json:"what"`
	Count  int    `json:"count"`
	Replay any    `json:"replay,omitempty"`
}

type Rec struct {
	mu           sync.Mutex
	Property     string
	Tier         string
	Seed         int64
	start        time.Time
	evals        int
	distinct     map[string]int
	samples      []any
	viol         map[string]*Violation
	violOrder    []string
	inconclusive int
	extra        map[string]any
	Rule         string
	Exhaustive   bool
	Assumptions  []string
	infra        string
	MinDistinct  int // below this the run is reported as "observed too little"
}

func Seed() int64 {
	if s := os.Getenv("VERIF_SEED"); s != "" {
		if v, err := strconv.ParseInt(s, 10, 64); err == nil {
			return v
		}
	}
	return 1
}

func Tier() string {
	if os.Getenv("VERIF_TIER") == "thorough" {
		return "thorough"
	}
	return "quick"
}

// Pick returns q in the quick tier and t in the thorough tier.
func Pick(q, t int) int {
	if Tier() == "thorough" {
		return t
	}
	return q
}

// Rng returns a PRNG that depends only on the run seed and the given stream ids.
func Rng(stream ...int64) *rand.Rand {
	s := Seed()*1_000_003 + 17
	for _, x := range stream {
		s = s*6364136223846793005 + x + 1442695040888963407
	}
	return rand.New(rand.NewSource(s))
}

// WallClockMarker tags the description of an outcome that is due to a wall-clock deadline
// (the adapter adds it when the server's own request timeout fired after at least 5 s).
const WallClockMarker = "WALL-CLOCK-TIMEOUT"

// StuckMarker tags the description of a request that was found structurally stuck (the adapter adds
// it when a handler goroutine waits for a lock in two goroutine dumps). A violation carrying it ends
// the monitor at once.
const StuckMarker = "REQUEST-STUCK-ON-A-LOCK"

func New(property string) *Rec {
	return &Rec{Property: property, Tier: Tier(), Seed: Seed(), start: time.Now(),
		distinct: map[string]int{}, viol: map[string]*Violation{}, extra: map[string]any{}, MinDistinct: 2}
}

func (r *Rec) Eval(n int) { r.mu.Lock(); r.evals += n; r.mu.Unlock() }

// Distinct records one observation of the class named key.
func (r *Rec) Distinct(key string) { r.mu.Lock(); r.distinct[key]++; r.mu.Unlock() }

func (r *Rec) Sample(v any) {
	r.mu.Lock()
	if len(r.samples) < 4 {
		r.samples = append(r.samples, v)
	}
	r.mu.Unlock()
}

// Infra marks the run as an infrastructure failure (never a verdict).
func (r *Rec) Infra(msg string) {
	r.mu.Lock()
	defer r.mu.Unlock()
	// A set-up step that fails after the monitor has already observed plenty (typically a
	// wall-clock timeout on a saturated machine) cuts the run short; it does not erase what was
	// observed. It is recorded as an inconclusive episode. A monitor that could observe nothing
	// (or too little) is an infrastructure failure.
	if r.evals > 0 && len(r.distinct) >= r.MinDistinct && len(r.distinct) >= 10 {
		r.inconclusive++
		r.extra["run_cut_short_by"] = msg
		return
	}
	r.infra = msg
}

func (r *Rec) Inconclusive(n int) { r.mu.Lock(); r.inconclusive += n; r.mu.Unlock() }

func (r *Rec) Set(k string, v any) { r.mu.Lock(); r.extra[k] = v; r.mu.Unlock() }
func (r *Rec) Add(k string, n int) {
	r.mu.Lock()
	if v, ok := r.extra[k].(int); ok {
		r.extra[k] = v + n
	} else {
		r.extra[k] = n
	}
	r.mu.Unlock()
}

// Violate records a violation with a seed-independent signature. The first
// occurrence of a signature keeps its replay data.
func (r *Rec) Violate(sig, what string, replay any) {
	r.mu.Lock()
	defer r.mu.Unlock()
	if strings.Contains(what, WallClockMarker) {
		// a wall-clock deadline expired: inconclusive, never a verdict
		r.inconclusive++
		if v, ok := r.extra["wall_clock_timeouts_not_judged"].(int); ok {
			r.extra["wall_clock_timeouts_not_judged"] = v + 1
		} else {
			r.extra["wall_clock_timeouts_not_judged"] = 1
		}
		return
	}
	if v, ok := r.viol[sig]; ok {
		v.Count++
		return
	}
	r.viol[sig] = &Violation{Sig: sig, What: what, Count: 1, Replay: replay}
	r.violOrder = append(r.violOrder, sig)
	if len(r.violOrder) <= 12 {
		r.writeLocked(".partial")
	}
	if strings.Contains(what, StuckMarker) {
		// the server under test is deadlocked: nothing more can be learnt from this process, and
		// shutting it down would wait for the stuck request for ever. Record and leave.
		r.mu.Unlock()
		r.Write()
		os.Exit(0)
	}
}

func (r *Rec) Violations() int { r.mu.Lock(); defer r.mu.Unlock(); return len(r.viol) }

// Journal overwrites the journal file with the case about to run, so that the
// driver knows which input killed the child process.
func Journal(c any) {
	p := os.Getenv("VERIF_JOURNAL")
	if p == "" {
		return
	}
	b, _ := json.Marshal(c)
	os.WriteFile(p, b, 0644)
}

// Write stores the result record at $VERIF_OUT.
func (r *Rec) Write() error {
	r.mu.Lock()
	defer r.mu.Unlock()
	return r.writeLocked("")
}

// writeLocked writes the record (r.mu held). With a suffix it is a checkpoint: the record as it
// stands after a violation was judged, kept next to $VERIF_OUT so that a monitor that never
// reaches its end afterwards (the server under test hangs in an API call, the child is killed by
// the driver's watchdog) still delivers the verdicts it had already reached.
func (r *Rec) writeLocked(suffix string) error {
	keys := make([]string, 0, len(r.distinct))
	for k := range r.distinct {
		keys = append(keys, k)
	}
	sort.Strings(keys)
	classes := map[string]int{}
	for i, k := range keys {
		if i < 80 {
			classes[k] = r.distinct[k]
		}
	}
	viol := make([]*Violation, 0, len(r.viol))
	for _, s := range r.violOrder {
		viol = append(viol, r.viol[s])
	}
	out := map[string]any{
		"property": r.Property, "tier": r.Tier, "seed": r.Seed,
		"evaluations": r.evals, "distinct": len(r.distinct), "classes": classes,
		"samples": r.samples, "violations": viol, "inconclusive": r.inconclusive,
		"extra": r.extra, "rule": r.Rule, "exhaustive": r.Exhaustive,
		"assumptions": r.Assumptions, "wall_s": time.Since(r.start).Seconds(),
		"min_distinct": r.MinDistinct, "infra": r.infra,
	}
	if suffix != "" {
		out["partial"] = true
	}
	b, err := json.MarshalIndent(out, "", " ")
	if err != nil {
		return err
	}
	p := os.Getenv("VERIF_OUT")
	if p == "" {
		if suffix == "" {
			fmt.Println(string(b))
		}
		return nil
	}
	return os.WriteFile(p+suffix, b, 0644)
}
