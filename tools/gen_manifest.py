#!/usr/bin/env python3
"""Regenerate /verif/MANIFEST.json from the table below and the CLAIMED list."""
import json, os, sys
V = os.path.dirname(os.path.dirname(os.path.abspath(__file__)))
props = [json.loads(l) for l in open(os.path.join(V, "properties.jsonl"))]
T = {
 "C01": ("history vs byte-array model at the client boundary + backend bytes after every request", "exploration", "Seeded WRITE/READ/SETATTR(size)/GETATTR/CREATE histories through HandleCall on every attr-cache TTL x transfer size; each reply and the backend bytes are compared with a byte-array model. Exploration is the right level: the input space is unbounded and the oracle is exact on every sampled history."),
 "C02": ("lockstep differential across cache configurations + POSIX tree model + backend snapshots", "exploration", "The same seeded namespace history runs on 4 (quick) / 8 (thorough) servers differing only in attr/dir/negative caching; replies must be identical and agree with a model tree, and every backend tree must equal the model after each request. Fault injection: each changing backend call of each namespace mutation is failed once; a failure reply must leave the tree unchanged."),
 "C03": ("exhaustive create matrix + seeded histories, backend snapshots around every CREATE", "exploration", "All create modes x existing object kinds x sattr3 combinations x verifier x caller are executed (matrix exhaustive) and judged against the RFC 1813 3.3.8 outcome table with full-content snapshots; plus random create/write/retransmit histories."),
 "C04": ("attribute ledger over every decoded reply + backend lstat", "exploration", "Every fattr3 / entry fileid in every reply of seeded histories (incl. SETATTR with every mode-word class) is attributed to the path it describes, compared with the backend's lstat and with the majority of earlier reports for the unchanged path."),
 "C05": ("ghost handle table checked after every issue", "exploration", "Direct FileHandleMap histories for max in {1..64} with pools up to 20x max, and handler-level histories with a small limit where every returned handle is used at once."),
 "C06": ("ghost first-issued-for table; backend paths per replayed handle", "exploration", "A client that never forgets a handle value replays old values across eviction, Release, ReleaseAll, Unexport/Export; backend calls and returned data must belong to the path the value was first issued for, or the status is STALE/BADHANDLE."),
 "C07": ("online path assertion at the backend boundary", "exploration", "Bounded-exhaustive hostile names (alphabet of 8 bytes up to length 3/4 + boundary lengths + random) in every name-taking procedure; every backend path argument is checked to be clean, absolute and handle-path + one validated component; symlink targets and READLINK results checked for containment."),
 "C08": ("backend mutating-call counter + snapshots while read-only", "exploration", "All 22 procedures x {well-formed, truncated at every word, garbage, huge counts} x 3 credentials while read-only was set at construction or at runtime; the monitor watches the backend, not the status."),
 "C09": ("differential of both filters against a net/netip oracle; denial leaves no trace", "exploration", "Both IP filters are compared with a netip-based oracle over CIDRs of every prefix length and boundary clients; request-level denial must be MSG_DENIED with no backend call; real TCP from 127.0.0.x sources."),
 "C10": ("squash oracle over an exhaustive credential grid", "exploration", "8 uid x 8 gid x 13 aux lists x 8 modes at ValidateAuthentication and through HandleCall (effective ids and aux gids as used by ACCESS); flavors and undecodable bodies; shared aux array unchanged."),
 "C11": ("backend chown log + owner map", "exploration", "Exhaustive grid squash x credential x sattr uid/gid x 8 procedures; every Chown/Lchown the backend sees and the recorded owner of every new object are judged."),
 "C12": ("UNIX class oracle over the whole decision space", "exploration", "All 512 (quick) / 4096 (thorough) modes x {file,dir} x 6 caller relations x 64 masks x read-only on/off through HandleCall; exhaustive over the stated finite space."),
 "C13": ("round trips with an independent codec, consumption and allocation counters", "exploration", "Boundary-exhaustive lengths for every limit, every cut point, all fragmentations of small records, huge declared lengths with TotalAlloc measured around the single decode."),
 "C14": ("strict RFC decode of every reply over a (procedure x shape x server state) matrix", "exploration", "Every NFS/MOUNT procedure, unknown programs/versions x argument shapes x states {normal, read-only, op-rate-limited, conn-rate-limited via the real loop, policy drain held open by a parked request, backend faults}; replies decoded by decoders written from the RFC text."),
 "C15": ("survival, XID order, allocation and close-on-undecodable observed from outside a server child process", "exploration", "Random, mutated, truncated and huge-length streams against a real listening server in its own process; a probe connection after every batch; reply XIDs must be an ordered duplicate-free subsequence; allocation read from the child."),
 "C16": ("logical event order at backend gates + live-policy probe + race detector", "exploration", "Controlled schedules (request parked at a chosen backend call, update started, mid-drain request, seeded release orders, short request timeouts) and -race stress with concurrent updaters; policy pointer observed at every backend call."),
 "C17": ("counters under the server's lock, barriered TCP clients, goroutine dump, race detector", "exploration", "Connection storms of up to 4x MaxConnections, idle reaping with back-dated activity, refused connections, Stop/Close/Unexport in all orders with port probes and goroutine dumps, and Close/Unexport while several connections keep looking up fresh names over a slowed backend (afterwards no handle and no cache entry may exist)."),
 "C18": ("exact reference token buckets on a virtual clock", "exploration", "rate_limiter.go is compiled with its clock calls rewritten to a virtual clock; every admit/deny decision of seeded event sequences is judged against big.Rat reference buckets; sequences are replayed with the other cleanup interval; handlers wiring checked."),
 "C19": ("must-admit rule with admitted-only global accounting on a virtual clock", "exploration", "Abuser/compliant two-population scenarios; a compliant request must be admitted when the requests actually admitted leave global room. Plus a concurrent variant on a frozen clock: the abuser floods from 4-15 goroutines while K requests from fresh addresses arrive and the global bucket holds exactly K tokens."),
 "C20": ("instrumented tasks + structural quiescence audit after Stop + race detector", "exploration", "Pool sizes {1,2,4} x busy x queued x {Stop, Resize grow/shrink/same, both} with racing submitters and seeded gate release orders; verdicts only from facts that hold once Stop has returned; plus requests in flight through the real loop during Close / MaxWorkers change."),
 "C21": ("reference LRU/TTL model on a virtual clock; porcupine per key for concurrent histories", "exploration", "Seeded op sequences on AttrCache and DirCache with exact comparison when nothing expires and safety clauses in the expiry regime; concurrent histories checked by porcupine."),
 "C22": ("durable-state comparison after every backend call of a crash-simulating backend", "fault_enumeration", "Every backend-call boundary of every history is a crash point: the durable bytes are compared with the acknowledged bytes there; every third history injects failing Sync/WriteAt/Close calls at seeded points; each history also ends with a real crash, restart and READ. Verifier constancy across reconfiguration, distinctness across instances."),
 "C23": ("FSINFO decoded, advertised counts exercised over real record-marked TCP", "exploration", "For each TransferSize (on and off the 4096 grid, at construction and at runtime) the advertised maxima/preferred sizes are used in real WRITE/READ calls, sent as one fragment and cut into 64 KiB / 4 KiB / 512-byte fragments."),
 "C24": ("configuration snapshots vs a freshly constructed server, serviceability probes", "exploration", "Seeded update sequences with zero/negative/nil/valid fields, read-modify-write updates that edit the reported struct in place, Squash changes and spelling variants; GetExportOptions compared with what New reports for the same struct; rejected updates compared field by field against value snapshots; READ/WRITE/LOOKUP probes."),
 "C25": ("byte model with a limit + differential against an unlimited server", "exploration", "WRITE/SETATTR(size) around m for m in {1,100,4096,65537} and at offsets/sizes near 2^31, 2^32, 2^63, 2^64, limit set at construction or at runtime; an over-limit size change that reaches the backend is witnessed at the backend boundary."),
 "C26": ("cookie walk vs backend listing, strict reply-size measurement", "exploration", "Directories of 0..60 entries with short/long/mixed names; READDIR count / READDIRPLUS maxcount swept from 0 upward; cookies followed to eof; listings over a backend slower than a small ReaddirTimeout (only the content of OK replies is judged)."),
 "C27": ("registry map model + strict reply decode over handleCall and real TCP", "exploration", "Seeded SET/UNSET/GETPORT/GETADDR/DUMP sequences over v2/v3/v4 from loopback and non-loopback peers; registry compared with the model after every call; all DUMP variants and both lookups read back against GetMappings() after every second step."),
 "C28": ("conformant record-marking client against each start path", "exploration", "Export (port 0 / explicit), Server.Listen+UseRecordMarking, StartWithPortmapper x debug; NULL, MNT, GETATTR; a non-framing server shows as an observed EOF."),
 "C29": ("porcupine on client-boundary histories per owner, window rule for cached modes, interval rule for listings, quiescent audit, race detector", "exploration", "3-6 concurrent clients with seeded yields at backend boundaries in strict/cached/cached+dir+neg modes over HandleCall and the real loop."),
 "C30": ("real crypto/tls clients over a configuration x client matrix; certificate serial identifies what was served", "exploration", "Min/Max version x ClientAuth x CA x cipher subset against clients pinned to TLS 1.0-1.3 with no / self-signed / CA1 / CA2 certificates; rotation via GetExportOptions().TLS.ReloadCertificates() as a scenario matrix (settings fetched before/after Listen x runtime updates in between, rotated twice)."),
}
NOTE = "Trusted base: Go toolchain + race detector, the harness library (refs backend, rfc strict decoders, xdrw encoder, evid) and the model of this property; the harness is injected into package absnfs with -overlay (tag verif), /repo is not edited. Holds only on the executions produced (seed-determined case lists)."
claimed = [l.strip() for l in open(os.path.join(V, "tools", "claimed.txt")) if l.strip() and not l.startswith("#")]
na_reason = {}
p = os.path.join(V, "tools", "not_claimed.json")
if os.path.exists(p):
    na_reason = json.load(open(p))
checks = []
for pid in claimed:
    tech, level, text = T[pid]
    checks.append({
        "property_id": pid,
        "quick_cmd": "./vcheck %s quick" % pid,
        "thorough_cmd": "./vcheck %s thorough" % pid,
        "evidence_file": "/verif/evidence/%s.json" % pid,
        "replay_cmd_template": "./vcheck %s --replay {path}" % pid,
        "engine": "vcheck",
        "level_claimed": {"category": level, "text": text, "design_ref": "DESIGN.md section 5, %s" % pid},
        "level_note": NOTE + (" Virtual clock: textual rewrite of time.Now/time.Since in rate_limiter.go and cache.go, guarded by a substitution count." if pid in ("C18", "C19", "C21") else ""),
        "technique": "runtime monitoring: " + tech,
    })
m = {
 "version": 1,
 "setup_cmd": "./vcheck --setup",
 "hooks": {"guard": "verif", "enable": "go test -c -race -vet=off -tags verif -overlay=<scratch>/overlay.json -modfile=<scratch>/go.mod . (run in /repo; harness files of /verif/harness/inpkg and the clock stub are injected by the overlay; no source file of /repo is changed)",
           "baseline_off_cmd": "python3 /verif/tools/baseline_check.py /repo", "source_commits": [], "add_only": True},
 "engines": [{"name": "vcheck", "path": "/verif/vcheck", "serves_properties": claimed, "kind_free_text": "Python driver: builds package absnfs from /repo's working tree with the in-package harness (Go, -race), runs one monitor per property in a child process, matches violation signatures against known_findings.json, writes evidence"}],
 "checks": checks,
 "not_applicable": [{"property_id": p["id"], "reason": na_reason.get(p["id"], "monitor built (see DESIGN.md section 5) but not yet claimed: its findings on the unchanged tree are still being triaged")} for p in props if p["id"] not in claimed],
 "notes": "Technique family: runtime monitoring and sanitizers (Go race detector, recording reference backend, strict RFC decoders, executable models, virtual clock, porcupine). See DESIGN.md.",
}
json.dump(m, open(os.path.join(V, "MANIFEST.json"), "w"), indent=1)
print("claimed:", len(claimed), "not claimed:", len(m["not_applicable"]))
