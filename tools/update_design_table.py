#!/usr/bin/env python3
"""Regenerates the table between the SEEDED-TABLE markers of DESIGN.md from seeded/*/meta.json"""
import os, subprocess, re
here = os.path.dirname(os.path.abspath(__file__))
p = os.path.join(here, "..", "DESIGN.md")
t = subprocess.run(["python3", os.path.join(here, "seeded_table.py")], stdout=subprocess.PIPE, text=True).stdout
s = open(p).read()
s = re.sub(r"<!-- SEEDED-TABLE-BEGIN -->.*?<!-- SEEDED-TABLE-END -->", lambda m: "<!-- SEEDED-TABLE-BEGIN -->\n" + t + "<!-- SEEDED-TABLE-END -->", s, flags=re.S)
open(p, "w").write(s)
