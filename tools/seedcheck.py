#!/usr/bin/env python3
"""seedcheck.py <seed-dir> <PROP> [more PROPs...] [--tier quick|thorough] [--skip-confirm]
Confirms a seeded change (patch.diff + demo_test.go) in a scratch worktree of /repo, then runs the
named checks against the changed tree (VERIF_REPO=<worktree>), and prints a one-line verdict per check."""
import json, os, re, shutil, subprocess, sys, tempfile
ROOT = os.path.dirname(os.path.dirname(os.path.abspath(__file__)))  # this copy of /verif (a vp-run snapshot works too)
args = sys.argv[1:]
tier = "quick"
if "--tier" in args:
    i = args.index("--tier"); tier = args[i + 1]; del args[i:i + 2]
skip = "--skip-confirm" in args
if skip: args.remove("--skip-confirm")
seed, props = os.path.abspath(args[0]), args[1:]
env = dict(os.environ, GOFLAGS="-mod=mod", GOPROXY="off", GOSUMDB="off", GOTOOLCHAIN="local")
os.makedirs("/tmp/seed", exist_ok=True)
wt = tempfile.mkdtemp(prefix="eval-", dir="/tmp/seed")
os.rmdir(wt)
def sh(cmd, cwd=None, **kw):
    return subprocess.run(cmd, cwd=cwd, env=env, stdout=subprocess.PIPE, stderr=subprocess.STDOUT, text=True, **kw)
res = {"seed": seed}
try:
    sh(["git", "-C", "/repo", "worktree", "add", "-q", wt, "HEAD"])
    demo = os.path.join(seed, "demo_test.go")
    tname = None
    if os.path.exists(demo):
        m = re.search(r"func (Test\w+)\(", open(demo).read())
        tname = m.group(1) if m else None
    def run_demo():
        shutil.copy(demo, os.path.join(wt, "zz_seed_demo_test.go"))
        p = sh(["go", "test", "-vet=off", "-count=1", "-run", "^%s$" % tname, "."], cwd=wt)
        os.remove(os.path.join(wt, "zz_seed_demo_test.go"))
        return p.returncode == 0, p.stdout[-1500:]
    if not skip and tname:
        ok, out = run_demo()
        res["demo_passes_without_patch"] = ok
        if not ok: res["demo_out_clean"] = out
    p = sh(["git", "apply", os.path.join(seed, "patch.diff")], cwd=wt)
    res["patch_applies"] = p.returncode == 0
    if p.returncode != 0:
        res["apply_out"] = p.stdout[-800:]
    else:
        changed = sh(["git", "diff", "--name-only"], cwd=wt).stdout.split()
        res["files"] = changed
        res["touches_tests"] = any(f.endswith("_test.go") for f in changed)
        if not skip:
            b = sh(["go", "build", "./..."], cwd=wt)
            res["builds"] = b.returncode == 0
            s = sh(["python3", os.path.join(ROOT, "tools", "baseline_check.py"), wt])
            res["suite_passes_with_patch"] = s.returncode == 0
            if s.returncode != 0: res["suite_out"] = s.stdout[-1500:]
            if tname:
                ok, out = run_demo()
                res["demo_fails_with_patch"] = not ok
        for pid in props:
            e = dict(env, VERIF_REPO=wt, VERIF_EVIDENCE_DIR="/tmp/seed/evidence", VERIF_REPLAY_DIR="/tmp/seed/replays")
            c = subprocess.run([os.path.join(ROOT, "vcheck"), pid, tier], cwd=ROOT, env=e, stdout=subprocess.PIPE, stderr=subprocess.STDOUT, text=True)
            sigs = re.findall(r"signature: (\S+)", c.stdout)
            res["check_" + pid] = {"rc": c.returncode, "signatures": sigs[:8], "tail": c.stdout[-300:] if c.returncode not in (0, 1) else ""}
finally:
    subprocess.run(["git", "-C", "/repo", "worktree", "remove", "--force", wt], stdout=subprocess.DEVNULL, stderr=subprocess.DEVNULL)
    shutil.rmtree(wt, ignore_errors=True)
print(json.dumps(res, indent=1))
