#!/usr/bin/env python3
"""Run the repository's own suite with the verif guard OFF and compare with /root/.vp/BASELINE.json.
usage: baseline_check.py [repo_dir] [-overlay file]    exit 0 = every stable_pass test passed"""
import json, os, subprocess, sys
repo = sys.argv[1] if len(sys.argv) > 1 and not sys.argv[1].startswith("-") else "/repo"
extra = []
if "-overlay" in sys.argv:
    extra = ["-overlay", sys.argv[sys.argv.index("-overlay") + 1]]
env = dict(os.environ, GOFLAGS="-mod=mod", GOPROXY="off", GOSUMDB="off", GOTOOLCHAIN="local")
p = subprocess.run(["go", "test", "-json", "-vet=off", "-count=1", "-timeout", "25m"] + extra + ["./..."], cwd=repo, env=env, stdout=subprocess.PIPE, stderr=subprocess.STDOUT, text=True)
passed, failed = set(), set()
for line in p.stdout.splitlines():
    try:
        e = json.loads(line)
    except Exception:
        continue
    if e.get("Test") and e.get("Action") in ("pass", "fail"):
        (passed if e["Action"] == "pass" else failed).add("%s::%s" % (e["Package"], e["Test"]))
base = json.load(open("/root/.vp/BASELINE.json"))["stable_pass"]
missing = [t for t in base if t not in passed]
print("baseline: %d stable tests, %d passed now, %d failed now, %d stable tests not passing" % (len(base), len(passed), len(failed), len(missing)))
for t in missing[:40]:
    print("  NOT PASSING:", t)
if not passed:
    print(p.stdout[-3000:])
sys.exit(1 if missing else 0)
