#!/bin/bash
# usage: runall.sh [tier] [seed...]   - runs every claimed check, prints one line per check
tier=${1:-quick}; shift
seeds=${@:-1}
cd "$(dirname "$0")/.."
for seed in $seeds; do
 for id in $(cat tools/claimed.txt); do
  out=$(VERIF_SEED=$seed ./vcheck $id $tier 2>&1); rc=$?
  echo "seed=$seed $id rc=$rc $(echo "$out" | grep -c '^KNOWN-FINDING') known | $(echo "$out" | grep '^OK\|^VIOLATION\|^INCONC\|^HARNESS' | head -3 | tr '\n' ' ')"
 done
done
