#!/usr/bin/env python3
"""mutate.py <name> <repo-file> <old> <new> <PROP> [PROP...]   (own calibration mutants, via VERIF_EXTRA_OVERLAY)
Writes a mutated copy of one source file to scratch, maps it over the original with the overlay, runs the
named checks (quick) and prints which signatures fired. --suite also runs the repository suite on the mutant."""
import json, os, subprocess, sys, tempfile, re, shutil
args = sys.argv[1:]
suite = "--suite" in args
if suite: args.remove("--suite")
name, f, old, new, props = args[0], args[1], args[2], args[3], args[4:]
src = open(os.path.join("/repo", f)).read()
if src.count(old) != 1:
    print("MUTANT %s: pattern occurs %d times in %s" % (name, src.count(old), f)); sys.exit(2)
d = tempfile.mkdtemp(prefix="mut-", dir="/var/tmp")
try:
    mp = os.path.join(d, os.path.basename(f))
    open(mp, "w").write(src.replace(old, new))
    ov = os.path.join(d, "extra.json")
    json.dump({os.path.join("/repo", f): mp}, open(ov, "w"))
    env = dict(os.environ, VERIF_EXTRA_OVERLAY=ov, VERIF_EVIDENCE_DIR=os.path.join(d, "ev"), VERIF_REPLAY_DIR=os.path.join(d, "rp"))
    out = []
    if suite:
        ov2 = os.path.join(d, "ov2.json")
        json.dump({"Replace": {os.path.join("/repo", f): mp}}, open(ov2, "w"))
        s = subprocess.run(["python3", "/verif/tools/baseline_check.py", "/repo", "-overlay", ov2], stdout=subprocess.PIPE, stderr=subprocess.STDOUT, text=True)
        out.append("suite=%s" % ("pass" if s.returncode == 0 else "FAIL"))
    for p in props:
        c = subprocess.run(["/verif/vcheck", p, "quick"], cwd="/verif", env=env, stdout=subprocess.PIPE, stderr=subprocess.STDOUT, text=True)
        sigs = [s for s in re.findall(r"signature: (\S+)", c.stdout)]
        out.append("%s rc=%d %s" % (p, c.returncode, ",".join(sigs[:3]) if sigs else c.stdout.strip().splitlines()[-1][:100]))
    print("MUTANT %-28s %s" % (name, " | ".join(out)))
finally:
    shutil.rmtree(d, ignore_errors=True)
