#!/bin/bash
# seedsweep.sh - re-runs, for every kept seeded change, each check its meta.json lists (quick tier) and
# prints caught/missed per (change, check). Read-only with respect to meta.json.
cd "$(dirname "$0")/.."
for d in seeded/*/; do
  name=$(basename $d)
  for prop in $(python3 -c "import json;print(' '.join(json.load(open('$d/meta.json'))['checks_run'].keys()))"); do
    out=$(python3 tools/seedcheck.py $d $prop --skip-confirm 2>&1)
    rc=$(echo "$out" | python3 -c "import json,sys; d=json.load(sys.stdin); c=d.get('check_$prop',{}); print(c.get('rc'), ','.join(c.get('signatures',[])[:2]))" 2>/dev/null)
    echo "$name $prop $rc"
  done
done
