#!/usr/bin/env python3
"""reseed.py <seeded-name> <PROP> [--note "what was added"]
Re-runs one check (quick, default seed) against a kept seeded change and records the outcome in its meta.json.
A change that was missed before and is caught now is recorded as 'missed at first; caught after <note>: <signatures>'."""
import json, os, subprocess, sys
args = sys.argv[1:]
note = None
if "--note" in args:
    i = args.index("--note"); note = args[i + 1]; del args[i:i + 2]
name, prop = args[0], args[1]
d = os.path.join("/verif/seeded", name)
out = subprocess.run(["python3", "/verif/tools/seedcheck.py", d, prop, "--skip-confirm"], stdout=subprocess.PIPE, text=True).stdout
res = json.loads(out)["check_" + prop]
mp = os.path.join(d, "meta.json")
m = json.load(open(mp))
old = m["checks_run"].get(prop, "")
if res["rc"] == 1:
    sigs = ",".join(res["signatures"][:3])
    if old.startswith("missed") or old == "rerun":
        new = ("missed at first; caught after %s: %s" % (note, sigs)) if (note and old.startswith("missed")) else sigs
    elif old.startswith("missed at first"):
        new = old
    else:
        new = sigs
elif res["rc"] == 0:
    new = "missed"
else:
    new = old; print("check did not decide (rc=%d): %s" % (res["rc"], res["tail"]))
m["checks_run"][prop] = new
json.dump(m, open(mp, "w"), indent=1)
print(name, prop, "->", new)
