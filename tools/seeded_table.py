#!/usr/bin/env python3
"""seeded_table.py - prints the markdown table of DESIGN.md section 9 from /verif/seeded/*/meta.json"""
import json, glob, os
rows = []
for m in sorted(glob.glob(os.path.join(os.path.dirname(__file__), "..", "seeded", "*", "meta.json"))):
    d = json.load(open(m))
    for chk, res in sorted(d.get("checks_run", {}).items()):
        rows.append((d["name"], d["breaks_property"], d["needs_to_manifest"], chk, res))
print("| seeded change | breaks | needs, to manifest | check | result (violation signature, or missed) |")
print("|---|---|---|---|---|")
last = None
for name, prop, needs, chk, res in rows:
    first = name != last
    print("| %s | %s | %s | %s | %s |" % (name if first else "", prop if first else "", needs.replace("|", "/") if first else "", chk, res.replace("|", "/")))
    last = name
