#!/usr/bin/env python3
"""kf.py add <property> <status> <signature> <what> [commit-subject]  - append to known_findings.json"""
import json, sys, subprocess
p = "/verif/known_findings.json"
d = json.load(open(p))
prop, status, sig, what = sys.argv[2:6]
e = {"property": prop, "signature": sig, "status": status, "what": what}
if len(sys.argv) > 6:
    subj = sys.argv[6]
    h = subprocess.run(["git", "-C", "/repo", "log", "--format=%h %s"], stdout=subprocess.PIPE, text=True).stdout
    for line in h.splitlines():
        if line.split(" ", 1)[1].startswith(subj):
            e["commit"] = line.split(" ", 1)[0]
            e["commit_subject"] = line.split(" ", 1)[1]
    assert "commit" in e, "commit not found: " + subj
    e["what"] = "fixed: property=%s %s %s" % (prop, e["commit"], what)
d["findings"] = [x for x in d["findings"] if not (x["property"] == prop and x["signature"] == sig)] + [e]
json.dump(d, open(p, "w"), indent=1)
print("ok", len(d["findings"]))
