#!/usr/bin/env python3
"""keepseed.py <seed-out-dir> <name> <property> <needs-text> -- <check>=<sig or 'missed'> ...   stores a confirmed seeded change under /verif/seeded/<name>/"""
import json, os, shutil, sys, subprocess
src, name, prop, needs = sys.argv[1:5]
rest = sys.argv[6:] if len(sys.argv) > 5 and sys.argv[5] == "--" else []
dst = os.path.join("/verif/seeded", name)
os.makedirs(dst, exist_ok=True)
for f in ("patch.diff", "demo_test.go", "notes.md", "patch.original.diff"):
    if os.path.exists(os.path.join(src, f)):
        shutil.copy(os.path.join(src, f), os.path.join(dst, f))
head = subprocess.run(["git", "-C", "/repo", "rev-parse", "--short", "HEAD"], stdout=subprocess.PIPE, text=True).stdout.strip()
files = [l[6:].strip() for l in open(os.path.join(dst, "patch.diff")) if l.startswith("+++ b/")]
meta = {
    "name": name, "breaks_property": prop, "files_changed": files,
    "needs_to_manifest": needs,
    "origin": "independent sub-agent given only the property text and a scratch worktree" + ("; patch rebased by hand onto the repaired tree (original kept as patch.original.diff)" if os.path.exists(os.path.join(dst, "patch.original.diff")) else ""),
    "confirmed": {"how": "tools/seedcheck.py in a scratch worktree of /repo at " + head, "patch_applies": True, "package_builds": True,
                  "existing_suite_passes_with_change": True, "demonstration_fails_with_change": True, "demonstration_passes_without_change": True},
    "checks_run": {c.split("=", 1)[0]: c.split("=", 1)[1] for c in rest},
}
json.dump(meta, open(os.path.join(dst, "meta.json"), "w"), indent=1)
print("kept", name)
